(* Proofs/SettingsProofs.v — soundness of Check/WireEquiv.v (same acceptance, same
   deserialised value, same serialisation for every instance and every fuel) and the
   lemmas about Algo/SettingsModel.v behind Props/C14.v. *)
From Coq Require Import String ZArith NArith QArith List Bool Lia Arith.
From Typify Require Import Base.Json IR.TypeIR IR.Serde Check.WireEquiv.
Import ListNotations.
Close Scope Q_scope.
Close Scope string_scope.
Close Scope N_scope.
Open Scope list_scope.
Open Scope nat_scope.

(* ------------------------------------------------------------------ equalities *)
Lemma ueq a b : ustr_eqb a b = true -> a = b.
Proof.
  revert b. induction a as [|x a IH]; intros [|y b]; simpl; try discriminate; auto.
  intros H. apply andb_prop in H as [H1 H2]. apply N.eqb_eq in H1. subst. f_equal. auto.
Qed.

Lemma ueq_refl a : ustr_eqb a a = true.
Proof. induction a; simpl; auto. rewrite N.eqb_refl. exact IHa. Qed.

Lemma list_eqb_eq {X} (eq : X -> X -> bool) (x y : list X) :
  (forall a b, In a x -> eq a b = true -> a = b) -> list_eqb eq x y = true -> x = y.
Proof.
  revert y. induction x as [|a x IH]; intros [|b y] Hq; simpl; try discriminate; auto.
  intros H. apply andb_prop in H as [H1 H2]. f_equal.
  - apply Hq; [left; reflexivity | exact H1].
  - apply IH; [|exact H2]. intros u v Hu. apply Hq. right. exact Hu.
Qed.

Lemma jeq_eq : forall n a b, jeq n a b = true -> a = b.
Proof.
  induction n as [|n IH]; intros a b; simpl; [discriminate|].
  destruct a; destruct b; try discriminate; intros H.
  - reflexivity.
  - apply eqb_prop in H. subst. reflexivity.
  - apply Z.eqb_eq in H. subst. reflexivity.
  - apply andb_prop in H as [H1 H2]. apply Z.eqb_eq in H1. apply Pos.eqb_eq in H2.
    destruct q, q0. simpl in *. subst. reflexivity.
  - apply ueq in H. subst. reflexivity.
  - f_equal. apply list_eqb_eq with (eq := jeq n); [|exact H]. intros u v _. apply IH.
  - f_equal.
    apply list_eqb_eq with (eq := fun p q => ustr_eqb (fst p) (fst q) && jeq n (snd p) (snd q)); [|exact H].
    intros [k u] [k' v] _ E. simpl in E. apply andb_prop in E as [E1 E2].
    apply ueq in E1. apply IH in E2. subst. reflexivity.
Qed.

Local Opaque jdepth.

Lemma opt_eqb_eq {X} (eq : X -> X -> bool) (a b : option X) :
  (forall x y, eq x y = true -> x = y) -> opt_eqb eq a b = true -> a = b.
Proof. intros Hq. destruct a, b; simpl; try discriminate; auto. intros H. f_equal. auto. Qed.

Lemma prename_eqb_eq a b : prename_eqb a b = true -> a = b.
Proof. destruct a, b; simpl; try discriminate; auto. intros H. apply ueq in H. subst. reflexivity. Qed.

Lemma pstate_eqb_eq a b : pstate_eqb a b = true -> a = b.
Proof. destruct a, b; simpl; try discriminate; auto. intros H. apply jeq_eq in H. subst. reflexivity. Qed.

Lemma tag_eqb_eq a b : tag_eqb a b = true -> a = b.
Proof.
  destruct a, b; simpl; try discriminate; auto.
  - intros H. apply ueq in H. subst. reflexivity.
  - intros H. apply andb_prop in H as [H1 H2]. apply ueq in H1. apply ueq in H2. subst. reflexivity.
Qed.

Lemma constr_eqb_eq a b : constr_eqb a b = true -> a = b.
Proof.
  destruct a, b; simpl; try discriminate; auto.
  - intros H. f_equal. apply list_eqb_eq with (eq := jeq jdepth); [|exact H]. intros u v _. apply jeq_eq.
  - intros H. f_equal. apply list_eqb_eq with (eq := jeq jdepth); [|exact H]. intros u v _. apply jeq_eq.
  - intros H. apply andb_prop in H as [H H3]. apply andb_prop in H as [H1 H2].
    apply opt_eqb_eq in H1; [|intros x y E; apply N.eqb_eq; exact E].
    apply opt_eqb_eq in H2; [|intros x y E; apply N.eqb_eq; exact E].
    apply opt_eqb_eq in H3; [|exact ueq]. subst. reflexivity.
Qed.

Lemma rel_In A a b : rel A a b = true <-> In (a, b) A.
Proof.
  unfold rel. rewrite existsb_exists. split.
  - intros [[x y] [Hin H]]. simpl in H. apply andb_prop in H as [H1 H2].
    apply N.eqb_eq in H1. apply N.eqb_eq in H2. subst. exact Hin.
  - intros Hin. exists (a, b). split; [exact Hin|]. simpl. rewrite !N.eqb_refl. reflexivity.
Qed.

(* ------------------------------------------------------------------ constructor kinds *)
Definition kind (o : option details) : nat :=
  match o with
  | None => 0
  | Some d =>
      match d with
      | DEnum _ _ _ _ _ _ => 1 | DStruct _ _ _ _ => 2 | DNewtype _ _ _ _ => 3 | DNative _ _ _ => 4
      | DOption _ => 5 | DBox _ => 6 | DVec _ => 7 | DMap _ _ => 8 | DSet _ => 9 | DArray _ _ => 10
      | DTuple _ => 11 | DUnit => 12 | DBoolean => 13 | DInteger _ => 14 | DFloat _ => 15
      | DString => 16 | DJsonValue => 17 | DReference _ => 18
      end
  end.

Lemma det_eq_kind A d d' : det_eq A d d' = true -> kind (Some d) = kind (Some d').
Proof. destruct d, d'; simpl; try discriminate; reflexivity. Qed.

Lemma match_opt_eq {X} o o' (x y : X) : kind o = kind o' ->
  match o with Some (DOption _) => x | _ => y end = match o' with Some (DOption _) => x | _ => y end.
Proof. destruct o as [[]|]; destruct o' as [[]|]; simpl; intros H; try discriminate H; reflexivity. Qed.

Lemma match_map_eq {X} o o' (x y : X) : kind o = kind o' ->
  match o with Some (DMap _ _) => x | _ => y end = match o' with Some (DMap _ _) => x | _ => y end.
Proof. destruct o as [[]|]; destruct o' as [[]|]; simpl; intros H; try discriminate H; reflexivity. Qed.

Lemma match_skip_eq o o' (x : rval) : kind o = kind o' ->
  match o, x with
  | Some (DOption _), ROptNone => true
  | Some (DVec _), RSeq [] => true
  | Some (DMap _ _), RMap [] => true
  | _, _ => false
  end =
  match o', x with
  | Some (DOption _), ROptNone => true
  | Some (DVec _), RSeq [] => true
  | Some (DMap _ _), RMap [] => true
  | _, _ => false
  end.
Proof. destruct o as [[]|]; destruct o' as [[]|]; simpl; intros H; try discriminate H; reflexivity. Qed.

(* ------------------------------------------------------------------ generic list lemmas *)
Lemma mapM_ext {X Y} (g h : X -> option Y) l : (forall x, g x = h x) -> mapM g l = mapM h l.
Proof. intros E. induction l as [|a l IH]; simpl; auto. rewrite E, IH. reflexivity. Qed.

Lemma zipM_rel {X X' Y Z} (R : X -> X' -> bool) (g : X -> Y -> option Z) (h : X' -> Y -> option Z) l l' :
  (forall a b, R a b = true -> forall y, g a y = h b y) ->
  list_eqb R l l' = true -> forall m, zipM g l m = zipM h l' m.
Proof.
  intros E. revert l'. induction l as [|a l IH]; intros [|b l']; simpl; try discriminate.
  - intros _ [|y m]; reflexivity.
  - intros H [|y m]; [reflexivity|]. apply andb_prop in H as [H1 H2].
    rewrite (E a b H1 y), (IH l' H2 m). reflexivity.
Qed.

(* ------------------------------------------------------------------ the two sides *)
Section Sound.
  Variables (re_match native_ok : ustring -> ustring -> bool).
  Variables (T T' : space) (A : pairs).
  Hypothesis Hclosed : closed T T' A = true.

  Definition R (a b : id) : Prop := rel A a b = true.

  Lemma R_step a b : R a b ->
    exists d d', get_det T a = Some d /\ get_det T' b = Some d' /\ det_eq A d d' = true.
  Proof.
    intros H. apply rel_In in H. unfold closed in Hclosed. rewrite forallb_forall in Hclosed.
    specialize (Hclosed _ H). unfold step_ok in Hclosed. simpl in Hclosed.
    destruct (get_det T a) as [d|]; [|discriminate]. destruct (get_det T' b) as [d'|]; [|discriminate].
    exists d, d'. auto.
  Qed.

  Lemma R_kind a b : R a b -> kind (get_det T a) = kind (get_det T' b).
  Proof. intros H. destruct (R_step a b H) as [d [d' [E1 [E2 E3]]]]. rewrite E1, E2. apply det_eq_kind with A. exact E3. Qed.

  Lemma R_unbox_kind a b : R a b -> kind (unbox_det T a) = kind (unbox_det T' b).
  Proof.
    intros H. destruct (R_step a b H) as [d [d' [E1 [E2 E3]]]]. unfold unbox_det. rewrite E1, E2.
    destruct d; destruct d'; simpl in E3; try discriminate E3; try reflexivity.
    destruct (R_step _ _ E3) as [e [e' [F1 [F2 F3]]]]. rewrite F1, F2. apply det_eq_kind with A. exact F3.
  Qed.

  Lemma prop_eq_spec p q : prop_eq A p q = true ->
    p_name p = p_name q /\ p_rename p = p_rename q /\ p_state p = p_state q /\ R (p_ty p) (p_ty q).
  Proof.
    unfold prop_eq. intros H. apply andb_prop in H as [H H4]. apply andb_prop in H as [H H3].
    apply andb_prop in H as [H1 H2]. apply ueq in H1. apply prename_eqb_eq in H2. apply pstate_eqb_eq in H3.
    auto.
  Qed.

  Lemma prop_eq_wire p q : prop_eq A p q = true -> wire_name p = wire_name q.
  Proof. intros H. apply prop_eq_spec in H as [H1 [H2 _]]. unfold wire_name. rewrite H1, H2. reflexivity. Qed.

  Lemma props_wire_names ps qs : list_eqb (prop_eq A) ps qs = true -> wire_names ps = wire_names qs.
  Proof.
    revert qs. induction ps as [|p ps IH]; intros [|q qs]; simpl; try discriminate; auto.
    intros H. apply andb_prop in H as [H1 H2]. rewrite (prop_eq_wire p q H1), (IH qs H2). reflexivity.
  Qed.

  Lemma props_flat ps qs : list_eqb (prop_eq A) ps qs = true ->
    list_eqb (prop_eq A) (flat_props ps) (flat_props qs) = true.
  Proof.
    revert qs. induction ps as [|p ps IH]; intros [|q qs]; simpl; try discriminate; auto.
    intros H. apply andb_prop in H as [H1 H2]. destruct (prop_eq_spec p q H1) as [_ [E _]].
    rewrite E. destruct (p_rename q); simpl; auto. rewrite H1. simpl. auto.
  Qed.

  Lemma props_unknown ps qs kvs : list_eqb (prop_eq A) ps qs = true ->
    unknown_entries ps kvs = unknown_entries qs kvs.
  Proof. intros H. unfold unknown_entries. rewrite (props_wire_names ps qs H). reflexivity. Qed.

  (* ---- de helpers *)
  Section DeCong.
    Variables (de1 de2 : id -> json -> option rval) (df1 df2 : id -> option rval).
    Hypothesis Hde : forall a b, R a b -> forall j, de1 a j = de2 b j.
    Hypothesis Hdf : forall a b, R a b -> df1 a = df2 b.

    Lemma missing_cong p q : prop_eq A p q = true -> missing T de1 df1 p = missing T' de2 df2 q.
    Proof.
      intros H. destruct (prop_eq_spec p q H) as [_ [_ [E3 E4]]]. unfold missing. rewrite E3.
      destruct (p_state q).
      - rewrite (Hde _ _ E4 JNull). destruct (R_step _ _ E4) as [d [d' [E1 [E2 _]]]].
        rewrite E1, E2. reflexivity.
      - apply Hdf. exact E4.
      - apply Hde. exact E4.
    Qed.

    Lemma de_named_cong ps qs kvs : list_eqb (prop_eq A) ps qs = true ->
      de_named T de1 df1 ps kvs = de_named T' de2 df2 qs kvs.
    Proof.
      revert qs. induction ps as [|p ps IH]; intros [|q qs]; simpl; try discriminate; auto.
      intros H. apply andb_prop in H as [H1 H2]. rewrite (prop_eq_wire p q H1), (IH qs H2).
      destruct (prop_eq_spec p q H1) as [E1 [_ [_ E4]]].
      rewrite (missing_cong p q H1). rewrite E1.
      destruct (wire_name q); [|reflexivity].
      destruct (assoc u kvs); [rewrite (Hde _ _ E4 j)|]; reflexivity.
    Qed.

    (* ---- several flattened members (IR/Serde.v de_flats) *)
    Lemma find_wire_prop_cong w ps qs : list_eqb (prop_eq A) ps qs = true ->
      match find_wire_prop w ps, find_wire_prop w qs with
      | Some p, Some q => prop_eq A p q = true
      | None, None => True
      | _, _ => False
      end.
    Proof.
      revert qs. induction ps as [|p ps IH]; intros [|q qs]; simpl; try discriminate; auto.
      intros H. apply andb_prop in H as [H1 H2]. rewrite (prop_eq_wire p q H1).
      destruct (wire_name q) as [w'|]; [|apply IH; exact H2].
      destruct (ustr_eqb w w'); [exact H1 | apply IH; exact H2].
    Qed.

    Lemma flat_take_cong qs qs' slots : list_eqb (prop_eq A) qs qs' = true ->
      flat_take de1 qs slots = flat_take de2 qs' slots.
    Proof.
      intros H. induction slots as [|kv r IH]; [reflexivity|]. cbn [flat_take].
      pose proof (find_wire_prop_cong (fst kv) qs qs' H) as Hf.
      destruct (find_wire_prop (fst kv) qs) as [q|]; destruct (find_wire_prop (fst kv) qs') as [q'|];
        try contradiction.
      - destruct (prop_eq_spec q q' Hf) as [_ [_ [_ E4]]]. rewrite (Hde _ _ E4), IH. reflexivity.
      - rewrite IH. reflexivity.
    Qed.

    Lemma de_flats_cong fps fqs : list_eqb (prop_eq A) fps fqs = true ->
      forall slots, de_flats T de1 df1 fps slots = de_flats T' de2 df2 fqs slots.
    Proof.
      revert fqs. induction fps as [|fp fps IH]; intros [|fq fqs]; simpl; try discriminate; auto.
      intros H slots. apply andb_prop in H as [H1 H2].
      destruct (prop_eq_spec fp fq H1) as [E1 [_ [_ E4]]].
      destruct (R_step _ _ E4) as [d [d' [Ed [Ed' Hdet]]]]. rewrite Ed, Ed'.
      destruct d; destruct d'; simpl in Hdet; try discriminate Hdet; try reflexivity.
      - (* Option of a struct *)
        destruct (R_step _ _ Hdet) as [e [e' [Fe [Fe' He]]]]. rewrite Fe, Fe'.
        destruct e; destruct e'; simpl in He; try discriminate He; try reflexivity.
        apply andb_prop in He as [He1 _].
        pose proof (props_flat _ _ He1) as Hfl.
        destruct (flat_props props) as [|x xs]; destruct (flat_props props0) as [|y ys];
          simpl in Hfl; try discriminate Hfl; try reflexivity.
        rewrite (flat_take_cong props props0 slots He1).
        destruct (flat_take de2 props0 slots) as [[tk rest] ok].
        rewrite (de_named_cong props props0 tk He1), (IH fqs H2 rest), E1. reflexivity.
      - (* map *)
        rewrite (Hde _ _ E4), (IH fqs H2 slots), E1. reflexivity.
    Qed.

    Lemma de_struct_obj_cong ps qs deny kvs : list_eqb (prop_eq A) ps qs = true ->
      de_struct_obj T de1 df1 ps deny kvs = de_struct_obj T' de2 df2 qs deny kvs.
    Proof.
      intros H. unfold de_struct_obj. rewrite (de_named_cong ps qs kvs H), (props_unknown ps qs kvs H).
      destruct (de_named T' de2 df2 qs kvs); [|reflexivity].
      assert (Hf := props_flat ps qs H).
      assert (HF := de_flats_cong _ _ Hf (unknown_entries qs kvs)).
      destruct (flat_props ps) as [|fp [|fp2 r]]; destruct (flat_props qs) as [|fq [|fq2 r']];
        simpl in Hf; try discriminate Hf; try reflexivity;
        try (apply andb_prop in Hf as [Hf0 Hf]; try discriminate Hf).
      - destruct (prop_eq_spec fp fq Hf0) as [E1 [_ [_ E4]]].
        destruct (R_step _ _ E4) as [d [d' [Ed [Ed' Hdet]]]]. rewrite Ed, Ed'.
        destruct d; destruct d'; simpl in Hdet; try discriminate Hdet; try (rewrite HF; reflexivity).
        rewrite (Hde _ _ E4), E1. reflexivity.
      - rewrite HF. reflexivity.
    Qed.

    Lemma de_struct_seq_cong ps qs l : list_eqb (prop_eq A) ps qs = true ->
      de_struct_seq T de1 df1 ps l = de_struct_seq T' de2 df2 qs l.
    Proof.
      revert qs l. induction ps as [|p ps IH]; intros [|q qs] l; simpl; try discriminate; auto.
      intros H. apply andb_prop in H as [H1 H2].
      destruct (prop_eq_spec p q H1) as [E1 [_ [_ E4]]].
      destruct l as [|j l].
      - rewrite (missing_cong p q H1), (IH qs [] H2), E1. reflexivity.
      - rewrite (Hde _ _ E4 j), (IH qs l H2), E1. reflexivity.
    Qed.

    Lemma de_struct_body_cong ps qs deny j : list_eqb (prop_eq A) ps qs = true ->
      de_struct_body T de1 df1 ps deny j = de_struct_body T' de2 df2 qs deny j.
    Proof.
      intros H. unfold de_struct_body. destruct j; try reflexivity.
      - assert (Hf := props_flat ps qs H).
        rewrite (de_struct_seq_cong ps qs l H).
        destruct (flat_props ps); destruct (flat_props qs); simpl in Hf; try discriminate Hf; reflexivity.
      - rewrite (de_struct_obj_cong ps qs deny kvs H). reflexivity.
    Qed.

    Lemma de_payload_cong deny a b j : vdet_eq A a b = true ->
      de_payload T de1 df1 deny a j = de_payload T' de2 df2 deny b j.
    Proof.
      destruct a, b; simpl; try discriminate; intros H.
      - reflexivity.
      - apply Hde. exact H.
      - destruct j; try reflexivity. f_equal.
        apply zipM_rel with (R := rel A); [|exact H]. intros x y E. apply Hde. exact E.
      - apply de_struct_body_cong. exact H.
    Qed.

    Lemma de_untagged_cong deny vs ws i j : list_eqb (variant_eq A) vs ws = true ->
      de_untagged T de1 df1 deny vs i j = de_untagged T' de2 df2 deny ws i j.
    Proof.
      revert ws i. induction vs as [|v vs IH]; intros [|w ws] i; cbn [list_eqb de_untagged]; try discriminate; auto.
      intros H. apply andb_prop in H as [H1 H2]. unfold variant_eq in H1. apply andb_prop in H1 as [_ H1].
      assert (P := de_payload_cong deny _ _ j H1). rewrite (IH ws (S i) H2).
      destruct (v_det v), (v_det w); cbn [vdet_eq] in H1; try discriminate H1; try (rewrite P; reflexivity);
        destruct j; try (rewrite P; reflexivity); reflexivity.
    Qed.

    (* find_variant returns related variants at the same index *)
    Lemma find_variant_cong s vs ws i : list_eqb (variant_eq A) vs ws = true ->
      match find_variant s vs i, find_variant s ws i with
      | None, None => True
      | Some (n, v), Some (m, w) => n = m /\ vdet_eq A (v_det v) (v_det w) = true
      | _, _ => False
      end.
    Proof.
      revert ws i. induction vs as [|v vs IH]; intros [|w ws] i; simpl; try discriminate; auto.
      intros H. apply andb_prop in H as [H1 H2]. unfold variant_eq in H1. apply andb_prop in H1 as [H0 H1].
      apply ueq in H0. rewrite H0. destruct (ustr_eqb s (v_raw w)); [auto|]. apply IH. exact H2.
    Qed.

    Lemma de_enum_cong tag vs ws deny j : list_eqb (variant_eq A) vs ws = true ->
      de_enum T de1 df1 tag vs deny j = de_enum T' de2 df2 tag ws deny j.
    Proof.
      intros H. unfold de_enum. destruct tag.
      - (* external *)
        destruct j; try reflexivity.
        + assert (F := find_variant_cong s vs ws 0 H).
          destruct (find_variant s vs 0) as [[n v]|]; destruct (find_variant s ws 0) as [[m w]|];
            try contradiction; [|reflexivity].
          destruct F as [E F]. subst m. destruct (v_det v), (v_det w); simpl in F; try discriminate F; reflexivity.
        + destruct kvs as [|[k pj] [|? ?]]; try reflexivity.
          assert (F := find_variant_cong k vs ws 0 H).
          destruct (find_variant k vs 0) as [[n v]|]; destruct (find_variant k ws 0) as [[m w]|];
            try contradiction; [|reflexivity].
          destruct F as [E F]. subst m. rewrite (de_payload_cong deny _ _ pj F). reflexivity.
      - (* internal *)
        destruct j; try reflexivity. destruct (assoc tag kvs) as [[]|]; try reflexivity.
        assert (F := find_variant_cong s vs ws 0 H).
        destruct (find_variant s vs 0) as [[n v]|]; destruct (find_variant s ws 0) as [[m w]|];
          try contradiction; [|reflexivity].
        destruct F as [E F]. subst m.
        destruct (v_det v), (v_det w); simpl in F; try discriminate F; try reflexivity.
        + rewrite (Hde _ _ F). reflexivity.
        + rewrite (de_struct_body_cong ps ps0 deny _ F). reflexivity.
      - (* adjacent *)
        destruct j; try reflexivity. destruct (assoc tag kvs) as [[]|]; try reflexivity.
        assert (F := find_variant_cong s vs ws 0 H).
        destruct (find_variant s vs 0) as [[n v]|]; destruct (find_variant s ws 0) as [[m w]|];
          try contradiction; [|reflexivity].
        destruct F as [E F]. subst m.
        destruct (deny && negb (length (remove_key content (remove_key tag kvs)) =? 0)); [reflexivity|].
        destruct (assoc content kvs).
        + rewrite (de_payload_cong deny _ _ j F). reflexivity.
        + destruct (v_det v), (v_det w); simpl in F; try discriminate F; reflexivity.
      - apply de_untagged_cong. exact H.
    Qed.
  End DeCong.

  (* ---- ser helpers *)
  Section SerCong.
    Variables (s1 s2 : id -> rval -> option json).
    Hypothesis Hs : forall a b, R a b -> forall x, s1 a x = s2 b x.

    Lemma skip_if_cong p q x : prop_eq A p q = true -> skip_if T p x = skip_if T' q x.
    Proof.
      intros H. destruct (prop_eq_spec p q H) as [_ [_ [E3 E4]]]. unfold skip_if. rewrite E3.
      destruct (p_state q); try reflexivity. apply match_skip_eq. apply R_unbox_kind. exact E4.
    Qed.

    Lemma ser_fields_cong ps qs fs : list_eqb (prop_eq A) ps qs = true ->
      ser_fields T s1 ps fs = ser_fields T' s2 qs fs.
    Proof.
      revert qs. induction ps as [|p ps IH]; intros [|q qs]; simpl; try discriminate; auto.
      intros H. apply andb_prop in H as [H1 H2].
      destruct (prop_eq_spec p q H1) as [E1 [E2 [_ E4]]].
      rewrite E1, (IH qs H2), E2, (prop_eq_wire p q H1).
      destruct (assoc (p_name q) fs); [|reflexivity].
      rewrite (Hs _ _ E4), (skip_if_cong p q r H1). reflexivity.
    Qed.

    Lemma ser_payload_cong a b x : vdet_eq A a b = true -> ser_payload T s1 a x = ser_payload T' s2 b x.
    Proof.
      destruct a, b; simpl; try discriminate; intros H.
      - reflexivity.
      - apply Hs. exact H.
      - destruct x; try reflexivity. f_equal.
        apply zipM_rel with (R := rel A); [|exact H]. intros u v E. apply Hs. exact E.
      - destruct x; try reflexivity. rewrite (ser_fields_cong ps ps0 fs H). reflexivity.
    Qed.

    Lemma nth_variant_cong vs ws i : list_eqb (variant_eq A) vs ws = true ->
      match nth_error vs i, nth_error ws i with
      | None, None => True
      | Some v, Some w => v_raw v = v_raw w /\ vdet_eq A (v_det v) (v_det w) = true
      | _, _ => False
      end.
    Proof.
      revert ws i. induction vs as [|v vs IH]; intros [|w ws] i; simpl; try discriminate.
      - intros _. destruct i; simpl; exact I.
      - intros H. apply andb_prop in H as [H1 H2]. destruct i; simpl.
        + unfold variant_eq in H1. apply andb_prop in H1 as [H0 H1]. apply ueq in H0. auto.
        + apply IH. exact H2.
    Qed.

    Lemma ser_enum_cong tag vs ws x : list_eqb (variant_eq A) vs ws = true ->
      ser_enum T s1 tag vs x = ser_enum T' s2 tag ws x.
    Proof.
      intros H. unfold ser_enum. destruct x; try reflexivity.
      assert (F := nth_variant_cong vs ws idx H).
      destruct (nth_error vs idx) as [v|]; destruct (nth_error ws idx) as [w|]; try contradiction; [|reflexivity].
      destruct F as [E F]. rewrite E.
      assert (P := ser_payload_cong _ _ x F).
      destruct tag; destruct (v_det v), (v_det w); simpl in F; try discriminate F; try reflexivity;
        try (rewrite P; reflexivity).
    Qed.
  End SerCong.

  (* ---- the induction on the fuel *)
  Lemma sound_fuel : forall f a b, R a b ->
    (forall j, de re_match native_ok T f a j = de re_match native_ok T' f b j) /\
    default_val T f a = default_val T' f b /\
    (forall x, ser T f a x = ser T' f b x).
  Proof.
    induction f as [|f IH]; intros a b Hab; [simpl; auto|].
    assert (IHde : forall a b, R a b -> forall j, de re_match native_ok T f a j = de re_match native_ok T' f b j)
      by (intros u v H; apply (IH u v H)).
    assert (IHdf : forall a b, R a b -> default_val T f a = default_val T' f b)
      by (intros u v H; apply (IH u v H)).
    assert (IHs : forall a b, R a b -> forall x, ser T f a x = ser T' f b x)
      by (intros u v H; apply (IH u v H)).
    destruct (R_step a b Hab) as [d [d' [Ea [Eb Ed]]]].
    split; [|split].
    - (* de *)
      intros j. cbn [de]. rewrite Ea, Eb.
      destruct d; destruct d'; simpl in Ed; try discriminate Ed.
      + (* enum *)
        apply andb_prop in Ed as [Ed E3]. apply andb_prop in Ed as [E1 E2].
        apply tag_eqb_eq in E1. apply eqb_prop in E3. subst.
        apply de_enum_cong; auto.
      + apply andb_prop in Ed as [E1 E2]. apply eqb_prop in E2. subst.
        apply de_struct_body_cong; auto.
      + apply andb_prop in Ed as [E1 E2]. apply constr_eqb_eq in E2. subst c0.
        rewrite (IHde _ _ E1 j). reflexivity.
      + apply ueq in Ed. subst. reflexivity.
      + destruct j; try reflexivity; rewrite (IHde _ _ Ed); apply match_opt_eq; apply R_kind; exact Ed.
      + apply IHde. exact Ed.
      + destruct j; try reflexivity. f_equal. apply mapM_ext. intros x. apply IHde. exact Ed.
      + apply andb_prop in Ed as [E1 E2]. destruct j; try reflexivity. f_equal. apply mapM_ext.
        intros kv. unfold de_key. rewrite (IHde _ _ E1), (IHde _ _ E2). reflexivity.
      + destruct j; try reflexivity. f_equal. apply mapM_ext. intros x. apply IHde. exact Ed.
      + apply andb_prop in Ed as [E1 E2]. apply N.eqb_eq in E2. subst.
        destruct j; try reflexivity. rewrite (mapM_ext (de re_match native_ok T f t) (de re_match native_ok T' f t0));
          [reflexivity | intros x; apply IHde; exact E1].
      + destruct j; try reflexivity. f_equal. apply zipM_rel with (R := rel A); [|exact Ed].
        intros u v E. apply IHde. exact E.
      + reflexivity.
      + reflexivity.
      + apply ueq in Ed. subst. reflexivity.
      + reflexivity.
      + reflexivity.
      + reflexivity.
    - (* default_val *)
      cbn [default_val]. rewrite Ea, Eb.
      destruct d; destruct d'; simpl in Ed; try discriminate Ed; try reflexivity.
      + apply IHdf. exact Ed.
      + f_equal. clear Ea Eb. revert ts0 Ed. induction ts as [|u ts IHt]; intros [|v ts0]; simpl; try discriminate; auto.
        intros H. apply andb_prop in H as [H1 H2]. rewrite (IHdf _ _ H1), (IHt ts0 H2). reflexivity.
      + apply ueq in Ed. subst. reflexivity.
    - (* ser *)
      intros x. cbn [ser]. rewrite Ea, Eb.
      destruct d; destruct d'; simpl in Ed; try discriminate Ed.
      + apply andb_prop in Ed as [Ed E3]. apply andb_prop in Ed as [E1 E2].
        apply tag_eqb_eq in E1. subst. apply ser_enum_cong; auto.
      + apply andb_prop in Ed as [E1 E2]. destruct x; try reflexivity.
        rewrite (ser_fields_cong _ _ IHs props props0 fs E1). reflexivity.
      + apply andb_prop in Ed as [E1 E2]. apply constr_eqb_eq in E2. subst c0.
        destruct c; try (apply IHs; exact E1). reflexivity.
      + reflexivity.
      + rewrite (match_opt_eq (get_det T t) (get_det T' t0)) by (apply R_kind; exact Ed).
        destruct (get_det T' t0) as [[]|]; destruct x; try reflexivity; apply IHs; exact Ed.
      + apply IHs. exact Ed.
      + destruct x; try reflexivity. f_equal. apply mapM_ext. intros y. apply IHs. exact Ed.
      + apply andb_prop in Ed as [E1 E2]. destruct x; try reflexivity. f_equal. apply mapM_ext.
        intros kv. rewrite (IHs _ _ E2). reflexivity.
      + destruct x; try reflexivity. f_equal. apply mapM_ext. intros y. apply IHs. exact Ed.
      + apply andb_prop in Ed as [E1 E2]. destruct x; try reflexivity. f_equal. apply mapM_ext.
        intros y. apply IHs. exact E1.
      + destruct x; try reflexivity. f_equal. apply zipM_rel with (R := rel A); [|exact Ed].
        intros u v E. apply IHs. exact E.
      + reflexivity.
      + reflexivity.
      + reflexivity.
      + reflexivity.
      + reflexivity.
      + reflexivity.
  Qed.
End Sound.

(* ------------------------------------------------------------------ soundness of the checker *)
Theorem wire_equiv_sound_fuel : forall re_match native_ok T T' t t',
  wire_equiv T t T' t' = true ->
  forall f,
    (forall v, de re_match native_ok T f t v = de re_match native_ok T' f t' v) /\
    default_val T f t = default_val T' f t' /\
    (forall x, ser T f t x = ser T' f t' x).
Proof.
  intros re_match native_ok T T' t t' H f. unfold wire_equiv in H. apply andb_prop in H as [Hc Hr].
  exact (sound_fuel re_match native_ok T T' _ Hc f t t' Hr).
Qed.

Theorem wire_equiv_sound : forall re_match native_ok T T' t t',
  wire_equiv T t T' t' = true ->
  forall f v,
    de re_match native_ok T f t v = de re_match native_ok T' f t' v /\
    (de re_match native_ok T f t v = None <-> de re_match native_ok T' f t' v = None) /\
    (forall f2 x, ser T f2 t x = ser T' f2 t' x) /\
    (forall f2, match de re_match native_ok T f t v, de re_match native_ok T' f t' v with
                | Some x, Some x' => ser T f2 t x = ser T' f2 t' x'
                | None, None => True
                | _, _ => False
                end).
Proof.
  intros re_match native_ok T T' t t' H f v.
  destruct (wire_equiv_sound_fuel re_match native_ok T T' t t' H f) as [Hd _].
  split; [apply Hd|]. split; [rewrite Hd; tauto|]. split.
  - intros f2 x. apply (wire_equiv_sound_fuel re_match native_ok T T' t t' H f2).
  - intros f2. rewrite Hd. destruct (de re_match native_ok T' f t' v); [|exact I].
    apply (wire_equiv_sound_fuel re_match native_ok T T' t t' H f2).
Qed.

Theorem wire_equiv_all_sound : forall re_match native_ok T T' roots,
  wire_equiv_all T T' roots = true ->
  forall t t', In (t, t') roots -> forall f,
    (forall v, de re_match native_ok T f t v = de re_match native_ok T' f t' v) /\
    (forall x, ser T f t x = ser T' f t' x).
Proof.
  intros re_match native_ok T T' roots H t t' Hin f. unfold wire_equiv_all in H.
  apply andb_prop in H as [Hc Hr]. rewrite forallb_forall in Hr. specialize (Hr _ Hin). simpl in Hr.
  destruct (sound_fuel re_match native_ok T T' _ Hc f t t' Hr) as [H1 [_ H3]]. auto.
Qed.

(* ------------------------------------------------------------------ the settings record is never read *)
From Typify Require Import Algo.Emit Algo.SettingsModel Proofs.EmitProofs.
Close Scope string_scope.

Lemma de_entries_only : forall re_match native_ok T1 T2, sp_entries T1 = sp_entries T2 ->
  de re_match native_ok T1 = de re_match native_ok T2.
Proof. intros re_match native_ok [e1 ? ? ? ? ? ? ?] [e2 ? ? ? ? ? ? ?]. simpl. intros ->. reflexivity. Qed.

Lemma ser_entries_only : forall T1 T2, sp_entries T1 = sp_entries T2 -> ser T1 = ser T2.
Proof. intros [e1 ? ? ? ? ? ? ?] [e2 ? ? ? ? ? ? ?]. simpl. intros ->. reflexivity. Qed.

Lemma settings_irrelevant_de : forall re_match native_ok T s,
  de re_match native_ok (with_settings T s) = de re_match native_ok T.
Proof. intros. apply de_entries_only. reflexivity. Qed.

Lemma settings_irrelevant_ser : forall T s, ser (with_settings T s) = ser T.
Proof. intros. apply ser_entries_only. reflexivity. Qed.

(* ------------------------------------------------------------------ derives are full paths *)
(* the derive list is a SET OF STRINGS (BTreeSet<&str>): membership is equality of the whole string,
   so a requested derive is present whatever built-in derive shares its last path segment *)
Theorem derives_are_full_paths : forall T e, named e ->
  (forall x, In x (derives_of T e) <->
             In x (builtin_derives T e) \/ In x (s_derives (sp_settings T)) \/ In x (e_derives e)) /\
  NoDup (derives_of T e) /\
  (forall x y, (In x (s_derives (sp_settings T)) \/ In x (e_derives e)) -> In y (builtin_derives T e) -> x <> y ->
               In x (derives_of T e) /\ In y (derives_of T e) /\
               exists l1 l2 l3, (derives_of T e = l1 ++ x :: l2 ++ y :: l3 \/ derives_of T e = l1 ++ y :: l2 ++ x :: l3)).
Proof.
  intros T e Hn.
  assert (Hex : forall x, In x (derives_of T e) <->
             In x (builtin_derives T e) \/ In x (s_derives (sp_settings T)) \/ In x (e_derives e)).
  { intros x. rewrite derives_of_exact. tauto. }
  split; [exact Hex|]. split; [apply derives_sorted_nodup|].
  intros x y Hx Hy Hne.
  assert (Ix : In x (derives_of T e)) by (apply Hex; tauto).
  assert (Iy : In y (derives_of T e)) by (apply Hex; tauto).
  split; [exact Ix|]. split; [exact Iy|].
  destruct (in_split x _ Ix) as [a [b E]].
  rewrite E in Iy. apply in_app_or in Iy. destruct Iy as [Iy|[Iy|Iy]].
  - destruct (in_split y _ Iy) as [a1 [a2 E2]]. exists a1, a2, b. right. rewrite E, E2, <- app_assoc. reflexivity.
  - congruence.
  - destruct (in_split y _ Iy) as [b1 [b2 E2]]. exists a, b1, b2. left. rewrite E, E2. reflexivity.
Qed.

(* ------------------------------------------------------------------ patch *)
Lemma type_patch_spec : forall m n,
  (assoc n m = None -> type_patch m n = (n, [])) /\
  (forall p, assoc n m = Some p ->
     fst (type_patch m n) = match pa_rename p with Some r => r | None => n end /\
     (forall x, In x (pa_derives p) <-> In x (snd (type_patch m n)))).
Proof.
  intros m n. unfold type_patch. split.
  - intros ->. reflexivity.
  - intros p ->. simpl. split; [reflexivity|]. intros x. rewrite In_set_extend. simpl. tauto.
Qed.

Lemma new_named_named : forall m n sh, named (new_named m n sh).
Proof.
  intros m n sh. unfold new_named. destruct (type_patch m n) as [name ds].
  exists name. destruct sh; reflexivity.
Qed.

Lemma new_named_name : forall m n sh,
  det_name (e_det (new_named m n sh)) = Some (fst (type_patch m n)) /\
  e_derives (new_named m n sh) = snd (type_patch m n).
Proof. intros m n sh. unfold new_named. destruct (type_patch m n) as [name ds]. destruct sh; split; reflexivity. Qed.

(* per-type derives of a patch reach the derive list of the item, whatever its kind *)
Theorem patch_derives : forall T m n sh p x,
  assoc n m = Some p -> In x (pa_derives p) -> In x (derives_of T (new_named m n sh)).
Proof.
  intros T m n sh p x Hm Hx. apply type_derives_everywhere; [apply new_named_named|].
  destruct (new_named_name m n sh) as [_ ->]. apply (proj2 (type_patch_spec m n) p Hm). exact Hx.
Qed.

(* recording the schema default keeps name, kind and per-type derives: the derive list is unchanged *)
Lemma record_default_derives : forall T e df, derives_of T (record_default e df) = derives_of T e.
Proof. intros T [d ds] df. unfold record_default, derives_of. simpl. destruct d; reflexivity. Qed.

Theorem patch_derives_survive_default : forall T m n sh p x df,
  assoc n m = Some p -> In x (pa_derives p) ->
  In x (derives_of T (record_default (new_named m n sh) df)) /\
  det_name (e_det (record_default (new_named m n sh) df)) = det_name (e_det (new_named m n sh)).
Proof.
  intros T m n sh p x df Hm Hx. split.
  - rewrite record_default_derives. apply (patch_derives T m n sh p x Hm Hx).
  - unfold record_default. simpl. destruct (e_det (new_named m n sh)); reflexivity.
Qed.

(* the name stored in the entry is the patched one; a use site spells the STORED name *)
Theorem patch_apply : forall m n sh,
  det_name (e_det (new_named m n sh)) =
  Some (match assoc n m with
        | Some p => match pa_rename p with Some r => r | None => n end
        | None => n
        end).
Proof.
  intros m n sh. destruct (new_named_name m n sh) as [-> _]. f_equal. unfold type_patch.
  destruct (assoc n m); reflexivity.
Qed.

(* the requested rename is used VERBATIM (no sanitisation, no re-casing), at the definition and at
   every use site, whatever string it is *)
Theorem patch_rename_verbatim : forall m n sh p r,
  assoc n m = Some p -> pa_rename p = Some r ->
  fst (type_patch m n) = r /\
  det_name (e_det (new_named m n sh)) = Some r /\
  (forall T f i, get_det T i = Some (e_det (new_named m n sh)) -> s_type_mod (sp_settings T) = None ->
                 type_ident T (S f) i = Some r).
Proof.
  intros m n sh p r Hm Hr.
  assert (E : det_name (e_det (new_named m n sh)) = Some r).
  { rewrite patch_apply, Hm, Hr. reflexivity. }
  split; [unfold type_patch; rewrite Hm, Hr; reflexivity|]. split; [exact E|].
  intros T f i Hi Ht. cbn [type_ident]. rewrite Hi.
  destruct (e_det (new_named m n sh)); simpl in E; try discriminate E; injection E as ->; rewrite Ht; reflexivity.
Qed.

Theorem named_use_is_entry_name : forall T f i d n,
  get_det T i = Some d -> det_name d = Some n -> s_type_mod (sp_settings T) = None ->
  type_ident T (S f) i = Some n.
Proof.
  intros T f i d n Hd Hn Hm. cbn [type_ident]. rewrite Hd.
  destruct d; simpl in Hn; try discriminate Hn; injection Hn as <-; rewrite Hm; reflexivity.
Qed.

Theorem with_patch_last_wins : forall m k p q n,
  assoc n (with_patch (with_patch m k p) k q) = assoc n (with_patch m k q).
Proof.
  intros m k p q n. unfold with_patch. simpl. rewrite ueq_refl.
  destruct (ustr_eqb n k) eqn:E; [reflexivity|].
  f_equal. clear. induction m as [|[k' v] m IH]; simpl; [reflexivity|].
  destruct (ustr_eqb k k') eqn:E; [exact IH|]. simpl. rewrite E. rewrite IH. reflexivity.
Qed.

(* ------------------------------------------------------------------ map type *)
Theorem map_type_everywhere : forall T f k v a b,
  get_det T k <> None -> get_det T v <> None -> is_json_map T k v = false ->
  type_ident T f k = Some a -> type_ident T f v = Some b ->
  forall i, get_det T i = Some (DMap k v) ->
  type_ident T (S f) i = Some (map_path T ++ u "<" ++ a ++ u "," ++ b ++ u ">").
Proof.
  intros T f k v a b Hk Hv Hj Ha Hb i Hi. cbn [type_ident]. rewrite Hi, Hj, Ha, Hb.
  destruct (get_det T k); [|congruence]. destruct (get_det T v); [|congruence]. reflexivity.
Qed.

Theorem map_json_exception : forall T f k v i,
  get_det T i = Some (DMap k v) -> is_json_map T k v = true ->
  type_ident T (S f) i = Some json_map_ty.
Proof.
  intros T f k v i Hi Hj. cbn [type_ident]. rewrite Hi, Hj. unfold is_json_map in Hj.
  destruct (get_det T k) as [[]|]; try discriminate Hj. destruct (get_det T v) as [[]|]; try discriminate Hj.
  reflexivity.
Qed.

(* the exception needs BOTH tests (type_entry.rs:1732-1733, structs.rs:403-404): a map whose key
   type is anything but the plain String entry is spelled with the configured map type and its
   key type, whatever the value type (in particular JsonValue) *)
Lemma constrained_key_not_json_map : forall T k v dk,
  get_det T k = Some dk -> dk <> DString -> is_json_map T k v = false.
Proof. intros T k v dk Hk Hn. unfold is_json_map. rewrite Hk. destruct dk; try reflexivity. congruence. Qed.

Theorem map_constrained_keys_use_map_type : forall T f k v dk a b,
  get_det T k = Some dk -> dk <> DString -> get_det T v <> None ->
  type_ident T f k = Some a -> type_ident T f v = Some b ->
  (forall i, get_det T i = Some (DMap k v) ->
     type_ident T (S f) i = Some (map_path T ++ u "<" ++ a ++ u "," ++ b ++ u ">")) /\
  (forall p, p_state p = POptional -> get_det T (p_ty p) = Some (DMap k v) ->
     skip_path T p = map_path T ++ u "::is_empty").
Proof.
  intros T f k v dk a b Hk Hn Hv Ha Hb.
  assert (Hj := constrained_key_not_json_map T k v dk Hk Hn). split.
  - intros i Hi. apply (map_type_everywhere T f k v a b); auto. congruence.
  - intros p Hs Hd. unfold skip_path, unbox. rewrite Hs, Hd, Hj. reflexivity.
Qed.

(* serde_json::Map is produced ONLY for key = String and value = JsonValue *)
Theorem json_map_only_string_any : forall T f i k v,
  get_det T i = Some (DMap k v) -> type_ident T (S f) i = Some json_map_ty ->
  (get_det T k = Some DString /\ get_det T v = Some DJsonValue) \/
  (exists a b, type_ident T f k = Some a /\ type_ident T f v = Some b /\
               map_path T ++ u "<" ++ a ++ u "," ++ b ++ u ">" = json_map_ty).
Proof.
  intros T f i k v Hi H. cbn [type_ident] in H. rewrite Hi in H. unfold is_json_map in H.
  destruct (get_det T k) as [dk|] eqn:Ek; [|discriminate H].
  destruct (get_det T v) as [dv|] eqn:Ev; [|destruct dk; discriminate H].
  destruct dk; destruct dv; try (left; split; reflexivity);
    right; destruct (type_ident T f k) as [a|]; try discriminate H;
    destruct (type_ident T f v) as [b|]; try discriminate H;
    exists a, b; repeat split; congruence.
Qed.

Theorem map_is_empty_path : forall T p k v,
  p_state p = POptional -> get_det T (p_ty p) = Some (DMap k v) ->
  skip_path T p = if is_json_map T k v then u "::serde_json::Map::is_empty" else map_path T ++ u "::is_empty".
Proof. intros T p k v Hs Hd. unfold skip_path, unbox. rewrite Hs, Hd. reflexivity. Qed.

(* the only part of the settings the spelling of a type depends on: map type and type_mod *)
Theorem type_ident_settings : forall T s f i,
  s_map_type s = s_map_type (sp_settings T) -> s_type_mod s = s_type_mod (sp_settings T) ->
  type_ident (with_settings T s) f i = type_ident T f i.
Proof.
  intros T s f i Hm Ht. destruct T as [es nx st c1 c2 c3 c4 df]. unfold with_settings. simpl in *.
  revert i. induction f as [|f IH]; intros i; [reflexivity|].
  cbn [type_ident]. unfold map_path, get_det, get, is_json_map, get_det, get. simpl. rewrite Hm, Ht.
  destruct (option_map e_det (lookup_id i es)) as [d|]; [|reflexivity].
  destruct d; try reflexivity; rewrite ?IH; try reflexivity.
  - assert (E : omap (type_ident (mkSpace es nx s c1 c2 c3 c4 df) f) params = omap (type_ident (mkSpace es nx st c1 c2 c3 c4 df) f) params).
    { induction params as [|x r IHr]; simpl; [reflexivity|]. rewrite IH, IHr. reflexivity. }
    rewrite E. reflexivity.
  - assert (E : omap (type_ident (mkSpace es nx s c1 c2 c3 c4 df) f) ts = omap (type_ident (mkSpace es nx st c1 c2 c3 c4 df) f) ts).
    { induction ts as [|x r IHr]; simpl; [reflexivity|]. rewrite IH, IHr. reflexivity. }
    rewrite E. reflexivity.
Qed.

Lemma builder_flag_irrelevant : forall re_match native_ok T b,
  de re_match native_ok (set_builder T b) = de re_match native_ok T /\
  ser (set_builder T b) = ser T /\
  sp_entries (set_builder T b) = sp_entries T /\
  (forall e, derives_of (set_builder T b) e = derives_of T e) /\
  (forall f i, type_ident (set_builder T b) f i = type_ident T f i).
Proof.
  intros. split; [apply de_entries_only; reflexivity|]. split; [apply ser_entries_only; reflexivity|].
  split; [reflexivity|]. split; [intros e; destruct T; reflexivity|].
  intros f i. unfold set_builder. apply type_ident_settings; reflexivity.
Qed.

(* ------------------------------------------------------------------ replacement *)
Theorem replace_entry : forall sanitize repl convert d r,
  assoc (sanitize d) repl = Some r ->
  replace_def sanitize repl convert d = mkEntry (DNative (rp_type r) (rp_impls r) []) [] /\
  det_name (e_det (replace_def sanitize repl convert d)) = None.
Proof. intros sanitize repl convert d r H. unfold replace_def. rewrite H. split; reflexivity. Qed.

Theorem replace_none : forall sanitize repl convert d,
  assoc (sanitize d) repl = None -> replace_def sanitize repl convert d = convert d.
Proof. intros sanitize repl convert d H. unfold replace_def. rewrite H. reflexivity. Qed.

(* the key is the sanitised DEFINITION name, whatever the schema's title *)
Theorem replace_lookup_ignores_title : forall sanitize repl convert n t,
  replace_key sanitize (mkDef n t) = sanitize n /\
  get_type_name sanitize (NRequired n) t = Some (replace_key sanitize (mkDef n t)) /\
  (forall r, assoc (sanitize n) repl = Some r ->
     replace_definition sanitize repl convert (mkDef n t) = native_entry r) /\
  (assoc (sanitize n) repl = None ->
     replace_definition sanitize repl convert (mkDef n t) = convert (mkDef n t)) /\
  (forall t', (exists r, replace_definition sanitize repl convert (mkDef n t) = native_entry r /\
                         assoc (sanitize n) repl = Some r) <->
              (exists r, replace_definition sanitize repl (fun d => convert (mkDef (d_name d) t)) (mkDef n t') = native_entry r /\
                         assoc (sanitize n) repl = Some r)).
Proof.
  intros sanitize repl convert n t. unfold replace_definition, replace_key. simpl.
  split; [reflexivity|]. split; [reflexivity|]. split; [intros r ->; reflexivity|].
  split; [intros ->; reflexivity|].
  intros t'. destruct (assoc (sanitize n) repl) as [r|].
  - split; intros _; exists r; split; reflexivity.
  - split; intros [r [_ H]]; discriminate H.
Qed.

(* the key derived "the way type naming does" under Name::Suggested is a DIFFERENT function:
   a titled definition would miss its replacement and a definition titled like a key would
   be replaced (the seeded regression replayed in notes/C14.md) *)
Theorem suggested_key_differs : exists (sanitize : ustring -> ustring) (repl : list (ustring * replacement)) n t (r : replacement),
  assoc (sanitize n) repl = Some r /\
  get_type_name sanitize (NSuggested n) t <> Some (replace_key sanitize (mkDef n t)) /\
  (match get_type_name sanitize (NSuggested n) t with Some k => assoc k repl | None => None end) = None.
Proof.
  exists (fun x => x), [(u "HandRolled", mkRepl (u "String") [])], (u "HandRolled"),
         (Some (u "a hand rolled thing")), (mkRepl (u "String") []).
  split; [vm_compute; reflexivity|]. split; [vm_compute; discriminate|]. vm_compute. reflexivity.
Qed.

(* ------------------------------------------------------------------ conversion cache *)
Section CacheProofs.
  Variable Sch : Type.
  Variable strip : Sch -> Sch.
  Variable seqb : Sch -> Sch -> bool.
  Hypothesis seqb_spec : forall a b, seqb a b = true <-> a = b.
  Hypothesis strip_idem : forall s, strip (strip s) = strip s.

  Lemma cache_lookup_app c1 c2 s :
    cache_lookup Sch strip seqb (c1 ++ c2) s =
    match cache_lookup Sch strip seqb c1 s with Some e => Some e | None => cache_lookup Sch strip seqb c2 s end.
  Proof.
    induction c1 as [|[k e] c1 IH]; simpl; [reflexivity|]. destruct (seqb (strip s) k); [reflexivity|exact IH].
  Qed.

  (* the lookup only depends on the search schema through strip: annotations are ignored *)
  Theorem cache_lookup_ignores_annotations : forall c s s',
    strip s = strip s' -> cache_lookup Sch strip seqb c s = cache_lookup Sch strip seqb c s'.
  Proof. intros c s s' E. induction c as [|[k e] c IH]; simpl; [reflexivity|]. rewrite E, IH. reflexivity. Qed.

  Lemma cache_of_app conv c0 :
    fold_left (fun c sr => cache_insert Sch strip c (fst sr) (snd sr)) conv c0 =
    c0 ++ map (fun sr => (strip (fst sr), native_entry (snd sr))) conv.
  Proof.
    revert c0. induction conv as [|[s r] conv IH]; intros c0; simpl; [rewrite app_nil_r; reflexivity|].
    rewrite IH. unfold cache_insert. simpl. rewrite <- app_assoc. reflexivity.
  Qed.

  (* a configured conversion applies to every schema equal to it up to annotations, unless an
     EARLIER conversion has the same stripped schema ("the first one is honored") *)
  Theorem convert_first_wins : forall before s r after s',
    strip s' = strip s ->
    (forall sr, In sr before -> strip (fst sr) <> strip s) ->
    forall conv_obj,
      convert_schema Sch strip seqb (cache_of Sch strip (before ++ (s, r) :: after)) conv_obj s' = native_entry r.
  Proof.
    intros before s r after s' E Hb conv_obj. unfold convert_schema, cache_of. rewrite cache_of_app. simpl.
    rewrite map_app. simpl. rewrite cache_lookup_app.
    assert (Hn : cache_lookup Sch strip seqb (map (fun sr => (strip (fst sr), native_entry (snd sr))) before) s' = None).
    { induction before as [|[s0 r0] before IH]; simpl; [reflexivity|].
      destruct (seqb (strip s') (strip s0)) eqn:Q.
      - apply seqb_spec in Q. exfalso. apply (Hb (s0, r0)); [left; reflexivity|]. simpl. congruence.
      - apply IH. intros sr Hin. apply Hb. right. exact Hin. }
    rewrite Hn. simpl. rewrite E.
    assert (Q : seqb (strip s) (strip s) = true) by (apply seqb_spec; reflexivity).
    rewrite Q. reflexivity.
  Qed.

  Theorem convert_miss : forall conv s' conv_obj,
    (forall sr, In sr conv -> strip (fst sr) <> strip s') ->
    convert_schema Sch strip seqb (cache_of Sch strip conv) conv_obj s' = conv_obj s'.
  Proof.
    intros conv s' conv_obj H. unfold convert_schema, cache_of. rewrite cache_of_app. simpl.
    assert (Hn : cache_lookup Sch strip seqb (map (fun sr => (strip (fst sr), native_entry (snd sr))) conv) s' = None).
    { induction conv as [|[s0 r0] conv IH]; simpl; [reflexivity|].
      destruct (seqb (strip s') (strip s0)) eqn:Q.
      - apply seqb_spec in Q. exfalso. apply (H (s0, r0)); [left; reflexivity|]. simpl. congruence.
      - apply IH. intros sr Hin. apply H. right. exact Hin. }
    rewrite Hn. reflexivity.
  Qed.
End CacheProofs.

(* ------------------------------------------------------------------ strip on the schema AST *)
From Typify Require Import Spec.Schema.

Lemma forallb_map_strip : forall l,
  Forall (fun s => annotation_free (strip_annotations s) = true) l ->
  forallb annotation_free (map strip_annotations l) = true.
Proof. intros l H. induction H as [|x l Hx _ IH]; simpl; [reflexivity|]. rewrite Hx, IH. reflexivity. Qed.

(* after stripping, no annotation is left at any position (every constructor, every subschema list /
   option / property) *)
Theorem strip_annotation_free : forall s, annotation_free (strip_annotations s) = true.
Proof.
  apply schema_ind'; [reflexivity|].
  intros ty fmt enum cst nv sv ik items ai mni mxi uq props req ap mnp mxp allo anyo oneo no ref dflt title
         Hitems Hai Hprops Hap Hallo Hanyo Honeo Hno.
  cbn [strip_annotations annotation_free].
  rewrite (forallb_map_strip items Hitems).
  assert (Ep : forallb (fun kv => annotation_free (snd kv))
                 (map (fun kv : ustring * schema => (fst kv, strip_annotations (snd kv))) props) = true).
  { induction Hprops as [|kv l Hx _ IH]; simpl; [reflexivity|]. rewrite Hx, IH. reflexivity. }
  rewrite Ep.
  destruct ai as [x|]; simpl in Hai |- *; [rewrite Hai|];
  destruct ap as [y|]; simpl in Hap |- *; try rewrite Hap;
  destruct no as [z|]; simpl in Hno |- *; try rewrite Hno;
  destruct allo as [l1|]; simpl in Hallo |- *; try rewrite (forallb_map_strip l1 Hallo);
  destruct anyo as [l2|]; simpl in Hanyo |- *; try rewrite (forallb_map_strip l2 Hanyo);
  destruct oneo as [l3|]; simpl in Honeo |- *; try rewrite (forallb_map_strip l3 Honeo);
  reflexivity.
Qed.

Lemma map_strip_idem : forall l,
  Forall (fun s => strip_annotations (strip_annotations s) = strip_annotations s) l ->
  map strip_annotations (map strip_annotations l) = map strip_annotations l.
Proof. intros l H. induction H as [|x l Hx _ IH]; simpl; [reflexivity|]. rewrite Hx, IH. reflexivity. Qed.

Theorem strip_annotations_idem : forall s, strip_annotations (strip_annotations s) = strip_annotations s.
Proof.
  apply schema_ind'; [reflexivity|].
  intros ty fmt enum cst nv sv ik items ai mni mxi uq props req ap mnp mxp allo anyo oneo no ref dflt title
         Hitems Hai Hprops Hap Hallo Hanyo Honeo Hno.
  cbn [strip_annotations]. rewrite (map_strip_idem items Hitems).
  assert (Ep : map (fun kv : ustring * schema => (fst kv, strip_annotations (snd kv)))
                 (map (fun kv : ustring * schema => (fst kv, strip_annotations (snd kv))) props) =
               map (fun kv : ustring * schema => (fst kv, strip_annotations (snd kv))) props).
  { induction Hprops as [|kv l Hx _ IH]; simpl; [reflexivity|]. rewrite Hx, IH. reflexivity. }
  rewrite Ep.
  destruct ai as [x|]; simpl in Hai |- *; [rewrite Hai|];
  destruct ap as [y|]; simpl in Hap |- *; try rewrite Hap;
  destruct no as [z|]; simpl in Hno |- *; try rewrite Hno;
  destruct allo as [l1|]; simpl in Hallo |- *; try rewrite (map_strip_idem l1 Hallo);
  destruct anyo as [l2|]; simpl in Hanyo |- *; try rewrite (map_strip_idem l2 Hanyo);
  destruct oneo as [l3|]; simpl in Honeo |- *; try rewrite (map_strip_idem l3 Honeo);
  reflexivity.
Qed.

(* the lookup with this strip: schemas that agree once every annotation at every position is
   removed are not distinguished, whatever decides equality of stripped schemas *)
Theorem conversion_lookup_ignores_annotations_everywhere :
  forall (seqb : schema -> schema -> bool) c s s',
    strip_annotations s = strip_annotations s' ->
    cache_lookup schema strip_annotations seqb c s = cache_lookup schema strip_annotations seqb c s'.
Proof. intros seqb c s s' E. apply cache_lookup_ignores_annotations. exact E. Qed.

(* ------------------------------------------------------------------ former finding C14-F1 *)
(* Before fix a0b7480 only the metadata of the searched schema itself was stripped.  Now
   [strip] removes it at every depth.  Concrete instance on a toy schema type (a node carries
   an annotation flag and at most one subschema): [toy_deep] is the visitor-based strip,
   [toy_top] the former one. *)
Inductive toy := TLeaf (ann : bool) | TNode (ann : bool) (c : toy).
Definition toy_top (t : toy) : toy := match t with TLeaf _ => TLeaf false | TNode _ c => TNode false c end.
Fixpoint toy_deep (t : toy) : toy := match t with TLeaf _ => TLeaf false | TNode _ c => TNode false (toy_deep c) end.
Fixpoint toy_eqb (a b : toy) : bool :=
  match a, b with
  | TLeaf x, TLeaf y => Bool.eqb x y
  | TNode x c, TNode y d => Bool.eqb x y && toy_eqb c d
  | _, _ => false
  end.

Lemma toy_eqb_spec : forall a b, toy_eqb a b = true <-> a = b.
Proof.
  induction a as [x|x c IH]; intros [y|y d]; simpl; split; intros H; try discriminate H.
  - apply eqb_prop in H. subst. reflexivity.
  - injection H as ->. apply eqb_reflx.
  - apply andb_prop in H as [H1 H2]. apply eqb_prop in H1. apply IH in H2. subst. reflexivity.
  - injection H as -> ->. rewrite eqb_reflx. apply IH. reflexivity.
Qed.

Lemma toy_deep_idem : forall t, toy_deep (toy_deep t) = toy_deep t.
Proof. induction t as [x|x c IH]; simpl; [reflexivity|]. rewrite IH. reflexivity. Qed.

(* schemas that differ only in annotations, at whatever depth, reach the same conversion *)
Theorem convert_ignores_nested_annotations : forall before s r after s' conv_obj,
  toy_deep s' = toy_deep s ->
  (forall sr, In sr before -> toy_deep (fst sr) <> toy_deep s) ->
  convert_schema toy toy_deep toy_eqb (cache_of toy toy_deep (before ++ (s, r) :: after)) conv_obj s' = native_entry r.
Proof.
  intros before s r after s' conv_obj E Hb.
  apply (convert_first_wins toy toy_deep toy_eqb toy_eqb_spec before s r after s' E Hb).
Qed.

(* ... which the former top-level strip did not achieve (regression witness of C14-F1) *)
Theorem top_level_strip_misses : exists s s' r,
  toy_deep s = toy_deep s' /\
  cache_lookup toy toy_top toy_eqb (cache_of toy toy_top [(s, r)]) s' = None /\
  cache_lookup toy toy_deep toy_eqb (cache_of toy toy_deep [(s, r)]) s' = Some (native_entry r).
Proof. exists (TNode false (TLeaf false)), (TNode true (TLeaf true)), (mkRepl [] []). vm_compute. repeat split. Qed.

(* ------------------------------------------------------------------ former finding C14-F2 *)
(* the IR typify produces for `D1 {kind?: D1}` under default settings (the Option node is
   shared with another definition: Box<Option<D1>>) and with an unrelated definition
   replaced (Option<Box<D1>>).  Before fix b9da3ef the first shape serialised "kind": null;
   now both round-trip the empty object to {}.  The validator is structural and still says
   "not equivalent": a documented incompleteness (such pairs are compared on compiled code only). *)
Definition f2_base : space :=
  mkSpace [ (2%N, mkEntry (DStruct (u "D1") None [mkProp (u "kind") RNone POptional 7%N] false) [])
          ; (5%N, mkEntry (DOption 2%N) []); (7%N, mkEntry (DBox 5%N) []) ]
          8%N (mkSettings None [] false (u "::std::collections::HashMap")) false false false false [].
Definition f2_sigma : space :=
  mkSpace [ (2%N, mkEntry (DStruct (u "D1") None [mkProp (u "kind") RNone POptional 4%N] false) [])
          ; (4%N, mkEntry (DOption 5%N) []); (5%N, mkEntry (DBox 2%N) []) ]
          6%N (mkSettings None [] false (u "::std::collections::HashMap")) false false false false [].

Definition rt (T : space) (t : id) (v : json) : option json :=
  match de (fun _ _ => false) (fun _ _ => false) T 10 t v with
  | Some x => ser T 10 t x
  | None => None
  end.

Theorem box_option_incomplete :
  wire_equiv f2_base 2%N f2_sigma 2%N = false /\
  rt f2_base 2%N (JObj []) = Some (JObj []) /\
  rt f2_sigma 2%N (JObj []) = Some (JObj []).
Proof. repeat split; vm_compute; reflexivity. Qed.
