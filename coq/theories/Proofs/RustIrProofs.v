(* Proofs/RustIrProofs.v -- what [ir_of_rust] (Algo/RustDefs.v) puts into the type space, as a
   specification: every named type of the universe sits at its position + 1, with members / payloads
   whose types satisfy [MS] (the image of the Rust type expression). *)
From Coq Require Import String ZArith NArith List Bool Lia.
From Typify Require Import Base.Json IR.TypeIR Algo.RustDefs Proofs.SerdeProofs.
Import ListNotations.
Close Scope string_scope.
Open Scope list_scope.
Open Scope N_scope.

Definition look_of (es : list (id * entry)) (i : id) : option details := option_map e_det (lookup_id i es).

(* the image of a type expression at id [a] (constructors outside the C04F fragment: no information) *)
Fixpoint MS (look : id -> option details) (names : list (ustring * id)) (t : rty) (a : id) {struct t} : Prop :=
  match t with
  | RtBool => look a = Some DBoolean
  | RtInt n => look a = Some (DInteger n)
  | RtFloat n => look a = Some (DFloat n)
  | RtString => look a = Some DString
  | RtUnit => look a = Some DUnit
  | RtOption b => exists i, look a = Some (DOption i) /\ MS look names b i
  | RtVec b => exists i, look a = Some (DVec i) /\ MS look names b i
  | RtBox b => MS look names b a
  | RtMap b => exists k i, look a = Some (DMap k i) /\ look k = Some DString /\ MS look names b i
  | RtRef n => a = id_of names n
  | RtTuple _ | RtArray _ _ => True
  end.

Definition ext (look look' : id -> option details) : Prop := forall i d, look i = Some d -> look' i = Some d.

Lemma MS_mono names look look' : ext look look' -> forall t a, MS look names t a -> MS look' names t a.
Proof.
  intro He. fix IH 1. intros t a H.
  destruct t as [| n | n | | | b | b | b | b | ts | b k | r]; cbn [MS] in *; try (apply He; exact H); try exact H.
  - destruct H as (i & H1 & H2). exists i. split; [apply He; exact H1|apply IH; exact H2].
  - destruct H as (i & H1 & H2). exists i. split; [apply He; exact H1|apply IH; exact H2].
  - apply IH. exact H.
  - destruct H as (k & i & H1 & H2 & H3). exists k, i. split; [apply He; exact H1|]. split; [apply He; exact H2|apply IH; exact H3].
Qed.

(* ------------------------------------------------------------------ allocation invariant *)
Section Alloc.
  Variable first : N.       (* ids below [first] belong to the named types *)
  Variable cur : N.         (* named types with id < cur are already stored *)

  Definition Inv (st : tstate) : Prop :=
    first <= fst st /\ forall k e, In (k, e) (snd st) -> k < cur \/ (first <= k /\ k < fst st).

  Definition lk (st : tstate) : id -> option details := look_of (snd st).

  Lemma alloc_spec d st a st' : alloc d st = (a, st') -> Inv st -> cur <= first ->
    Inv st' /\ ext (lk st) (lk st') /\ lk st' a = Some d /\ fst st <= fst st'.
  Proof.
    destruct st as [n es]. unfold alloc. intro H. injection H as <- <-. intros [H1 H2] Hc. cbn [fst snd] in *.
    split; [|split; [|split]].
    - split; cbn [fst snd]; [lia|]. intros k e [Hk|Hk].
      + injection Hk as <- _. right. lia.
      + destruct (H2 k e Hk) as [H|H]; [left; exact H|right; lia].
    - intros i d0 Hi. unfold lk, look_of in *. cbn [snd lookup_id] in *.
      destruct (N.eqb i n) eqn:E; [|exact Hi].
      apply N.eqb_eq in E. subst i. exfalso.
      destruct (lookup_id n es) as [e|] eqn:El; [|discriminate Hi].
      assert (Hin : In (n, e) es).
      { clear - El. induction es as [|[j x] r IH]; [discriminate El|]. cbn [lookup_id] in El.
        destruct (N.eqb n j) eqn:E; [apply N.eqb_eq in E; subst; injection El as ->; left; reflexivity|right; exact (IH El)]. }
      destruct (H2 n e Hin) as [H|H]; lia.
    - unfold lk, look_of. cbn [snd lookup_id]. rewrite N.eqb_refl. reflexivity.
    - cbn [fst]. lia.
  Qed.

  Variable names : list (ustring * id).

  Definition TyPost (t : rty) (st : tstate) (a : id) (st' : tstate) : Prop :=
    Inv st' /\ ext (lk st) (lk st') /\ MS (lk st') names t a /\ fst st <= fst st'.

  Lemma ext_refl l : ext l l. Proof. intros i d H; exact H. Qed.
  Lemma ext_trans a b c : ext a b -> ext b c -> ext a c. Proof. intros H1 H2 i d H; apply H2, H1, H. Qed.

  Lemma tr_ty_spec (Hc : cur <= first) : forall t st a st', tr_ty names t st = (a, st') -> Inv st -> TyPost t st a st'.
  Proof.
    fix IH 1. intros t st a st' H Hi.
    destruct t as [| n | n | | | b | b | b | b | ts | b k | r]; cbn [tr_ty] in H.
    - destruct (alloc_spec _ _ _ _ H Hi Hc) as (A & B & C & E). exact (conj A (conj B (conj C E))).
    - destruct (alloc_spec _ _ _ _ H Hi Hc) as (A & B & C & E). exact (conj A (conj B (conj C E))).
    - destruct (alloc_spec _ _ _ _ H Hi Hc) as (A & B & C & E). exact (conj A (conj B (conj C E))).
    - destruct (alloc_spec _ _ _ _ H Hi Hc) as (A & B & C & E). exact (conj A (conj B (conj C E))).
    - destruct (alloc_spec _ _ _ _ H Hi Hc) as (A & B & C & E). exact (conj A (conj B (conj C E))).
    - (* Option *)
      destruct (tr_ty names b st) as [i st1] eqn:Hb. destruct (IH b st i st1 Hb Hi) as (A1 & B1 & C1 & E1).
      destruct (alloc_spec _ _ _ _ H A1 Hc) as (A & B & C & E).
      split; [exact A|]. split; [eapply ext_trans; eassumption|]. split; [|lia].
      cbn [MS]. exists i. split; [exact C|]. eapply MS_mono; eassumption.
    - (* Vec *)
      destruct (tr_ty names b st) as [i st1] eqn:Hb. destruct (IH b st i st1 Hb Hi) as (A1 & B1 & C1 & E1).
      destruct (alloc_spec _ _ _ _ H A1 Hc) as (A & B & C & E).
      split; [exact A|]. split; [eapply ext_trans; eassumption|]. split; [|lia].
      cbn [MS]. exists i. split; [exact C|]. eapply MS_mono; eassumption.
    - (* Box *)
      destruct (IH b st a st' H Hi) as (A1 & B1 & C1 & E1). exact (conj A1 (conj B1 (conj C1 E1))).
    - (* Map *)
      destruct (alloc DString st) as [kk st1] eqn:Hk. destruct (alloc_spec _ _ _ _ Hk Hi Hc) as (A0 & B0 & C0 & E0).
      destruct (tr_ty names b st1) as [i st2] eqn:Hb. destruct (IH b st1 i st2 Hb A0) as (A1 & B1 & C1 & E1).
      destruct (alloc_spec _ _ _ _ H A1 Hc) as (A & B & C & E).
      split; [exact A|]. split; [eapply ext_trans; [exact B0|eapply ext_trans; eassumption]|]. split; [|lia].
      cbn [MS]. exists kk, i. split; [exact C|]. split; [apply B, B1; exact C0|eapply MS_mono; eassumption].
    - (* Tuple *)
      match type of H with (let '(is, st1) := ?g ts st in _) = _ => set (go := g) in * end.
      assert (Hgo : forall l s js s1, go l s = (js, s1) -> Inv s -> Inv s1 /\ ext (lk s) (lk s1) /\ fst s <= fst s1).
      { induction l as [|x l IHl]; intros s js s1 Hg Hs; cbn in Hg.
        - injection Hg as _ <-. split; [exact Hs|]. split; [apply ext_refl|lia].
        - destruct (tr_ty names x s) as [i sa] eqn:Hx. destruct (IH x s i sa Hx Hs) as (A1 & B1 & _ & E1).
          destruct (go l sa) as [js' sb] eqn:Hl. injection Hg as _ <-.
          destruct (IHl sa js' sb Hl A1) as (A2 & B2 & E2).
          split; [exact A2|]. split; [eapply ext_trans; eassumption|lia]. }
      destruct (go ts st) as [js st1] eqn:Hg. destruct (Hgo ts st js st1 Hg Hi) as (A1 & B1 & E1).
      destruct (alloc_spec _ _ _ _ H A1 Hc) as (A & B & C & E).
      split; [exact A|]. split; [eapply ext_trans; eassumption|]. split; [exact I|lia].
    - (* Array *)
      destruct (tr_ty names b st) as [i st1] eqn:Hb. destruct (IH b st i st1 Hb Hi) as (A1 & B1 & C1 & E1).
      destruct (alloc_spec _ _ _ _ H A1 Hc) as (A & B & C & E).
      split; [exact A|]. split; [eapply ext_trans; eassumption|]. split; [exact I|lia].
    - (* Ref *)
      injection H as <- <-. split; [exact Hi|]. split; [apply ext_refl|]. split; [reflexivity|lia].
  Qed.
End Alloc.

(* ------------------------------------------------------------------ members, definitions *)
Definition FldRel (look : id -> option details) (names : list (ustring * id)) (U : universe)
           (rule : rename_rule) (cdef : bool) (f : rfield) (p : prop) : Prop :=
  p_name p = rf_name f /\
  p_rename p = (if ustr_eqb (field_wire rule f) (rf_name f) then RNone else RRename (field_wire rule f)) /\
  p_state p = field_state U cdef f /\
  MS look names (rf_ty f) (p_ty p).

Definition unit_variants (rule : rename_rule) (vs : list rvariant) : list variant :=
  map (fun v => mkVariant (variant_wire rule v) (rv_name v) VSimple) vs.

Definition DefSpec (look : id -> option details) (names : list (ustring * id)) (U : universe)
           (d : rust_def) (det : details) : Prop :=
  match d with
  | RdStruct n rule deny cdef fs =>
      exists ps, det = DStruct n None ps deny /\ Forall2 (FldRel look names U rule cdef) fs ps
  | RdNewtype n t => exists i, det = DEnum n None TagUntagged [mkVariant [] n (VItem i)] false [] /\ MS look names t i
  | RdEnum n tag rule deny vs =>
      forallb (fun v => match rv_shape v with RvUnit => true | _ => false end) vs = true ->
      det = DEnum n None tag (unit_variants rule vs) deny []
  | _ => True
  end.

Lemma FldRel_mono look look' names U rule cdef f p :
  ext look look' -> FldRel look names U rule cdef f p -> FldRel look' names U rule cdef f p.
Proof. intros He (A & B & C & E). repeat split; try assumption. eapply MS_mono; eassumption. Qed.

Lemma Forall2_mono {X Y} (R R' : X -> Y -> Prop) l l' :
  (forall x y, R x y -> R' x y) -> Forall2 R l l' -> Forall2 R' l l'.
Proof. intros H F. induction F as [|x y l l' Hxy F IH]; [apply Forall2_nil|apply Forall2_cons; [apply H; exact Hxy|exact IH]]. Qed.

Lemma DefSpec_mono look look' names U d det : ext look look' -> DefSpec look names U d det -> DefSpec look' names U d det.
Proof.
  intros He. destruct d; cbn [DefSpec]; try exact (fun H => H).
  - intros (ps & H1 & H2). exists ps. split; [exact H1|].
    eapply Forall2_mono; [|exact H2]. intros f p Hfp. eapply FldRel_mono; eassumption.
  - intros (i & H1 & H2). exists i. split; [exact H1|eapply MS_mono; eassumption].
Qed.

Section Defs.
  Variable first : N.
  Variable U0 : universe.
  Variable names : list (ustring * id).

  Lemma tr_fields_spec cur (Hc : cur <= first) rule cdef : forall fs st ps st',
    tr_fields U0 names rule cdef fs st = (ps, st') -> Inv first cur st ->
    Inv first cur st' /\ ext (lk st) (lk st') /\ Forall2 (FldRel (lk st') names U0 rule cdef) fs ps.
  Proof.
    induction fs as [|f fs IH]; intros st ps st' H Hi; cbn [tr_fields] in H.
    - injection H as <- <-. split; [exact Hi|]. split; [apply ext_refl|constructor].
    - unfold tr_field in H. destruct (tr_ty names (rf_ty f) st) as [i st1] eqn:Ht.
      destruct (tr_ty_spec first cur names Hc _ _ _ _ Ht Hi) as (A1 & B1 & C1 & _).
      destruct (tr_fields U0 names rule cdef fs st1) as [ps' st2] eqn:Hr. injection H as <- <-.
      destruct (IH _ _ _ Hr A1) as (A2 & B2 & C2).
      split; [exact A2|]. split; [eapply ext_trans; eassumption|].
      constructor; [|exact C2].
      split; [reflexivity|]. split; [reflexivity|]. split; [reflexivity|].
      cbn [p_ty]. eapply MS_mono; eassumption.
  Qed.

  Lemma tr_variants_unit rule : forall vs st,
    forallb (fun v => match rv_shape v with RvUnit => true | _ => false end) vs = true ->
    tr_variants U0 names rule vs st = (unit_variants rule vs, st).
  Proof.
    induction vs as [|v vs IH]; intros st H; [reflexivity|].
    cbn [forallb] in H. apply andb_true_iff in H. destruct H as [Hv Hr].
    cbn [tr_variants]. unfold tr_variant. destruct (rv_shape v); try discriminate Hv.
    rewrite (IH st Hr). reflexivity.
  Qed.

  Lemma tr_def_spec cur (Hc : cur <= first) d st det st' :
    tr_def U0 names d st = (det, st') -> Inv first cur st ->
    Inv first cur st' /\ ext (lk st) (lk st') /\ DefSpec (lk st') names U0 d det.
  Proof.
    intros H Hi. destruct d as [n rule deny cdef fs | n ts | n t | n | n tag rule deny vs]; cbn [tr_def] in H.
    - destruct (tr_fields U0 names rule cdef fs st) as [ps st1] eqn:Hf. injection H as <- <-.
      destruct (tr_fields_spec cur Hc rule cdef fs _ _ _ Hf Hi) as (A & B & C).
      split; [exact A|]. split; [exact B|]. exists ps. split; [reflexivity|exact C].
    - destruct (tr_tys names ts st) as [is st1] eqn:Ht.
      assert (Hts : forall l s js s1, tr_tys names l s = (js, s1) -> Inv first cur s ->
                    Inv first cur s1 /\ ext (lk s) (lk s1)).
      { induction l as [|x l IHl]; intros s js s1 Hg Hs; cbn [tr_tys] in Hg.
        - injection Hg as _ <-. split; [exact Hs|apply ext_refl].
        - destruct (tr_ty names x s) as [i sa] eqn:Hx.
          destruct (tr_ty_spec first cur names Hc _ _ _ _ Hx Hs) as (A1 & B1 & _ & _).
          destruct (tr_tys names l sa) as [js' sb] eqn:Hl. injection Hg as _ <-.
          destruct (IHl _ _ _ Hl A1) as (A2 & B2). split; [exact A2|eapply ext_trans; eassumption]. }
      destruct (Hts _ _ _ _ Ht Hi) as (A1 & B1).
      destruct (alloc (DTuple is) st1) as [t st2] eqn:Ha. injection H as <- <-.
      destruct (alloc_spec first cur _ _ _ _ Ha A1 Hc) as (A & B & _ & _).
      split; [exact A|]. split; [eapply ext_trans; eassumption|exact I].
    - destruct (tr_ty names t st) as [i st1] eqn:Ht. injection H as <- <-.
      destruct (tr_ty_spec first cur names Hc _ _ _ _ Ht Hi) as (A & B & C & _).
      split; [exact A|]. split; [exact B|]. exists i. split; [reflexivity|exact C].
    - destruct (alloc DUnit st) as [i st1] eqn:Ha. injection H as <- <-.
      destruct (alloc_spec first cur _ _ _ _ Ha Hi Hc) as (A & B & _ & _).
      split; [exact A|]. split; [exact B|exact I].
    - cbn [DefSpec].
      destruct (forallb (fun v => match rv_shape v with RvUnit => true | _ => false end) vs) eqn:Hu.
      + rewrite (tr_variants_unit rule vs st Hu) in H. injection H as <- <-.
        split; [exact Hi|]. split; [apply ext_refl|]. intros _. reflexivity.
      + destruct (tr_variants U0 names rule vs st) as [xs st1] eqn:Hv. injection H as <- <-.
        assert (Hvs : forall l s xs0 s1, tr_variants U0 names rule l s = (xs0, s1) -> Inv first cur s ->
                      Inv first cur s1 /\ ext (lk s) (lk s1)).
        { induction l as [|v l IHl]; intros s xs0 s1 Hg Hs; cbn [tr_variants] in Hg.
          - injection Hg as _ <-. split; [exact Hs|apply ext_refl].
          - destruct (tr_variant U0 names rule v s) as [x sa] eqn:Hx.
            assert (Hone : Inv first cur sa /\ ext (lk s) (lk sa)).
            { unfold tr_variant in Hx. destruct (rv_shape v) as [|t|ts|frule fs].
              - injection Hx as _ <-. split; [exact Hs|apply ext_refl].
              - destruct (tr_ty names t s) as [i sb] eqn:Ht. injection Hx as _ <-.
                destruct (tr_ty_spec first cur names Hc _ _ _ _ Ht Hs) as (A1 & B1 & _ & _). split; assumption.
              - destruct (tr_tys names ts s) as [is sb] eqn:Ht. injection Hx as _ <-.
                clear - Ht Hs Hc. revert s is sb Ht Hs.
                induction ts as [|y ts IHt]; intros s is sb Ht Hs; cbn [tr_tys] in Ht.
                + injection Ht as _ <-. split; [exact Hs|apply ext_refl].
                + destruct (tr_ty names y s) as [i sc] eqn:Hy.
                  destruct (tr_ty_spec first cur names Hc _ _ _ _ Hy Hs) as (A1 & B1 & _ & _).
                  destruct (tr_tys names ts sc) as [js' sd] eqn:Hl. injection Ht as _ <-.
                  destruct (IHt _ _ _ Hl A1) as (A2 & B2). split; [exact A2|eapply ext_trans; eassumption].
              - destruct (tr_fields U0 names frule false fs s) as [ps sb] eqn:Hf. injection Hx as _ <-.
                destruct (tr_fields_spec cur Hc frule false fs _ _ _ Hf Hs) as (A & B & _). split; assumption. }
            destruct Hone as (A1 & B1).
            destruct (tr_variants U0 names rule l sa) as [xs' sb] eqn:Hl. injection Hg as _ <-.
            destruct (IHl _ _ _ Hl A1) as (A2 & B2). split; [exact A2|eapply ext_trans; eassumption]. }
        destruct (Hvs _ _ _ _ Hv Hi) as (A & B). split; [exact A|]. split; [exact B|]. intro C. discriminate C.
  Qed.

  Lemma lk_cons_other i e (st : tstate) k : k <> i -> lk (fst st, (i, e) :: snd st) k = lk st k.
  Proof. intro H. unfold lk, look_of. cbn [snd lookup_id]. destruct (N.eqb k i) eqn:E; [apply N.eqb_eq in E; contradiction|reflexivity]. Qed.

  Lemma tr_defs_spec : forall ds i st stf,
    tr_defs U0 names ds i st = stf -> Inv first i st -> i + N.of_nat (length ds) <= first ->
    ext (lk st) (lk stf) /\
    forall k d, nth_error ds k = Some d -> exists det, lk stf (i + N.of_nat k) = Some det /\ DefSpec (lk stf) names U0 d det.
  Proof.
    induction ds as [|d ds IH]; intros i st stf H Hi Hlen; cbn [tr_defs] in H.
    - subst stf. split; [apply ext_refl|]. intros k d Hk. destruct k; discriminate Hk.
    - cbn [length] in Hlen.
      destruct (tr_def U0 names d st) as [det [n es]] eqn:Hd.
      assert (Hc : i <= first) by lia.
      destruct (tr_def_spec i Hc d st det (n, es) Hd Hi) as (A & B & C).
      set (st1 := (n, (i, mkEntry det []) :: es)) in *.
      assert (Hi1 : Inv first (i + 1) st1).
      { destruct A as [A1 A2]. split; [exact A1|]. intros k e [Hk|Hk].
        - injection Hk as <- _. left. lia.
        - destruct (A2 k e Hk) as [Hlt|Hr]; [left; lia|right; exact Hr]. }
      assert (Hnew : forall k e, In (k, e) es -> k <> i).
      { destruct A as [A1 A2]. intros k e Hk. destruct (A2 k e Hk) as [Hlt|[Hr _]]; cbn [fst] in *; lia. }
      assert (B1 : ext (lk (n, es)) (lk st1)).
      { intros k d0 Hk. unfold st1. unfold lk, look_of in *. cbn [snd lookup_id] in *.
        destruct (N.eqb k i) eqn:E; [|exact Hk]. apply N.eqb_eq in E. subst k. exfalso.
        destruct (lookup_id i es) as [e|] eqn:El; [|discriminate Hk].
        assert (Hin : In (i, e) es).
        { clear - El. induction es as [|[j x] r IHr]; [discriminate El|]. cbn [lookup_id] in El.
          destruct (N.eqb i j) eqn:E; [apply N.eqb_eq in E; subst; injection El as ->; left; reflexivity|right; exact (IHr El)]. }
        exact (Hnew i e Hin eq_refl). }
      destruct (IH (i + 1) st1 stf H Hi1 ltac:(lia)) as (B2 & Hrest).
      split; [eapply ext_trans; [exact B|eapply ext_trans; eassumption]|].
      intros k d0 Hk. destruct k as [|k]; cbn [nth_error] in Hk.
      + injection Hk as <-. exists det. replace (i + N.of_nat 0) with i by lia. split.
        * apply B2. unfold st1, lk, look_of. cbn [snd lookup_id]. rewrite N.eqb_refl. reflexivity.
        * eapply DefSpec_mono; [|exact C]. eapply ext_trans; eassumption.
      + destruct (Hrest k d0 Hk) as (det' & H1 & H2). exists det'.
        replace (i + N.of_nat (S k)) with (i + 1 + N.of_nat k) by lia. split; assumption.
  Qed.
End Defs.

Theorem ir_of_rust_spec U :
  forall j d, nth_error U j = Some d ->
  exists det, get_det (ir_of_rust U) (N.of_nat j + 1) = Some det /\
              DefSpec (get_det (ir_of_rust U)) (name_ids U 1) U d det.
Proof.
  intros j d Hj. unfold ir_of_rust.
  set (names := name_ids U 1). set (first := N.of_nat (length U) + 1).
  destruct (tr_defs U names U 1 (first, [])) as [n es] eqn:Ht.
  assert (Hi : Inv first 1 (first, [])).
  { split; cbn [fst snd]; [lia|]. intros k e []. }
  destruct (tr_defs_spec first U names U 1 (first, []) (n, es) Ht Hi ltac:(unfold first; lia)) as (_ & H).
  destruct (H j d Hj) as (det & H1 & H2). exists det.
  assert (Hlk : forall i, get_det (mkSpace es n std_settings false false false false []) i = lk (n, es) i).
  { intro i. reflexivity. }
  split.
  - rewrite Hlk. replace (N.of_nat j + 1) with (1 + N.of_nat j) by lia. exact H1.
  - eapply DefSpec_mono; [|exact H2]. intros i d0 Hd0. rewrite Hlk. exact Hd0.
Qed.
