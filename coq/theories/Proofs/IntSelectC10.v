(* C10: the property theorems on the Flocq model IntSelect.choose_integer,
   composed from the refinement (IntSelectRefine.v) and the theorems on the
   integer-level model (IntSelectProofs.v). *)
From Coq Require Import String ZArith List Bool Lia Reals Lra.
From Flocq Require Import Core BinarySingleNaN Binary Bits.
From Typify Require Import Gen.IntTable Algo.IntSelect Algo.IntSelectZ Spec.IntSpec
  Proofs.IntSelectProofs Proofs.IntSelectRefine.
Import ListNotations.
Open Scope string_scope.
Open Scope Z_scope.

Lemma safe_default_none : safe_default None.
Proof. intros v Hv. discriminate Hv. Qed.

Lemma osafe_Zof0 o x : osafe o -> o = Some x -> exact x (Zof0 x).
Proof.
  intros H E. destruct (H x E) as (z & Hz & _). unfold Zof0. rewrite (Zof_complete _ _ Hz). exact Hz.
Qed.

(* real-number admission (with multipleOf) implies integer-level admission *)
Lemma admitted_admittedZ b n : safe_bounds b -> admitted b n -> admittedZ (zb_of b) n.
Proof.
  intros (S1 & S2 & S3 & S4) (A1 & A2 & A3 & A4 & _).
  unfold admittedZ, ole, oge, olt, ogt, zb_of. cbn [zb_min zb_max zb_emin zb_emax].
  repeat split; intros m Hm.
  - destruct (b_min b) as [x|] eqn:E; [|discriminate Hm]. inversion Hm; subst m.
    destruct (osafe_Zof0 _ _ S1 eq_refl) as [_ Hr]. specialize (A1 x eq_refl). unfold fval in A1.
    rewrite Hr in A1. apply le_IZR. exact A1.
  - destruct (b_max b) as [x|] eqn:E; [|discriminate Hm]. inversion Hm; subst m.
    destruct (osafe_Zof0 _ _ S2 eq_refl) as [_ Hr]. specialize (A2 x eq_refl). unfold fval in A2.
    rewrite Hr in A2. apply le_IZR. exact A2.
  - destruct (b_emin b) as [x|] eqn:E; [|discriminate Hm]. inversion Hm; subst m.
    destruct (osafe_Zof0 _ _ S3 eq_refl) as [_ Hr]. specialize (A3 x eq_refl). unfold fval in A3.
    rewrite Hr in A3. apply lt_IZR. exact A3.
  - destruct (b_emax b) as [x|] eqn:E; [|discriminate Hm]. inversion Hm; subst m.
    destruct (osafe_Zof0 _ _ S4 eq_refl) as [_ Hr]. specialize (A4 x eq_refl). unfold fval in A4.
    rewrite Hr in A4. apply lt_IZR. exact A4.
Qed.

(* ---- first sentence of C10 on the Flocq model, any default ---- *)
Theorem int_fits fmt b d ty :
  safe_bounds b -> choose_integer fmt b d = Chosen ty -> ~ Known_F6 fmt (zb_of b) ->
  forall n, admitted b n -> in_base fmt n -> in_ty ty n.
Proof.
  intros Hs Hc HF n Ha Hb. apply chosen_without_default in Hc.
  rewrite (choose_integer_refines fmt b None Hs safe_default_none) in Hc.
  exact (int_fits_Z _ _ _ _ Hc HF n (admitted_admittedZ _ _ Hs Ha) Hb).
Qed.

Theorem nonzero_only_if_zero_excluded fmt b d ty :
  safe_bounds b -> choose_integer fmt b d = Chosen ty -> nonzero_ty ty -> ~ admitted b 0.
Proof.
  intros Hs Hc Hnz Ha. apply chosen_without_default in Hc.
  rewrite (choose_integer_refines fmt b None Hs safe_default_none) in Hc.
  exact (nonzero_only_if_zero_excluded_Z _ _ _ _ Hc Hnz (admitted_admittedZ _ _ Hs Ha)).
Qed.

(* ---- C10-F6 on the Flocq model ---- *)
Definition f6_fbounds : bounds :=
  mkb (Some 14114281232179134464) (Some 4890909195324358656) None None None.

Lemma int_fits_refuted_F6 :
  exists fmt b ty n,
    safe_bounds b /\ known_F6b fmt (zb_of b) = true /\ choose_integer fmt b None = Chosen ty /\
    admitted b n /\ in_base fmt n /\ ~ in_ty ty n.
Proof.
  exists (Some "uint64"), f6_fbounds, "i64", (2^63).
  split; [apply safe_bounds_b; vm_compute; reflexivity|].
  split; [vm_compute; reflexivity|].
  split; [vm_compute; reflexivity|].
  split; [|split; [apply base_u64; lia | rewrite in_i64; lia]].
  unfold admitted, f6_fbounds, mkb, ob. cbn [b_min b_max b_emin b_emax b_mult option_map].
  repeat split; intros m Hm; try discriminate Hm; inversion Hm; subst m; unfold fval.
  - fold f_i64_min. rewrite (proj2 i64min_exact). apply IZR_le. lia.
  - fold f_i64_max. rewrite (proj2 i64max_exact). apply IZR_le. lia.
Qed.

(* ---- C10-F4: outside safe_bounds the NonZero statement fails
        (exclusiveMinimum -1e-17: `emin + 1.0` rounds to 1.0) ---- *)
Definition f4_fbounds : bounds := mkb None None (Some 13575836048340472983) None None.

Lemma nonzero_refuted_F4 :
  exists b ty, choose_integer None b None = Chosen ty /\ nonzero_ty ty /\ admitted b 0 /\ ~ safe_bounds b.
Proof.
  exists f4_fbounds, "::std::num::NonZeroU64".
  split; [vm_compute; reflexivity|]. split; [apply nonzero_ty_name; reflexivity|]. split.
  - unfold admitted, f4_fbounds, mkb, ob. cbn [b_min b_max b_emin b_emax b_mult option_map].
    repeat split; intros m Hm; try discriminate Hm; inversion Hm; subst m; unfold fval.
    cbv -[IZR Rmult Rinv Rlt]. lra.
  - intros H. apply safe_bounds_b in H. vm_compute in H. discriminate H.
Qed.

(* ---- defaults ---- *)

(* where the exclusive bounds are below 2^53 in magnitude the normalised bounds
   are exactly the admitted interval, so: not admitted => rejected *)
Definition small_exclusive (b : zbounds) : Prop :=
  (forall e, zb_emin b = Some e -> - 2^53 <= e < 2^53) /\
  (forall e, zb_emax b = Some e -> - 2^53 < e <= 2^53).

Lemma default_not_admitted_rejected_Z fmt b v :
  small_exclusive b -> ~ admittedZ b v -> choose_integer_Z fmt b (Some (Some v)) = ErrInvalidValue.
Proof.
  intros [Se1 Se2] Hna.
  apply (proj1 (default_out_of_range_rejected_Z fmt b v)).
  unfold znorm_min, znorm_max, admittedZ, ole, oge, olt, ogt in *.
  destruct (zb_min b) as [m1|], (zb_max b) as [m2|], (zb_emin b) as [e1|], (zb_emax b) as [e2|];
    try (specialize (Se1 _ eq_refl)); try (specialize (Se2 _ eq_refl));
    try (assert (A1 : add1 e1 = e1 + 1) by (unfold add1; destruct (Z.leb_spec (- 2^53) e1), (Z.ltb_spec e1 (2^53)); cbn [andb]; lia));
    try (assert (A2 : sub1 e2 = e2 - 1) by (unfold sub1; destruct (Z.ltb_spec (- 2^53) e2), (Z.leb_spec e2 (2^53)); cbn [andb]; lia));
    match goal with
    | |- (exists p, Some ?a = Some p /\ _) \/ (exists q, Some ?c = Some q /\ _) =>
        destruct (Z_lt_ge_dec v a) as [L|L]; [left; exists a; split; [reflexivity|exact L]|];
        destruct (Z_lt_ge_dec c v) as [G|G]; [right; exists c; split; [reflexivity|exact G]|]
    | |- (exists p, Some ?a = Some p /\ _) \/ _ =>
        destruct (Z_lt_ge_dec v a) as [L|L]; [left; exists a; split; [reflexivity|exact L]|]
    | |- _ \/ (exists q, Some ?c = Some q /\ _) =>
        destruct (Z_lt_ge_dec c v) as [G|G]; [right; exists c; split; [reflexivity|exact G]|]
    | |- _ => idtac
    end;
    exfalso; apply Hna; repeat split; intros m Hm; inversion Hm; subst; lia.
Qed.

Theorem default_not_admitted_rejected fmt b v z :
  safe_bounds b -> exact v z -> small_exclusive (zb_of b) -> ~ admittedZ (zb_of b) z ->
  choose_integer fmt b (Some (Some v)) = ErrInvalidValue.
Proof.
  intros Hs Hv Hse Hna.
  assert (Hd : safe_default (Some (Some v))) by (intros y Hy; inversion Hy; subst; exists z; exact Hv).
  rewrite (choose_integer_refines fmt b _ Hs Hd). cbn [zd_of option_map].
  unfold Zof0. rewrite (Zof_complete _ _ Hv).
  apply default_not_admitted_rejected_Z; assumption.
Qed.

(* the five-part statement transported to the Flocq model *)
Theorem default_out_of_range_rejected fmt b v z :
  safe_bounds b -> exact v z ->
  choose_integer fmt b (Some (Some v)) = choose_integer_Z fmt (zb_of b) (Some (Some z)).
Proof.
  intros Hs Hv.
  assert (Hd : safe_default (Some (Some v))) by (intros y Hy; inversion Hy; subst; exists z; exact Hv).
  rewrite (choose_integer_refines fmt b _ Hs Hd). cbn [zd_of option_map].
  unfold Zof0. rewrite (Zof_complete _ _ Hv). reflexivity.
Qed.

(* ---- never narrower than the format, on the Flocq model ---- *)
Definition no_fbounds : bounds :=
  {| b_min := None; b_max := None; b_emin := None; b_emax := None; b_mult := None |}.

Theorem never_narrower_than_format_f fmt : choose_integer fmt no_fbounds None = Chosen (base_ty fmt).
Proof.
  assert (Hs : safe_bounds no_fbounds) by (repeat split; intros x Hx; discriminate Hx).
  rewrite (choose_integer_refines fmt _ None Hs safe_default_none).
  exact (never_narrower_than_format fmt).
Qed.
