(* IR/Serde.v — executable semantics of the code typify generates: what
   `serde_json::from_str::<T>` and `serde_json::to_value` do for a type of the
   type space, for exactly the attribute combinations typify emits
   (DESIGN Appendix A).  Definitions only.  Tied to the compiled generated code
   on every run by channel K5 (py/k5.py). *)
From Coq Require Import String ZArith NArith QArith List Bool.
From Typify Require Import Base.Json Spec.Schema Spec.Valid IR.TypeIR.
Import ListNotations.
Close Scope Q_scope.
Close Scope string_scope.
Open Scope list_scope.
Open Scope N_scope.

(* Rust values of generated types *)
Inductive rval : Type :=
| RUnit
| RBool (b : bool)
| RInt (z : Z)
| RFlt (q : Q)
| RStr (s : ustring)
| ROptNone
| ROptSome (v : rval)
| RSeq (l : list rval)                       (* Vec, Set, tuple, array *)
| RMap (kvs : list (ustring * rval))         (* maps with string-like keys *)
| RStruct (fs : list (ustring * rval))       (* by Rust field identifier *)
| REnum (idx : nat) (payload : rval)         (* variant index, payload *)
| RJson (j : json)
| RNative (s : ustring).

(* numeric equivalence of JSON values: Spec.Valid.json_equiv (1 = 1.0) *)

Fixpoint mapM {A B} (f : A -> option B) (l : list A) : option (list B) :=
  match l with
  | [] => Some []
  | x :: r => match f x with
              | Some y => match mapM f r with Some ys => Some (y :: ys) | None => None end
              | None => None
              end
  end.

Fixpoint zipM {A B C} (f : A -> B -> option C) (l : list A) (m : list B) : option (list C) :=
  match l, m with
  | [], [] => Some []
  | x :: l', y :: m' => match f x y with
                        | Some z => match zipM f l' m' with Some zs => Some (z :: zs) | None => None end
                        | None => None
                        end
  | _, _ => None
  end.

Fixpoint find_variant (raw : ustring) (vs : list variant) (i : nat) : option (nat * variant) :=
  match vs with
  | [] => None
  | v :: r => if ustr_eqb raw (v_raw v) then Some (i, v) else find_variant raw r (S i)
  end.

Definition in_int_range (name : ustring) (z : Z) : bool :=
  match int_range_u name with
  | Some (lo, hi, _) => (lo <=? z)%Z && (z <=? hi)%Z
  | None => false
  end.

Section Serde.
  (* the regular-expression engine (regress `find`) and the FromStr/Deserialize
     of native types, shared with the validity specification *)
  Variable re_match : ustring -> ustring -> bool.   (* pattern, string *)
  Variable native_ok : ustring -> ustring -> bool.  (* Rust type path, string *)
  Variable T : space.

  Definition str_constraints_ok (max min : option N) (pat : option ustring) (s : ustring) : bool :=
    (match max with Some m => chars_count s <=? m | None => true end) &&
    (match min with Some m => m <=? chars_count s | None => true end) &&
    (match pat with Some p => re_match p s | None => true end).

  (* Default::default() of a property type, where typify relies on it
     (`#[serde(default)]` for Optional properties) *)
  Fixpoint default_val (fuel : nat) (i : id) : option rval :=
    match fuel with
    | O => None
    | S f =>
        match get_det T i with
        | Some (DOption _) => Some ROptNone
        | Some (DVec _) | Some (DSet _) => Some (RSeq [])
        | Some (DMap _ _) => Some (RMap [])
        | Some DUnit => Some RUnit
        | Some DBoolean => Some (RBool false)
        | Some (DInteger n) => if in_int_range n 0 then Some (RInt 0) else None
        | Some (DFloat _) => Some (RFlt (inject_Z 0))
        | Some DString => Some (RStr [])
        | Some DJsonValue => Some (RJson JNull)
        | Some (DBox t) => default_val f t
        | Some (DTuple ts) => option_map RSeq (mapM (default_val f) ts)
        | _ => None
        end
    end.

  (* ---------------------------------------------------------------- de *)
  Section DeProps.
    Variable de : id -> json -> option rval.
    Variable dflt : id -> option rval.

    (* value of a missing member *)
    Definition missing (p : prop) : option rval :=
      match p_state p with
      | POptional => dflt (p_ty p)
      | PDefault v => de (p_ty p) v
      | PRequired =>
          (* serde's `missing_field`: `T::deserialize(MissingFieldDeserializer)`, whose
             `deserialize_option` answers None and everything else is an error.  Box<T>,
             the `#[serde(transparent)]` newtypes and the value-constrained newtypes
             (`<Inner>::deserialize` then `try_from`) forward `deserialize` to the inner
             type, so a required member whose type reaches an Option through such layers
             is accepted when absent (observed on compiled code, K5); (), Value, String,
             string-constrained newtypes, enums, structs, sequences are errors.  These
             are exactly the types that read `null` as the bare None (the layers are
             transparent in [rval]; every other kind answers with another constructor):
             SerdeProofs.missing_val_de_null / de_null_missing_val relate this test to
             the explicit chase through the layers. *)
          match get_det T (p_ty p) with
          | None => None
          | Some _ => match de (p_ty p) JNull with
                      | Some ROptNone => Some ROptNone
                      | _ => None
                      end
          end
      end.

    (* named (non-flattened) members from an object *)
    Fixpoint de_named (ps : list prop) (kvs : list (ustring * json)) : option (list (ustring * rval)) :=
      match ps with
      | [] => Some []
      | p :: r =>
          match wire_name p with
          | None => de_named r kvs                       (* flattened: handled apart *)
          | Some w =>
              match (match assoc w kvs with Some j => de (p_ty p) j | None => missing p end) with
              | Some x => match de_named r kvs with
                          | Some xs => Some ((p_name p, x) :: xs)
                          | None => None
                          end
              | None => None
              end
          end
      end.

    Definition wire_names (ps : list prop) : list ustring :=
      fold_right (fun p a => match wire_name p with Some w => w :: a | None => a end) [] ps.

    Definition flat_props (ps : list prop) : list prop :=
      filter (fun p => match p_rename p with RFlatten => true | _ => false end) ps.

    Definition unknown_entries (ps : list prop) (kvs : list (ustring * json)) : list (ustring * json) :=
      filter (fun kv => negb (mem_ustr (fst kv) (wire_names ps))) kvs.

    (* ---- several flattened members (typify's flattened-union structs:
       `#[serde(flatten)] subtype_i: Option<S_i>` for an anyOf of non-exclusive
       object branches).  serde buffers the entries the named members did not
       take as a list of slots; each flattened member, IN DECLARATION ORDER, is
       deserialised from the same slot list (FlatMapDeserializer):
       * `Option<S>`, S a struct: S's derived visitor walks the remaining slots
         IN TEXT ORDER and TAKES every slot whose key is one of S's fields (the
         slot is consumed BEFORE its value is deserialised); at the first value
         its field rejects S fails and the walk stops; S also fails on a missing
         member without default.  A failed S makes the member None, BUT THE SLOTS
         IT TOOK STAY TAKEN;
       * a map takes nothing: it is read from all remaining slots, and a value it
         rejects is an error of the whole struct.
       Slots left over are ignored (serde forbids deny_unknown_fields next to
       flatten).  Observed on compiled code (K5; notes/Covers.md). *)
    Fixpoint find_wire_prop (w : ustring) (qs : list prop) : option prop :=
      match qs with
      | [] => None
      | q :: r => match wire_name q with
                  | Some w' => if ustr_eqb w w' then Some q else find_wire_prop w r
                  | None => find_wire_prop w r
                  end
      end.

    (* (taken slots, remaining slots, no value rejected) *)
    Fixpoint flat_take (qs : list prop) (slots : list (ustring * json))
      : list (ustring * json) * list (ustring * json) * bool :=
      match slots with
      | [] => ([], [], true)
      | kv :: r =>
          match find_wire_prop (fst kv) qs with
          | None => match flat_take qs r with (tk, rs, ok) => (tk, kv :: rs, ok) end
          | Some q =>
              match de (p_ty q) (snd kv) with
              | None => ([kv], r, false)
              | Some _ => match flat_take qs r with (tk, rs, ok) => (kv :: tk, rs, ok) end
              end
          end
      end.

    Fixpoint de_flats (fps : list prop) (slots : list (ustring * json)) : option (list (ustring * rval)) :=
      match fps with
      | [] => Some []
      | fp :: r =>
          match get_det T (p_ty fp) with
          | Some (DMap _ _) =>
              match de (p_ty fp) (JObj slots) with
              | Some m => option_map (cons (p_name fp, m)) (de_flats r slots)
              | None => None
              end
          | Some (DOption t') =>
              match get_det T t' with
              | Some (DStruct _ _ qs _) =>
                  match flat_props qs with
                  | [] =>
                      match flat_take qs slots with
                      | (tk, rest, ok) =>
                          let v := if ok then match de_named qs tk with
                                              | Some fs => ROptSome (RStruct fs)
                                              | None => ROptNone
                                              end
                                   else ROptNone in
                          option_map (cons (p_name fp, v)) (de_flats r rest)
                      end
                  | _ => None          (* nested flattening: not modelled *)
                  end
              | _ => None
              end
          | _ => None
          end
      end.

    (* struct body from an object: named members, then the flattened members.
       The cases "nothing flattened" and "one flattened map" are spelled out (they
       are what most proofs are about); [de_flats] agrees with them
       (SerdeProofs.de_flats_one_map). *)
    Definition de_struct_obj (ps : list prop) (deny : bool) (kvs : list (ustring * json))
      : option (list (ustring * rval)) :=
      match de_named ps kvs with
      | None => None
      | Some named =>
          let unk := unknown_entries ps kvs in
          match flat_props ps with
          | [] => if deny && negb (Nat.eqb (length unk) 0) then None else Some named
          | [fp] =>
              match get_det T (p_ty fp) with
              | Some (DMap _ _) =>
                  match de (p_ty fp) (JObj unk) with
                  | Some m => Some (named ++ [(p_name fp, m)])
                  | None => None
                  end
              | _ => if deny then None else option_map (app named) (de_flats [fp] unk)
              end
          | fps => if deny then None else option_map (app named) (de_flats fps unk)
          end
      end.

    (* struct body from an array (serde_derive's visit_seq): positional, a
       missing tail uses the missing-member rule, extra elements are an error;
       not available when a member is flattened *)
    Fixpoint de_struct_seq (ps : list prop) (l : list json) : option (list (ustring * rval)) :=
      match ps with
      | [] => match l with [] => Some [] | _ => None end
      | p :: r =>
          match l with
          | j :: l' =>
              match de (p_ty p) j with
              | Some x => match de_struct_seq r l' with
                          | Some xs => Some ((p_name p, x) :: xs)
                          | None => None
                          end
              | None => None
              end
          | [] =>
              match missing p with
              | Some x => match de_struct_seq r [] with
                          | Some xs => Some ((p_name p, x) :: xs)
                          | None => None
                          end
              | None => None
              end
          end
      end.

    Definition de_struct_body (ps : list prop) (deny : bool) (j : json) : option rval :=
      match j with
      | JObj kvs => option_map RStruct (de_struct_obj ps deny kvs)
      | JArr l => match flat_props ps with
                  | [] => option_map RStruct (de_struct_seq ps l)
                  | _ => None
                  end
      | _ => None
      end.

    Definition de_payload (deny : bool) (vd : vdetails) (j : json) : option rval :=
      match vd with
      | VSimple => match j with JNull => Some RUnit | _ => None end
      | VItem t => de t j
      | VTuple ts => match j with
                     | JArr l => option_map RSeq (zipM de ts l)
                     | _ => None
                     end
      | VStruct ps => de_struct_body ps deny j
      end.

    Fixpoint de_untagged (deny : bool) (vs : list variant) (i : nat) (j : json) : option rval :=
      match vs with
      | [] => None
      | v :: r =>
          (* a struct VARIANT of an untagged enum is only read from an object
             (serde_derive's untagged path has no positional form; observed) *)
          match (match v_det v, j with
                 | VStruct _, JArr _ => None
                 | vd, _ => de_payload deny vd j
                 end) with
          | Some x => Some (REnum i x)
          | None => de_untagged deny r (S i) j
          end
      end.

    Definition de_enum (tag : tagty) (vs : list variant) (deny : bool) (j : json) : option rval :=
      match tag with
      | TagExternal =>
          match j with
          | JStr s =>
              match find_variant s vs 0 with
              | Some (i, v) => match v_det v with VSimple => Some (REnum i RUnit) | _ => None end
              | None => None
              end
          | JObj [(k, pj)] =>
              match find_variant k vs 0 with
              | Some (i, v) => option_map (REnum i) (de_payload deny (v_det v) pj)
              | None => None
              end
          | _ => None
          end
      | TagInternal tg =>
          match j with
          | JObj kvs =>
              match assoc tg kvs with
              | Some (JStr s) =>
                  match find_variant s vs 0 with
                  | Some (i, v) =>
                      let rest := remove_key tg kvs in
                      match v_det v with
                      | VSimple => Some (REnum i RUnit)   (* other members are ignored, even under
                                                             deny_unknown_fields (observed) *)
                      | VItem t => option_map (REnum i) (de t (JObj rest))
                      | VStruct ps => option_map (REnum i) (de_struct_body ps deny (JObj rest))
                      | VTuple _ => None
                      end
                  | None => None
                  end
              | _ => None
              end
          | _ => None
          end
      | TagAdjacent tg ct =>
          match j with
          | JObj kvs =>
              match assoc tg kvs with
              | Some (JStr s) =>
                  match find_variant s vs 0 with
                  | Some (i, v) =>
                      let others := remove_key ct (remove_key tg kvs) in
                      if deny && negb (Nat.eqb (length others) 0) then None else
                      match assoc ct kvs, v_det v with
                      | None, VSimple => Some (REnum i RUnit)
                      | Some pj, vd => option_map (REnum i) (de_payload deny vd pj)
                      | None, _ => None
                      end
                  | None => None
                  end
              | _ => None
              end
          | _ => None
          end
      | TagUntagged => de_untagged deny vs 0 j
      end.
  End DeProps.

  (* string form of a map key type *)
  Definition de_key (de : id -> json -> option rval) (k : id) (s : ustring) : option rval :=
    de k (JStr s).

  Fixpoint de (fuel : nat) (i : id) (j : json) {struct fuel} : option rval :=
    match fuel with
    | O => None
    | S f =>
        match get_det T i with
        | None => None
        | Some d =>
            match d with
            | DBoolean => match j with JBool b => Some (RBool b) | _ => None end
            | DInteger n => match j with
                            | JInt z => if in_int_range n z then Some (RInt z) else None
                            | _ => None
                            end
            | DFloat _ => match j with
                          | JInt z => Some (RFlt (inject_Z z))
                          | JFlt q => Some (RFlt q)
                          | _ => None
                          end
            | DString => match j with JStr s => Some (RStr s) | _ => None end
            | DUnit => match j with JNull => Some RUnit | _ => None end
            | DJsonValue => Some (RJson j)
            | DOption t =>
                match j with
                | JNull => Some ROptNone
                | _ => match get_det T t with
                       | Some (DOption _) => de f t j       (* Option<Option<T>> is rendered Option<T> *)
                       | _ => option_map ROptSome (de f t j)
                       end
                end
            | DBox t => de f t j
            | DVec t | DSet t =>
                match j with JArr l => option_map RSeq (mapM (de f t) l) | _ => None end
            | DArray t n =>
                match j with
                | JArr l => if N.eqb (N.of_nat (length l)) n then option_map RSeq (mapM (de f t) l) else None
                | _ => None
                end
            | DTuple ts =>
                match j with JArr l => option_map RSeq (zipM (de f) ts l) | _ => None end
            | DMap k v =>
                match j with
                | JObj kvs =>
                    option_map RMap
                      (mapM (fun kv => match de_key (de f) k (fst kv), de f v (snd kv) with
                                       | Some _, Some x => Some (fst kv, x)
                                       | _, _ => None
                                       end) kvs)
                | _ => None
                end
            | DNative name _ _ =>
                match j with JStr s => if native_ok name s then Some (RNative s) else None | _ => None end
            | DNewtype _ _ inner c =>
                match c with
                | CNone => de f inner j
                | CString mx mn pat =>
                    match j with
                    | JStr s => if str_constraints_ok mx mn pat s then Some (RStr s) else None
                    | _ => None
                    end
                | CEnum vs =>
                    match de f inner j with
                    | Some x => if existsb (json_equiv j) vs then Some x else None
                    | None => None
                    end
                | CDeny vs =>
                    match de f inner j with
                    | Some x => if existsb (json_equiv j) vs then None else Some x
                    | None => None
                    end
                end
            | DStruct _ _ ps deny => de_struct_body (de f) (default_val f) ps deny j
            | DEnum _ _ tag vs deny _ => de_enum (de f) (default_val f) tag vs deny j
            | DReference _ => None
            end
        end
    end.

  (* ---------------------------------------------------------------- ser *)
  (* generate_serde_attr chooses skip_serializing_if by the member's type,
     looking through one Box (cycle breaking may have re-pointed the member at
     Box<Option<T>>; fix b9da3ef) *)
  Definition unbox_det (i : id) : option details :=
    match get_det T i with
    | Some (DBox t) => match get_det T t with Some d => Some d | None => Some (DBox t) end
    | d => d
    end.

  Definition skip_if (p : prop) (x : rval) : bool :=
    match p_state p with
    | POptional =>
        match unbox_det (p_ty p), x with
        | Some (DOption _), ROptNone => true
        | Some (DVec _), RSeq [] => true
        | Some (DMap _ _), RMap [] => true
        | _, _ => false
        end
    | _ => false
    end.

  Section SerProps.
    Variable ser : id -> rval -> option json.

    Fixpoint ser_fields (ps : list prop) (fs : list (ustring * rval)) : option (list (ustring * json)) :=
      match ps with
      | [] => Some []
      | p :: r =>
          match assoc (p_name p) fs with
          | None => None
          | Some x =>
              match ser_fields r fs with
              | None => None
              | Some rest =>
                  match p_rename p with
                  | RFlatten =>
                      match ser (p_ty p) x with
                      | Some (JObj m) => Some (m ++ rest)
                      | Some JNull => Some rest     (* a flattened None (FlatMapSerializer::
                                                       serialize_none) emits nothing *)
                      | _ => None
                      end
                  | _ =>
                      if skip_if p x then Some rest else
                      match wire_name p, ser (p_ty p) x with
                      | Some w, Some j => Some ((w, j) :: rest)
                      | _, _ => None
                      end
                  end
              end
          end
      end.

    Definition ser_payload (vd : vdetails) (x : rval) : option json :=
      match vd, x with
      | VSimple, RUnit => Some JNull
      | VItem t, _ => ser t x
      | VTuple ts, RSeq l => option_map JArr (zipM ser ts l)
      | VStruct ps, RStruct fs => option_map JObj (ser_fields ps fs)
      | _, _ => None
      end.

    Definition ser_enum (tag : tagty) (vs : list variant) (x : rval) : option json :=
      match x with
      | REnum i px =>
          match nth_error vs i with
          | None => None
          | Some v =>
              match tag with
              | TagExternal =>
                  match v_det v with
                  | VSimple => Some (JStr (v_raw v))
                  | vd => option_map (fun pj => JObj [(v_raw v, pj)]) (ser_payload vd px)
                  end
              | TagInternal tg =>
                  match v_det v with
                  | VSimple => Some (JObj [(tg, JStr (v_raw v))])
                  | VTuple _ => None
                  | vd => match ser_payload vd px with
                          | Some (JObj m) => Some (JObj ((tg, JStr (v_raw v)) :: m))
                          | _ => None
                          end
                  end
              | TagAdjacent tg ct =>
                  match v_det v with
                  | VSimple => Some (JObj [(tg, JStr (v_raw v))])
                  | vd => option_map (fun pj => JObj [(tg, JStr (v_raw v)); (ct, pj)]) (ser_payload vd px)
                  end
              | TagUntagged => ser_payload (v_det v) px
              end
          end
      | _ => None
      end.
  End SerProps.

  Fixpoint ser (fuel : nat) (i : id) (x : rval) {struct fuel} : option json :=
    match fuel with
    | O => None
    | S f =>
        match get_det T i with
        | None => None
        | Some d =>
            match d, x with
            | DBoolean, RBool b => Some (JBool b)
            | DInteger _, RInt z => Some (JInt z)
            | DFloat _, RFlt q => Some (JFlt q)
            | DString, RStr s => Some (JStr s)
            | DUnit, RUnit => Some JNull
            | DJsonValue, RJson j => Some j
            | DOption t, _ =>
                match get_det T t, x with
                | Some (DOption _), _ => ser f t x      (* Option<Option<T>> is rendered Option<T> *)
                | _, ROptNone => Some JNull
                | _, ROptSome y => ser f t y
                | _, _ => None
                end
            | DBox t, _ => ser f t x
            | DVec t, RSeq l | DSet t, RSeq l | DArray t _, RSeq l => option_map JArr (mapM (ser f t) l)
            | DTuple ts, RSeq l => option_map JArr (zipM (ser f) ts l)
            | DMap _ v, RMap kvs =>
                option_map JObj (mapM (fun kv => option_map (fun j => (fst kv, j)) (ser f v (snd kv))) kvs)
            | DNative _ _ _, RNative s => Some (JStr s)
            | DNewtype _ _ inner CNone, _ => ser f inner x
            | DNewtype _ _ inner (CEnum _), _ | DNewtype _ _ inner (CDeny _), _ => ser f inner x
            | DNewtype _ _ _ (CString _ _ _), RStr s => Some (JStr s)
            | DStruct _ _ ps _, RStruct fs => option_map JObj (ser_fields (ser f) ps fs)
            | DEnum _ _ tag vs _ _, _ => ser_enum (ser f) tag vs x
            | _, _ => None
            end
        end
    end.

  (* ------------------------------------------------- modelled-faithfully test *)
  (* Types for which the clauses above are the complete story.  K5 compares
     model and compiled code only where this holds; theorems about generated
     code are stated for such types. *)
  Definition key_ok (fuel : nat) (k : id) : bool :=
    match get_det T k with
    | Some DString => true
    | Some (DNewtype _ _ inner _) =>
        match get_det T inner with Some DString => true | _ => false end
    | Some (DEnum _ _ TagExternal vs _ _) =>
        forallb (fun v => match v_det v with VSimple => true | _ => false end) vs
    | _ => false
    end.

  Definition mem_id (i : id) (l : list id) : bool := existsb (N.eqb i) l.

  Fixpoint sup_go (fuel : nat) (seen : list id) (i : id) {struct fuel} : bool :=
    match fuel with
    | O => true     (* cut *)
    | S f =>
        if mem_id i seen then true else
        let seen' := i :: seen in
        (* deny_unknown_fields together with a flattened member (only reachable for struct
           VARIANTS of an enum) is not modelled: serde then rejects every unknown entry instead of
           handing it to the map (observed) *)
        let sup_props := fun (ps : list prop) (deny : bool) =>
          negb (deny && negb (Nat.eqb (length (flat_props ps)) 0)) &&
          forallb (fun p => sup_go f seen' (p_ty p) &&
                            match p_state p with
                            | POptional => match default_val 8 (p_ty p) with Some _ => true | None => false end
                            | _ => true
                            end) ps &&
          (* flattened members: maps, or Option of a struct without flattened members
             of its own (the flattened-union structs; de_flats) *)
          forallb (fun fp => match get_det T (p_ty fp) with
                             | Some (DMap _ _) => true
                             | Some (DOption t') =>
                                 match get_det T t' with
                                 | Some (DStruct _ _ qs _) =>
                                     match flat_props qs with [] => true | _ => false end
                                 | _ => false
                                 end
                             | _ => false
                             end) (flat_props ps) in
        match get_det T i with
        | None => false
        | Some d =>
            match d with
            | DBoolean | DString | DUnit | DJsonValue => true
            | DInteger n => match int_range_u n with Some _ => true | None => false end
            | DFloat _ => true
            | DOption t | DBox t | DVec t | DSet t | DArray t _ => sup_go f seen' t
            | DTuple ts => forallb (sup_go f seen') ts
            | DMap k v => key_ok f k && sup_go f seen' v
            | DNative _ _ ps => match ps with [] => true | _ => false end
            | DNewtype _ _ inner c =>
                sup_go f seen' inner &&
                match c with
                | CString _ _ _ => match get_det T inner with Some DString => true | _ => false end
                | _ => true
                end
            | DStruct _ _ ps deny => sup_props ps deny
            | DEnum _ _ tag vs deny _ =>
                forallb (fun v => match v_det v with
                                  | VSimple => true
                                  | VItem t => sup_go f seen' t
                                  | VTuple ts => forallb (sup_go f seen') ts &&
                                                 match tag with TagInternal _ => false | _ => true end
                                  | VStruct ps => sup_props ps deny
                                  end) vs
            | DReference _ => false
            end
        end
    end.

  Definition sup (fuel : nat) (i : id) : bool := sup_go fuel [] i.
End Serde.
