(* IR/SerdeRun.v — evaluation wrappers for the correspondence runs (K5): the
   regex engine and native parsers are instantiated by lookup tables computed by
   the real crates for exactly the strings of the run.  Definitions only. *)
From Coq Require Import String ZArith NArith List Bool.
From Typify Require Import Base.Json IR.TypeIR IR.Serde.
Import ListNotations.
Open Scope string_scope.

Definition tbl := list ((ustring * ustring) * bool).

Fixpoint tbl_lookup (t : tbl) (a b : ustring) : bool :=
  match t with
  | [] => false
  | ((a', b'), r) :: t' => if ustr_eqb a a' && ustr_eqb b b' then r else tbl_lookup t' a b
  end.

(* de then ser, printed: "err" | "ok:<json>" | "ser-fail" *)
Definition run_rt (re ntv : tbl) (T : space) (fuel : nat) (i : id) (j : json) : string :=
  match de (tbl_lookup re) (tbl_lookup ntv) T fuel i j with
  | None => "err"
  | Some x => match ser T fuel i x with
              | Some w => "ok:" ++ show_json w
              | None => "ser-fail"
              end
  end.

(* two round trips: "err" | "ok:<w>|<w2>" *)
Definition run_rt2 (re ntv : tbl) (T : space) (fuel : nat) (i : id) (j : json) : string :=
  match de (tbl_lookup re) (tbl_lookup ntv) T fuel i j with
  | None => "err"
  | Some x => match ser T fuel i x with
              | Some w =>
                  match de (tbl_lookup re) (tbl_lookup ntv) T fuel i w with
                  | Some x2 => match ser T fuel i x2 with
                               | Some w2 => "ok:" ++ show_json w ++ "|" ++ show_json w2
                               | None => "ser-fail2"
                               end
                  | None => "ok:" ++ show_json w ++ "|err"
                  end
              | None => "ser-fail"
              end
  end.

Definition run_sup (T : space) (fuel : nat) (i : id) : string :=
  if sup T fuel i then "sup" else "unsup".
