(* IR/TypeIR.v — typify's internal type space, a 1:1 mirror of
   typify-impl/src/type_entry.rs:36-224 and of what the `verif_dump` hook prints
   (definitions only).  Terms of these types are produced from the real dump by
   py/tocoq.py on every run. *)
From Coq Require Import String Ascii ZArith NArith List Bool.
From Typify Require Import Base.Json.
Import ListNotations.
Open Scope N_scope.

Definition id := N.

Inductive pstate := PRequired | POptional | PDefault (v : json).
Inductive prename := RNone | RRename (s : ustring) | RFlatten.

Record prop := mkProp {
  p_name : ustring;       (* Rust field identifier *)
  p_rename : prename;
  p_state : pstate;
  p_ty : id }.

Inductive vdetails :=
| VSimple
| VItem (t : id)
| VTuple (ts : list id)
| VStruct (ps : list prop).

Record variant := mkVariant {
  v_raw : ustring;        (* JSON name *)
  v_ident : ustring;      (* Rust identifier *)
  v_det : vdetails }.

Inductive tagty :=
| TagExternal
| TagInternal (tag : ustring)
| TagAdjacent (tag content : ustring)
| TagUntagged.

Inductive constraints :=
| CNone
| CEnum (vs : list json)
| CDeny (vs : list json)
| CString (max min : option N) (pat : option ustring).

Inductive bespoke := AllSimpleVariants | UntaggedFromStr | UntaggedDisplay.
Inductive trait := TFromStr | TDisplay | TDefault.

Inductive details :=
| DEnum (name : ustring) (default : option json) (tag : tagty) (vs : list variant)
        (deny : bool) (bes : list bespoke)
| DStruct (name : ustring) (default : option json) (props : list prop) (deny : bool)
| DNewtype (name : ustring) (default : option json) (inner : id) (c : constraints)
| DNative (type_name : ustring) (impls : list trait) (params : list id)
| DOption (t : id)
| DBox (t : id)
| DVec (t : id)
| DMap (k v : id)
| DSet (t : id)
| DArray (t : id) (n : N)
| DTuple (ts : list id)
| DUnit
| DBoolean
| DInteger (name : ustring)
| DFloat (name : ustring)
| DString
| DJsonValue
| DReference (t : id).

Record entry := mkEntry { e_det : details; e_derives : list ustring }.

Record settings := mkSettings {
  s_type_mod : option ustring;
  s_derives : list ustring;
  s_builder : bool;
  s_map_type : ustring }.

Record space := mkSpace {
  sp_entries : list (id * entry);
  sp_next : N;
  sp_settings : settings;
  sp_uses_chrono : bool;
  sp_uses_uuid : bool;
  sp_uses_serde_json : bool;
  sp_uses_regress : bool;
  sp_defaults : list ustring }.

Fixpoint lookup_id {A} (i : id) (l : list (id * A)) : option A :=
  match l with
  | [] => None
  | (j, x) :: r => if N.eqb i j then Some x else lookup_id i r
  end.

Definition get (T : space) (i : id) : option entry := lookup_id i (sp_entries T).
Definition get_det (T : space) (i : id) : option details := option_map e_det (get T i).

Definition trait_eqb (a b : trait) : bool :=
  match a, b with
  | TFromStr, TFromStr | TDisplay, TDisplay | TDefault, TDefault => true
  | _, _ => false
  end.

Definition bespoke_eqb (a b : bespoke) : bool :=
  match a, b with
  | AllSimpleVariants, AllSimpleVariants | UntaggedFromStr, UntaggedFromStr
  | UntaggedDisplay, UntaggedDisplay => true
  | _, _ => false
  end.

Definition det_name (d : details) : option ustring :=
  match d with
  | DEnum n _ _ _ _ _ | DStruct n _ _ _ | DNewtype n _ _ _ => Some n
  | _ => None
  end.

(* wire (JSON) name of a struct property: the rename when present, else the ident *)
Definition wire_name (p : prop) : option ustring :=
  match p_rename p with
  | RNone => Some (p_name p)
  | RRename s => Some s
  | RFlatten => None
  end.

(* integer type ranges by Rust name (what `Integer(name)` can hold) *)
Definition ustr_of_string (s : string) : ustring :=
  map (fun a => N_of_ascii a) (list_ascii_of_string s).

Open Scope Z_scope.
Definition int_range (name : string) : option (Z * Z * bool (* nonzero *)) :=
  if String.eqb name "u8" then Some (0, 255, false)
  else if String.eqb name "u16" then Some (0, 65535, false)
  else if String.eqb name "u32" then Some (0, 4294967295, false)
  else if String.eqb name "u64" then Some (0, 18446744073709551615, false)
  else if String.eqb name "i8" then Some (-128, 127, false)
  else if String.eqb name "i16" then Some (-32768, 32767, false)
  else if String.eqb name "i32" then Some (-2147483648, 2147483647, false)
  else if String.eqb name "i64" then Some (-9223372036854775808, 9223372036854775807, false)
  else if String.eqb name "::std::num::NonZeroU8" then Some (1, 255, true)
  else if String.eqb name "::std::num::NonZeroU16" then Some (1, 65535, true)
  else if String.eqb name "::std::num::NonZeroU32" then Some (1, 4294967295, true)
  else if String.eqb name "::std::num::NonZeroU64" then Some (1, 18446744073709551615, true)
  else None.

Fixpoint string_of_ustring (u : ustring) : string :=
  match u with
  | [] => EmptyString
  | c :: r => String (ascii_of_N c) (string_of_ustring r)
  end.

Definition int_range_u (name : ustring) := int_range (string_of_ustring name).
