(* Spec/Schema.v — the schemars 0.8 schema AST (the part of draft-07 the
   properties talk about), as one nested inductive with a hand-written
   induction principle (definitions + that principle only).

   Not represented: if/then/else, contains, patternProperties, propertyNames,
   `$id`/`$schema`, extensions other than what py/tocoq.py strips; the
   translator refuses documents that use them, so they are outside every
   fragment a theorem here speaks about. *)
From Coq Require Import String ZArith NArith QArith List Bool.
From Typify Require Import Base.Json.
Import ListNotations.
Close Scope Q_scope.
Open Scope nat_scope.

Inductive itype := TNull | TBoolean | TInteger | TNumber | TString | TArray | TObject.

Definition itype_eqb (a b : itype) : bool :=
  match a, b with
  | TNull, TNull | TBoolean, TBoolean | TInteger, TInteger | TNumber, TNumber
  | TString, TString | TArray, TArray | TObject, TObject => true
  | _, _ => false
  end.

Record numv := mkNumv {
  n_multiple_of : option Q;
  n_maximum : option Q;
  n_exclusive_maximum : option Q;
  n_minimum : option Q;
  n_exclusive_minimum : option Q }.

Record strv := mkStrv {
  s_max_length : option N;
  s_min_length : option N;
  s_pattern : option ustring }.

Definition numv_none := mkNumv None None None None None.
Definition strv_none := mkStrv None None None.

Inductive items_kind := ItemsAbsent | ItemsSingle | ItemsTuple.

Inductive schema : Type :=
| SBool (b : bool)
| SObj (ty : option (list itype)) (fmt : option ustring)
       (enum : option (list json)) (cst : option json)
       (nv : numv) (sv : strv)
       (ik : items_kind) (items : list schema)          (* ItemsSingle: items = [s] *)
       (additional_items : option schema)
       (min_items max_items : option N) (unique_items : bool)
       (props : list (ustring * schema)) (required : list ustring)
       (additional_props : option schema)
       (min_props max_props : option N)
       (all_of any_of one_of : option (list schema)) (not_ : option schema)
       (ref : option ustring)
       (default : option json) (title : option ustring).

(* definitions map of a root document: `#/definitions/<name>` *)
Definition defs := list (ustring * schema).

Definition osize {A} (f : A -> nat) (o : option A) : nat :=
  match o with Some x => f x | None => 0 end.

Fixpoint ssize (s : schema) : nat :=
  match s with
  | SBool _ => 1
  | SObj _ _ _ _ _ _ _ items ai _ _ _ props _ ap _ _ allo anyo oneo no _ _ _ =>
      let lsz := fix lsz (l : list schema) : nat :=
                   match l with [] => 0 | x :: r => ssize x + lsz r end in
      let psz := fix psz (l : list (ustring * schema)) : nat :=
                   match l with [] => 0 | (_, x) :: r => ssize x + psz r end in
      S (lsz items + osize ssize ai + psz props + osize ssize ap
         + osize lsz allo + osize lsz anyo + osize lsz oneo + osize ssize no)
  end.

Section SchemaInd.
  Variable P : schema -> Prop.
  Definition OForall {A} (Q : A -> Prop) (o : option A) : Prop :=
    match o with Some x => Q x | None => True end.
  Hypothesis HBool : forall b, P (SBool b).
  Hypothesis HObj :
    forall ty fmt enum cst nv sv ik items ai mni mxi uq props req ap mnp mxp allo anyo oneo no ref dflt title,
      Forall P items -> OForall P ai ->
      Forall (fun kv => P (snd kv)) props -> OForall P ap ->
      OForall (Forall P) allo -> OForall (Forall P) anyo -> OForall (Forall P) oneo ->
      OForall P no ->
      P (SObj ty fmt enum cst nv sv ik items ai mni mxi uq props req ap mnp mxp allo anyo oneo no ref dflt title).

  Fixpoint schema_ind' (s : schema) : P s :=
    match s with
    | SBool b => HBool b
    | SObj ty fmt enum cst nv sv ik items ai mni mxi uq props req ap mnp mxp allo anyo oneo no ref dflt title =>
        let lrec := fix lrec (l : list schema) : Forall P l :=
                      match l with
                      | [] => Forall_nil _
                      | x :: r => Forall_cons _ (schema_ind' x) (lrec r)
                      end in
        let prec := fix prec (l : list (ustring * schema)) : Forall (fun kv => P (snd kv)) l :=
                      match l with
                      | [] => Forall_nil _
                      | kv :: r => Forall_cons kv (schema_ind' (snd kv)) (prec r)
                      end in
        let orec := fun (o : option schema) =>
                      match o return OForall P o with
                      | Some x => schema_ind' x
                      | None => I
                      end in
        let olrec := fun (o : option (list schema)) =>
                       match o return OForall (Forall P) o with
                       | Some l => lrec l
                       | None => I
                       end in
        HObj ty fmt enum cst nv sv ik items ai mni mxi uq props req ap mnp mxp allo anyo oneo no ref dflt title
             (lrec items) (orec ai) (prec props) (orec ap) (olrec allo) (olrec anyo) (olrec oneo) (orec no)
    end.
End SchemaInd.

(* an "empty" schema object, and convenient builders used by generated terms *)
Definition SAny : schema :=
  SObj None None None None numv_none strv_none ItemsAbsent [] None None None false
       [] [] None None None None None None None None None None.
