(* Spec/Valid.v — SPECIFICATION of JSON Schema draft-07 validity for exactly the
   keywords of Spec/Schema.v (definitions only; lemmas are in
   Proofs/ValidProofs.v; the sanity channel K7 = py/k7.py compares [valid] with
   python jsonschema's Draft7Validator on every run that uses it).

   Summary of the semantics (details in notes/Valid.md):

   * every keyword constrains only instances of its own JSON type and ignores
     the others (draft-07 section 6);
   * numbers are exact rationals: [JInt z] is z#1, [JFlt q] is q; bounds,
     [multipleOf], [enum]/[const] equality and [uniqueItems] compare numerically
     (1 and 1.0 are the same value: [json_equiv]);
   * ["type":"integer"] accepts [JInt] and, when the option
     [int_accepts_integral_float] is on (draft-07 reading, the default
     [draft07]), a [JFlt] whose value is integral.  serde's integer types do not
     accept "1.0": builders that need that reading use [serde_ints]
     (DESIGN 3.2);
   * the integer formats int8 … uint64 are RANGES on integer instances (the
     property text prescribes that reading); uuid, date, date-time, ip, ipv4,
     ipv6 are assertions on strings decided by the section variable [fmt_ok]
     (DESIGN 3.3); every other format is an annotation;
   * [pattern] is decided by the section variable [re_match pattern string];
   * ["$ref"] : the stored name is looked up in the definitions ([resolve_ref] =
     [assoc]); the reference "#" (whole document) is the RESERVED KEY [root_key]
     = "#" of the definitions: callers evaluate under [with_root D root].
     Draft-07 says siblings of "$ref" are ignored; that is the option
     [ref_ignores_siblings] (on in [draft07]); with the option off a "$ref"
     behaves like one more conjunct (what 2019-09 does, and what typify's merge
     does);
   * FUEL is consumed only by "$ref" resolution (one unit per reference
     followed); everything else is structural recursion on the schema.  An
     unresolved reference, or a reference met with fuel 0, evaluates to
     [false].  Because of [not]/[oneOf] a [false] produced by exhaustion can
     turn into a [true], so [valid] alone is NOT monotone in the fuel; the
     companion [definite D fuel s v] says that the evaluation of
     [valid D fuel s v] never ran out of fuel nor met an unresolved reference
     anywhere (strictly: in every branch, also those a lazy evaluator would
     skip).  Theorems quantify
        [Valid D s v   := exists fuel, definite … = true /\ valid … = true]
        [Invalid D s v := exists fuel, definite … = true /\ valid … = false]
     and ValidProofs.valid_fuel_stable shows the verdict no longer depends on
     the fuel once [definite] holds.  For documents without [not]/[oneOf]
     plain monotonicity holds (ValidProofs.valid_mono_noneg).  A schema without
     references is definite at fuel 0 (definitex_ref_free); over acyclic
     definitions fuel above the largest rank suffices (definitex_ranked). *)
From Coq Require Import String Ascii ZArith NArith QArith List Bool.
From Typify Require Import Base.Json Spec.Schema.
Import ListNotations.
Close Scope Q_scope.
Open Scope nat_scope.

(* ------------------------------------------------------------------ strings *)
Fixpoint ulit (s : string) : ustring :=
  match s with
  | EmptyString => []
  | String a r => N_of_ascii a :: ulit r
  end.

(* ------------------------------------------------------------------ options *)
Record vopts := mkVopts {
  int_accepts_integral_float : bool;   (* "integer" accepts 1.0 (draft-07) *)
  ref_ignores_siblings : bool          (* keywords next to "$ref" are ignored (draft-07) *)
}.
Definition draft07 : vopts := mkVopts true true.
(* draft-07 except that an integer must be written as an integer literal *)
Definition serde_ints : vopts := mkVopts false true.

(* ------------------------------------------------------------------ numbers *)
Definition is_integral (q : Q) : bool :=
  Z.eqb (Z.modulo (Qnum q) (Zpos (Qden q))) 0.

Definition num_of (v : json) : option Q :=
  match v with
  | JInt z => Some (z # 1)%Q
  | JFlt q => Some q
  | _ => None
  end.

(* the integer an instance denotes, if it counts as an integer *)
Definition int_of (iaf : bool) (v : json) : option Z :=
  match v with
  | JInt z => Some z
  | JFlt q => if iaf && is_integral q then Some (Z.div (Qnum q) (Zpos (Qden q))) else None
  | _ => None
  end.

Definition Qlt_bool (a b : Q) : bool := negb (Qle_bool b a).

(* ------------------------------------------------------------------ equality
   draft-07 4.2.3 instance equality: numbers by value (1 = 1.0), arrays
   positionally, objects as finite maps (keys assumed unique). *)
Fixpoint json_equiv (a b : json) {struct a} : bool :=
  match a, b with
  | JNull, JNull => true
  | JBool x, JBool y => Bool.eqb x y
  | JInt x, JInt y => Z.eqb x y
  | JInt x, JFlt y => Qeq_bool (x # 1)%Q y
  | JFlt x, JInt y => Qeq_bool x (y # 1)%Q
  | JFlt x, JFlt y => Qeq_bool x y
  | JStr x, JStr y => ustr_eqb x y
  | JArr x, JArr y =>
      (fix go (x y : list json) : bool :=
         match x, y with
         | [], [] => true
         | u :: x', v :: y' => json_equiv u v && go x' y'
         | _, _ => false
         end) x y
  | JObj x, JObj y =>
      Nat.eqb (length x) (length y) &&
      (fix go (x : list (ustring * json)) : bool :=
         match x with
         | [] => true
         | (k, u) :: x' =>
             match assoc k y with
             | Some v => json_equiv u v && go x'
             | None => false
             end
         end) x
  | _, _ => false
  end.

Fixpoint all_distinct (l : list json) : bool :=
  match l with
  | [] => true
  | x :: r => negb (existsb (json_equiv x) r) && all_distinct r
  end.

(* ------------------------------------------------------------------ type *)
Definition type_ok (iaf : bool) (t : itype) (v : json) : bool :=
  match t, v with
  | TNull, JNull => true
  | TBoolean, JBool _ => true
  | TInteger, _ => match int_of iaf v with Some _ => true | None => false end
  | TNumber, JInt _ => true
  | TNumber, JFlt _ => true
  | TString, JStr _ => true
  | TArray, JArr _ => true
  | TObject, JObj _ => true
  | _, _ => false
  end.

(* ------------------------------------------------------------------ format *)
Open Scope string_scope.
Open Scope Z_scope.
Definition int_format_table : list (ustring * (Z * Z)) :=
  [ (ulit "int8",   (-128, 127));
    (ulit "uint8",  (0, 255));
    (ulit "int16",  (-32768, 32767));
    (ulit "uint16", (0, 65535));
    (ulit "int32",  (-2147483648, 2147483647));
    (ulit "int",    (-2147483648, 2147483647));
    (ulit "uint32", (0, 4294967295));
    (ulit "uint",   (0, 4294967295));
    (ulit "int64",  (-9223372036854775808, 9223372036854775807));
    (ulit "uint64", (0, 18446744073709551615)) ].
Close Scope Z_scope.

Definition string_format_names : list ustring :=
  [ ulit "uuid"; ulit "date"; ulit "date-time"; ulit "ip"; ulit "ipv4"; ulit "ipv6" ].
Close Scope string_scope.

Definition int_format_range (f : ustring) : option (Z * Z) := assoc f int_format_table.
Definition is_string_format (f : ustring) : bool := mem_ustr f string_format_names.

(* ------------------------------------------------------------------ helpers *)
Definition opt_all {A} (f : A -> bool) (o : option A) : bool :=
  match o with Some x => f x | None => true end.

(* [f] stays outside the [fix] so that nested recursive calls through it pass
   the guard checker (as for [forallb]) *)
Definition count_true {A} (f : A -> bool) : list A -> nat :=
  fix go (l : list A) : nat :=
    match l with
    | [] => 0
    | x :: r => (if f x then 1 else 0) + go r
    end.

Definition root_key : ustring := [35%N].                 (* "#" *)
Definition resolve_ref (D : defs) (name : ustring) : option schema := assoc name D.
Definition with_root (D : defs) (root : schema) : defs := (root_key, root) :: D.

(* projections other builders need *)
Definition sch_types (s : schema) : option (list itype) :=
  match s with SObj ty _ _ _ _ _ _ _ _ _ _ _ _ _ _ _ _ _ _ _ _ _ _ _ => ty | SBool _ => None end.
Definition sch_format (s : schema) : option ustring :=
  match s with SObj _ f _ _ _ _ _ _ _ _ _ _ _ _ _ _ _ _ _ _ _ _ _ _ => f | SBool _ => None end.
Definition sch_enum (s : schema) : option (list json) :=
  match s with SObj _ _ e _ _ _ _ _ _ _ _ _ _ _ _ _ _ _ _ _ _ _ _ _ => e | SBool _ => None end.
Definition sch_const (s : schema) : option json :=
  match s with SObj _ _ _ c _ _ _ _ _ _ _ _ _ _ _ _ _ _ _ _ _ _ _ _ => c | SBool _ => None end.
Definition sch_items (s : schema) : items_kind * list schema :=
  match s with SObj _ _ _ _ _ _ ik its _ _ _ _ _ _ _ _ _ _ _ _ _ _ _ _ => (ik, its) | SBool _ => (ItemsAbsent, []) end.
Definition sch_additional_items (s : schema) : option schema :=
  match s with SObj _ _ _ _ _ _ _ _ ai _ _ _ _ _ _ _ _ _ _ _ _ _ _ _ => ai | SBool _ => None end.
Definition sch_props (s : schema) : list (ustring * schema) :=
  match s with SObj _ _ _ _ _ _ _ _ _ _ _ _ p _ _ _ _ _ _ _ _ _ _ _ => p | SBool _ => [] end.
Definition sch_required (s : schema) : list ustring :=
  match s with SObj _ _ _ _ _ _ _ _ _ _ _ _ _ r _ _ _ _ _ _ _ _ _ _ => r | SBool _ => [] end.
Definition sch_additional_props (s : schema) : option schema :=
  match s with SObj _ _ _ _ _ _ _ _ _ _ _ _ _ _ ap _ _ _ _ _ _ _ _ _ => ap | SBool _ => None end.
Definition sch_all_of (s : schema) : option (list schema) :=
  match s with SObj _ _ _ _ _ _ _ _ _ _ _ _ _ _ _ _ _ a _ _ _ _ _ _ => a | SBool _ => None end.
Definition sch_any_of (s : schema) : option (list schema) :=
  match s with SObj _ _ _ _ _ _ _ _ _ _ _ _ _ _ _ _ _ _ a _ _ _ _ _ => a | SBool _ => None end.
Definition sch_one_of (s : schema) : option (list schema) :=
  match s with SObj _ _ _ _ _ _ _ _ _ _ _ _ _ _ _ _ _ _ _ a _ _ _ _ => a | SBool _ => None end.
Definition sch_not (s : schema) : option schema :=
  match s with SObj _ _ _ _ _ _ _ _ _ _ _ _ _ _ _ _ _ _ _ _ n _ _ _ => n | SBool _ => None end.
Definition sch_ref (s : schema) : option ustring :=
  match s with SObj _ _ _ _ _ _ _ _ _ _ _ _ _ _ _ _ _ _ _ _ _ r _ _ => r | SBool _ => None end.
Definition sch_default (s : schema) : option json :=
  match s with SObj _ _ _ _ _ _ _ _ _ _ _ _ _ _ _ _ _ _ _ _ _ _ d _ => d | SBool _ => None end.

(* the three one-keyword schemas used in statements *)
Definition SNot (x : schema) : schema :=
  SObj None None None None numv_none strv_none ItemsAbsent [] None None None false
       [] [] None None None None None None (Some x) None None None.
Definition SRef (r : ustring) : schema :=
  SObj None None None None numv_none strv_none ItemsAbsent [] None None None false
       [] [] None None None None None None None (Some r) None None.
Definition SAllOf (L : list schema) : schema :=
  SObj None None None None numv_none strv_none ItemsAbsent [] None None None false
       [] [] None None None (Some L) None None None None None None.

Section Valid.
  (* [re_match pattern s]: does the (ECMA 262, unanchored) regular expression
     match somewhere in s.  [fmt_ok format s]: is s a well-formed value of the
     named string format.  Both are opaque: theorems hold for every choice. *)
  Variable re_match : ustring -> ustring -> bool.
  Variable fmt_ok : ustring -> ustring -> bool.

  (* ---------------------------------------------------------------- leaves
     The keywords that do not contain subschemas. *)
  Definition valid_type (o : vopts) (ty : option (list itype)) (v : json) : bool :=
    opt_all (existsb (fun t => type_ok (int_accepts_integral_float o) t v)) ty.

  Definition valid_enum (enum : option (list json)) (v : json) : bool :=
    opt_all (existsb (fun e => json_equiv e v)) enum.

  Definition valid_const (cst : option json) (v : json) : bool :=
    opt_all (fun c => json_equiv c v) cst.

  Definition valid_num (nv : numv) (v : json) : bool :=
    match num_of v with
    | None => true
    | Some q =>
        opt_all (fun m => is_integral (q / m)%Q) (n_multiple_of nv)
        && opt_all (fun m => Qle_bool q m) (n_maximum nv)
        && opt_all (fun m => Qlt_bool q m) (n_exclusive_maximum nv)
        && opt_all (fun m => Qle_bool m q) (n_minimum nv)
        && opt_all (fun m => Qlt_bool m q) (n_exclusive_minimum nv)
    end.

  Definition valid_str (sv : strv) (v : json) : bool :=
    match v with
    | JStr s =>
        opt_all (fun m => N.leb (chars_count s) m) (s_max_length sv)
        && opt_all (fun m => N.leb m (chars_count s)) (s_min_length sv)
        && opt_all (fun p => re_match p s) (s_pattern sv)
    | _ => true
    end.

  Definition valid_format (o : vopts) (fmt : option ustring) (v : json) : bool :=
    match fmt with
    | None => true
    | Some f =>
        match int_format_range f with
        | Some (lo, hi) =>
            match int_of (int_accepts_integral_float o) v with
            | Some z => Z.leb lo z && Z.leb z hi
            | None => true
            end
        | None =>
            if is_string_format f
            then match v with JStr s => fmt_ok f s | _ => true end
            else true
        end
    end.

  Definition valid_arr_local (mni mxi : option N) (uq : bool) (v : json) : bool :=
    match v with
    | JArr l =>
        opt_all (fun m => N.leb m (N.of_nat (length l))) mni
        && opt_all (fun m => N.leb (N.of_nat (length l)) m) mxi
        && (if uq then all_distinct l else true)
    | _ => true
    end.

  Definition valid_obj_local (req : list ustring) (mnp mxp : option N) (v : json) : bool :=
    match v with
    | JObj kvs =>
        forallb (fun k => has_key k kvs) req
        && opt_all (fun m => N.leb m (N.of_nat (length kvs))) mnp
        && opt_all (fun m => N.leb (N.of_nat (length kvs)) m) mxp
    | _ => true
    end.

  Definition valid_local (o : vopts) (ty : option (list itype)) (fmt : option ustring)
             (enum : option (list json)) (cst : option json) (nv : numv) (sv : strv)
             (mni mxi : option N) (uq : bool) (req : list ustring) (mnp mxp : option N)
             (v : json) : bool :=
    valid_type o ty v && valid_format o fmt v && valid_enum enum v && valid_const cst v
    && valid_num nv v && valid_str sv v
    && valid_arr_local mni mxi uq v && valid_obj_local req mnp mxp v.

  (* ---------------------------------------------------------------- applicators
     [items]/[additionalItems] and [properties]/[additionalProperties], as
     conjunctions of [f subschema child].  [f] is the validity function in
     [vstep] and the definiteness function in [dstep]. *)
  Definition valid_arr (f : schema -> json -> bool) (ik : items_kind) (items : list schema)
             (ai : option schema) (l : list json) : bool :=
    match ik with
    | ItemsAbsent => true
    | ItemsSingle =>
        match items with
        | s :: _ => forallb (fun x => f s x) l
        | [] => true
        end
    | ItemsTuple =>
        (fix tup (ss : list schema) (vs : list json) {struct ss} : bool :=
           match ss with
           | [] => match ai with
                   | Some a => forallb (fun x => f a x) vs
                   | None => true
                   end
           | s :: ss' =>
               match vs with
               | [] => true
               | x :: vs' => f s x && tup ss' vs'
               end
           end) items l
    end.

  Definition valid_obj (f : schema -> json -> bool) (props : list (ustring * schema))
             (ap : option schema) (kvs : list (ustring * json)) : bool :=
    (fix pr (ps : list (ustring * schema)) : bool :=
       match ps with
       | [] => true
       | (k, s) :: r =>
           match assoc k kvs with
           | Some x => f s x
           | None => true
           end && pr r
       end) props
    && match ap with
       | Some a => forallb (fun kv => has_key (fst kv) props || f a (snd kv)) kvs
       | None => true
       end.

  (* ---------------------------------------------------------------- one level
     [refk name v] is the verdict of the schema a reference resolves to. *)
  Section Step.
    Variable o : vopts.
    Variable refk : ustring -> json -> bool.

    Fixpoint vstep (s : schema) (v : json) {struct s} : bool :=
      match s with
      | SBool b => b
      | SObj ty fmt enum cst nv sv ik items ai mni mxi uq props req ap mnp mxp
             allo anyo oneo no ref dflt title =>
          let here :=
            valid_local o ty fmt enum cst nv sv mni mxi uq req mnp mxp v
            && match v with
               | JArr l => valid_arr (fun s' x => vstep s' x) ik items ai l
               | _ => true
               end
            && match v with
               | JObj kvs => valid_obj (fun s' x => vstep s' x) props ap kvs
               | _ => true
               end
            && opt_all (forallb (fun s' => vstep s' v)) allo
            && opt_all (existsb (fun s' => vstep s' v)) anyo
            && opt_all (fun l => Nat.eqb (count_true (fun s' => vstep s' v) l) 1) oneo
            && opt_all (fun s' => negb (vstep s' v)) no in
          match ref with
          | Some r => if ref_ignores_siblings o then refk r v else refk r v && here
          | None => here
          end
      end.

    (* same traversal, every applicator a conjunction: "no reference below s
       (on the parts of v it is applied to) failed to evaluate" *)
    Fixpoint dstep (s : schema) (v : json) {struct s} : bool :=
      match s with
      | SBool b => true
      | SObj ty fmt enum cst nv sv ik items ai mni mxi uq props req ap mnp mxp
             allo anyo oneo no ref dflt title =>
          let here :=
            match v with
            | JArr l => valid_arr (fun s' x => dstep s' x) ik items ai l
            | _ => true
            end
            && match v with
               | JObj kvs => valid_obj (fun s' x => dstep s' x) props ap kvs
               | _ => true
               end
            && opt_all (forallb (fun s' => dstep s' v)) allo
            && opt_all (forallb (fun s' => dstep s' v)) anyo
            && opt_all (forallb (fun s' => dstep s' v)) oneo
            && opt_all (fun s' => dstep s' v) no in
          match ref with
          | Some r => if ref_ignores_siblings o then refk r v else refk r v && here
          | None => here
          end
      end.
  End Step.

  (* ---------------------------------------------------------------- fuel *)
  Fixpoint validx (o : vopts) (D : defs) (fuel : nat) (s : schema) (v : json) {struct fuel} : bool :=
    vstep o
      (fun name x =>
         match fuel with
         | O => false
         | S f =>
             match resolve_ref D name with
             | Some s' => validx o D f s' x
             | None => false
             end
         end) s v.

  Fixpoint definitex (o : vopts) (D : defs) (fuel : nat) (s : schema) (v : json) {struct fuel} : bool :=
    dstep o
      (fun name x =>
         match fuel with
         | O => false
         | S f =>
             match resolve_ref D name with
             | Some s' => definitex o D f s' x
             | None => false
             end
         end) s v.

  (* THE specification: draft-07 *)
  Definition valid (D : defs) (fuel : nat) (s : schema) (v : json) : bool := validx draft07 D fuel s v.
  Definition definite (D : defs) (fuel : nat) (s : schema) (v : json) : bool := definitex draft07 D fuel s v.

  Definition Validx (o : vopts) (D : defs) (s : schema) (v : json) : Prop :=
    exists fuel, definitex o D fuel s v = true /\ validx o D fuel s v = true.
  Definition Invalidx (o : vopts) (D : defs) (s : schema) (v : json) : Prop :=
    exists fuel, definitex o D fuel s v = true /\ validx o D fuel s v = false.
  Definition Valid := Validx draft07.
  Definition Invalid := Invalidx draft07.

  (* three-valued verdict for checks: None = not enough fuel / dangling or
     unproductive reference *)
  Definition verdictx (o : vopts) (D : defs) (fuel : nat) (s : schema) (v : json) : option bool :=
    if definitex o D fuel s v then Some (validx o D fuel s v) else None.
  Definition verdict := verdictx draft07.
End Valid.

(* ------------------------------------------------------------------ syntactic classes *)
(* no "$ref" anywhere *)
Fixpoint ref_free (s : schema) : bool :=
  match s with
  | SBool _ => true
  | SObj _ _ _ _ _ _ _ items ai _ _ _ props _ ap _ _ allo anyo oneo no ref _ _ =>
      match ref with Some _ => false | None => true end
      && forallb ref_free items && opt_all ref_free ai
      && forallb (fun kv => ref_free (snd kv)) props && opt_all ref_free ap
      && opt_all (forallb ref_free) allo && opt_all (forallb ref_free) anyo
      && opt_all (forallb ref_free) oneo && opt_all ref_free no
  end.

(* every reference name mentioned in s *)
Fixpoint refs (s : schema) : list ustring :=
  match s with
  | SBool _ => []
  | SObj _ _ _ _ _ _ _ items ai _ _ _ props _ ap _ _ allo anyo oneo no ref _ _ =>
      match ref with Some r => [r] | None => [] end
      ++ flat_map refs items
      ++ match ai with Some a => refs a | None => [] end
      ++ flat_map (fun kv => refs (snd kv)) props
      ++ match ap with Some a => refs a | None => [] end
      ++ match allo with Some l => flat_map refs l | None => [] end
      ++ match anyo with Some l => flat_map refs l | None => [] end
      ++ match oneo with Some l => flat_map refs l | None => [] end
      ++ match no with Some a => refs a | None => [] end
  end.

(* the definitions are acyclic: [rk] strictly decreases along references, and
   no reference dangles *)
Definition ranked (D : defs) (rk : ustring -> nat) : Prop :=
  forall r s, resolve_ref D r = Some s ->
    forall r', In r' (refs s) -> rk r' < rk r /\ resolve_ref D r' <> None.

(* no [not] and no [oneOf] anywhere: the fragment on which validity is monotone
   in the verdicts of the references *)
Fixpoint no_neg (s : schema) : bool :=
  match s with
  | SBool _ => true
  | SObj _ _ _ _ _ _ _ items ai _ _ _ props _ ap _ _ allo anyo oneo no _ _ _ =>
      match oneo with Some _ => false | None => true end
      && match no with Some _ => false | None => true end
      && forallb no_neg items && opt_all no_neg ai
      && forallb (fun kv => no_neg (snd kv)) props && opt_all no_neg ap
      && opt_all (forallb no_neg) allo && opt_all (forallb no_neg) anyo
  end.

Definition no_neg_defs (D : defs) : bool := forallb (fun kv => no_neg (snd kv)) D.

(* ------------------------------------------------------------------ table instances
   For evaluation (K7, checks): the two section variables instantiated by
   association lists computed outside Coq; a missing entry is [false]. *)
Definition table_fn (t : list ((ustring * ustring) * bool)) (a b : ustring) : bool :=
  match find (fun e => ustr_eqb (fst (fst e)) a && ustr_eqb (snd (fst e)) b) t with
  | Some e => snd e
  | None => false
  end.

Definition show_bool (b : bool) : string := if b then "true"%string else "false"%string.
Definition show_verdict (o : option bool) : string :=
  match o with Some b => show_bool b | None => "undef"%string end.
