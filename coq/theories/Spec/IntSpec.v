(* Specification vocabulary for C10 (reading DESIGN 3.4): the integer ranges of
   Rust's scalar types, the documented integer formats read as ranges, and what
   it means for an integer to be admitted by schemars' NumberValidation.
   Independent of the code's own table. *)
From Coq Require Import String ZArith List Bool Reals.
From Flocq Require Import Core BinarySingleNaN Binary Bits.
From Typify Require Import Algo.IntSelect Algo.IntSelectZ.
Import ListNotations.
Open Scope string_scope.
Open Scope Z_scope.

Definition ty_range (ty : string) : option (Z * Z) :=
  if String.eqb ty "i8" then Some (-128, 127)
  else if String.eqb ty "u8" then Some (0, 255)
  else if String.eqb ty "i16" then Some (-32768, 32767)
  else if String.eqb ty "u16" then Some (0, 65535)
  else if String.eqb ty "i32" then Some (-2147483648, 2147483647)
  else if String.eqb ty "u32" then Some (0, 4294967295)
  else if String.eqb ty "i64" then Some (-9223372036854775808, 9223372036854775807)
  else if String.eqb ty "u64" then Some (0, 18446744073709551615)
  else if String.eqb ty "::std::num::NonZeroU8" then Some (1, 255)
  else if String.eqb ty "::std::num::NonZeroU16" then Some (1, 65535)
  else if String.eqb ty "::std::num::NonZeroU32" then Some (1, 4294967295)
  else if String.eqb ty "::std::num::NonZeroU64" then Some (1, 18446744073709551615)
  else None.

Definition in_ty (ty : string) (n : Z) : Prop :=
  match ty_range ty with Some (lo, hi) => lo <= n <= hi | None => False end.

(* documented integer formats, read as ranges; anything else: the i64 fallback *)
Definition fmt_type (f : string) : option string :=
  if String.eqb f "int8" then Some "i8"
  else if String.eqb f "uint8" then Some "u8"
  else if String.eqb f "int16" then Some "i16"
  else if String.eqb f "uint16" then Some "u16"
  else if String.eqb f "int" then Some "i32"
  else if String.eqb f "int32" then Some "i32"
  else if String.eqb f "uint" then Some "u32"
  else if String.eqb f "uint32" then Some "u32"
  else if String.eqb f "int64" then Some "i64"
  else if String.eqb f "uint64" then Some "u64"
  else None.

Definition base_ty (f : option string) : string :=
  match f with
  | Some s => match fmt_type s with Some t => t | None => "i64" end
  | None => "i64"
  end.

Definition in_base (f : option string) (n : Z) : Prop := in_ty (base_ty f) n.

(* a double that is finite and has exactly the integer value z *)
Definition exact (x : f64) (z : Z) : Prop :=
  is_finite 53 1024 x = true /\ B2R 53 1024 x = IZR z.

Definition fval (x : f64) : R := B2R 53 1024 x.

(* n is admitted by the numeric keywords (exact real comparisons against the
   stored doubles; multipleOf as divisibility) *)
Definition admitted (b : bounds) (n : Z) : Prop :=
  (forall m, b_min b = Some m -> (fval m <= IZR n)%R) /\
  (forall m, b_max b = Some m -> (IZR n <= fval m)%R) /\
  (forall m, b_emin b = Some m -> (fval m < IZR n)%R) /\
  (forall m, b_emax b = Some m -> (IZR n < fval m)%R) /\
  (forall m, b_mult b = Some m -> exists k : Z, IZR n = (IZR k * fval m)%R).

(* bounds on which every float operation of convert_integer is exact or
   collapses onto a table constant: integral doubles of magnitude <= 2^53, or one
   of the 64-bit limit constants the boundary lattice collapses onto *)
Definition safeZ (z : Z) : Prop :=
  Z.abs z <= 2^53 \/ z = - 2^63 \/ z = 2^63 \/ z = 2^64.

Definition safe (x : f64) : Prop := exists z, exact x z /\ safeZ z.

Definition osafe (o : option f64) : Prop := forall x, o = Some x -> safe x.

Definition safe_bounds (b : bounds) : Prop :=
  osafe (b_min b) /\ osafe (b_max b) /\ osafe (b_emin b) /\ osafe (b_emax b).

(* a numeric default the integer-level model can speak about: a finite double
   with an integer value (any magnitude: it is only ever compared) *)
Definition safe_default (d : dflt) : Prop :=
  forall v, d = Some (Some v) -> exists z, exact v z.

(* ---- integer-level vocabulary (model Algo/IntSelectZ.v) ---- *)

(* n is admitted by the four bound keywords.  `multipleOf` can only remove
   further integers, so every statement "admitted => representable" proved for
   this predicate holds a fortiori for the admitted set with multipleOf. *)
Definition ole (o : option Z) (n : Z) : Prop := forall m, o = Some m -> m <= n.
Definition oge (o : option Z) (n : Z) : Prop := forall m, o = Some m -> n <= m.
Definition olt (o : option Z) (n : Z) : Prop := forall m, o = Some m -> m < n.
Definition ogt (o : option Z) (n : Z) : Prop := forall m, o = Some m -> n < m.

Definition admittedZ (b : zbounds) (n : Z) : Prop :=
  ole (zb_min b) n /\ oge (zb_max b) n /\ olt (zb_emin b) n /\ ogt (zb_emax b) n.

Definition admittedZb (b : zbounds) (n : Z) : bool :=
  match zb_min b with Some m => m <=? n | None => true end &&
  match zb_max b with Some m => n <=? m | None => true end &&
  match zb_emin b with Some m => m <? n | None => true end &&
  match zb_emax b with Some m => n <? m | None => true end.

(* the four types that cannot hold 0 *)
Definition nonzero_ty (ty : string) : Prop :=
  In ty ["::std::num::NonZeroU8"; "::std::num::NonZeroU16"; "::std::num::NonZeroU32"; "::std::num::NonZeroU64"].

Definition oZ_eqb (o : option Z) (z : Z) : bool := match o with Some m => m =? z | None => false end.

(* Finding C10-F6, exactly: `format: uint64`, normalised bounds (-2^63, 2^63) -
   the doubles of i64::MIN and of i64::MAX, which rounds up - and 2^63 itself
   admitted (the upper bound is inclusive).  convert_integer matches the int64
   row and answers i64, which cannot hold 2^63. *)
Definition known_F6b (fmt : option string) (b : zbounds) : bool :=
  match fmt with Some f => String.eqb f "uint64" | None => false end
  && oZ_eqb (znorm_min b) (- 2^63) && oZ_eqb (znorm_max b) (2^63) && admittedZb b (2^63).

Definition Known_F6 (fmt : option string) (b : zbounds) : Prop :=
  fmt = Some "uint64" /\ znorm_min b = Some (- 2^63) /\ znorm_max b = Some (2^63) /\ admittedZ b (2^63).

Definition no_bounds : zbounds :=
  {| zb_min := None; zb_max := None; zb_emin := None; zb_emax := None; zb_mult := false |}.
