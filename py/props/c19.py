"""C19 — every generated type is public and carries the promised trait surface.

Deciding method: Coq theorems (Props/C19.v) over `Algo/Emit.v`, a model of the
derive-set computation / visibility / surface impls of TypeEntry::output*, whose
every literal comes from `Gen/DeriveTable.v`, REGENERATED from type_entry.rs by
the syn translator `c19 tables` on every run.  Tie: (K4) the model is evaluated
in Coq on the IR dump of every module of a compiled world and compared with the
syn scan of the code typify really emitted (derive lists in order, item / field
visibility, validating Deserialize impl, From<&Self> impl); (K6) the property's
own quantifier text is evaluated on the implementation: one trait-bound
assertion per (type, clause) is compiled against the generated module by rustc,
with an oracle that reads only the emitted code (syn scan).
"""
import glob
import json
import os
import random
import re

import tocoq
import vlib
import world

THEOREMS = [
    "C19_surface_base",
    "C19_simple_enum_surface",
    "C19_string_newtype_surface",
    "C19_builtin_derives_derivable",
    "C19_extension_derives_derivable",
    "C19_known_long_array_fails",
    "C19_known_long_tuple_fails",
    "C19_cmp_hash_never_on_float",
    "C19_extra_derives_everywhere",
    "C19_type_derives_everywhere",
    "C19_deserialize_not_twice",
    "C19_field_visibility",
    "C19_empty_enum_is_simple",
    "C19_derives_ignore_tagging",
    "C19_unnamed_emit_nothing",
    "C19_derives_sorted_nodup",
    "C19_expected_impls_cover_surface",
    "C19_no_comparison_derives_over_settings_native",
    "C19_comparison_derives_only_over_string",
]

MUT = os.environ.get("C19_MUTATE", "")

FIXTURE_DIR = os.path.join(vlib.REPO, "typify", "tests", "schemas")
# the settings typify's own fixture test uses (typify/tests/schemas.rs)
FIXTURE_SETTINGS = {
    "struct_builder": True,
    "replace": {"HandGeneratedType": {"type": "String", "impls": ["Display"]}},
    "patch": {"TypeThatNeedsMoreDerives": {"rename": "TypeThatHasMoreDerives", "derives": ["Eq", "PartialEq"]}},
    "convert": [{"schema": {"enum": [1, "one"]}, "type": "serde_json::Value", "impls": ["Display"]}],
    "crates": [{"name": "std", "version": "1.0.0"}],
}

BASE_BOUND = ("::std::fmt::Debug + ::std::clone::Clone + ::serde::Serialize + ::serde::de::DeserializeOwned "
              "+ for<'a> ::std::convert::From<&'a T>")
ENUM_BOUND = "::std::marker::Copy + ::std::cmp::Eq + ::std::cmp::Ord + ::std::hash::Hash"
STR_BOUND = "::std::cmp::Eq + ::std::cmp::Ord + ::std::hash::Hash"
MODEL_TRAITS = {"Debug", "Clone", "::serde::Serialize", "::serde::Deserialize", "Copy", "PartialEq", "Eq",
                "PartialOrd", "Ord", "Hash"}
DERIVE_ERROR_CODES = {"E0277", "E0204", "E0369", "E0119", "E0184"}


# --------------------------------------------------------------------------
# schemas: one definition per kind of generated item
# --------------------------------------------------------------------------
def obj(props, required=(), **kw):
    s = {"type": "object", "properties": props}
    if required:
        s["required"] = list(required)
    s.update(kw)
    return s


def tagobj(tag, val, extra=None, req=None):
    p = {tag: {"type": "string", "enum": [val]}}
    p.update(extra or {})
    return {"type": "object", "properties": p, "required": [tag] + list(req or [])}


NUM = {"type": "number"}
INT = {"type": "integer"}
STR = {"type": "string"}

# name -> (schema, tags).  tags: "float" = a float somewhere by value/through containers,
# "intonly" = only ints/strings/bools (every comparison trait is derivable)
PIECES = {
    "IntStruct": (obj({"a": INT, "b": STR, "c": {"type": "boolean"}}, ["a"]), {"intonly", "struct"}),
    "FloatStruct": (obj({"x": NUM, "y": {"type": "number", "format": "float"}}, ["x"]), {"float", "struct"}),
    "DeepFloatStruct": (obj({"v": {"type": "array", "items": NUM},
                             "o": {"type": ["number", "null"]},
                             "m": {"type": "object", "additionalProperties": NUM},
                             "t": {"type": "array", "items": [NUM, STR], "minItems": 2, "maxItems": 2}},
                            ["v", "m", "t"]), {"float", "struct"}),
    "EmptyStruct": (obj({}, additionalProperties=False), {"intonly", "struct"}),
    "DenyStruct": (obj({"a": INT}, ["a"], additionalProperties=False), {"intonly", "struct"}),
    "DefaultsStruct": (obj({"a": {"type": "integer", "default": 3}, "s": {"type": "string", "default": "x"}}),
                       {"intonly", "struct"}),
    "SimpleEnum": ({"type": "string", "enum": ["a", "b", "c"]}, {"simple"}),
    "OneVariant": ({"type": "string", "enum": ["only"]}, {"simple"}),
    "DefaultEnum": ({"type": "string", "enum": ["red", "green"], "default": "green"}, {"simple"}),
    "ExternalEnum": ({"oneOf": [obj({"A": NUM}, ["A"], additionalProperties=False),
                                obj({"B": obj({"q": STR})}, ["B"], additionalProperties=False),
                                {"type": "string", "enum": ["C"]}]}, {"float", "enum"}),
    "InternalEnum": ({"oneOf": [obj({"kind": {"type": "string", "enum": ["x"]}, "v": NUM}, ["kind", "v"]),
                                obj({"kind": {"type": "string", "enum": ["y"]}, "w": STR}, ["kind"])]},
                     {"float", "enum"}),
    "AdjacentEnum": ({"oneOf": [obj({"t": {"type": "string", "enum": ["x"]}, "c": NUM}, ["t", "c"]),
                                obj({"t": {"type": "string", "enum": ["y"]}, "c": {"type": "array", "items": STR}},
                                    ["t", "c"])]}, {"float", "enum"}),
    # data-less enums in every tagging typify can produce (the K6 clause `Copy + Eq + Ord + Hash` applies to all):
    # internally tagged, unit-only: oneOf of objects holding only a required constant tag property
    "InternalUnitEnum": ({"oneOf": [tagobj("kind", "circle"), tagobj("kind", "square")]}, {"simple", "tagged-unit"}),
    "InternalUnitDenyEnum": ({"oneOf": [dict(tagobj("kind", "a"), additionalProperties=False),
                                        dict(tagobj("kind", "b"), additionalProperties=False),
                                        dict(tagobj("kind", "c d"), additionalProperties=False)]},
                             {"simple", "tagged-unit"}),
    "InternalConstEnum": ({"oneOf": [obj({"t": {"const": "x"}}, ["t"]), obj({"t": {"const": "y"}}, ["t"])]},
                          {"simple", "tagged-unit"}),
    # adjacently tagged, unit-only: the content property is null in every variant
    "AdjacentUnitEnum": ({"oneOf": [tagobj("t", "a", {"c": {"type": "null"}}, ["c"]),
                                    tagobj("t", "b", {"c": {"type": "null"}}, ["c"])]}, {"simple", "tagged-unit"}),
    # externally tagged from const / oneOf-of-single-value enums / described variants / renames
    "ExternalConstEnum": ({"oneOf": [{"const": "x"}, {"const": "y"}]}, {"simple"}),
    "OneOfDescEnum": ({"oneOf": [{"type": "string", "enum": ["a"], "description": "first"},
                                 {"type": "string", "enum": ["b"], "description": "second"}]}, {"simple"}),
    "RenamedEnum": ({"type": "string", "enum": ["foo-bar", "Foo Baz", "1st", "a/b", "", "type", "Self"]}, {"simple"}),
    "NullableEnum": ({"type": ["string", "null"], "enum": ["a", "b", None]}, {"newtype"}),   # + inner simple enum
    # untagged: a data-less untagged enum is not reachable (a lone null becomes a unit newtype; the assert! at
    # output_enum allows one simple variant at most) - an untagged enum WITH a null variant beside data:
    "UntaggedWithNull": ({"oneOf": [{"type": "null"}, obj({"a": INT}, ["a"]), {"type": "boolean"}]}, {"enum"}),
    "UntaggedEnum": ({"oneOf": [NUM, STR]}, {"float", "enum"}),
    "UntaggedObjects": ({"anyOf": [obj({"p": INT}, ["p"]), obj({"q": STR}, ["q"])]}, {"enum"}),
    "StrNewtype": (STR, {"strnt"}),
    "MaxLenStr": ({"type": "string", "maxLength": 5}, {"strnt", "constrained"}),
    "MinLenStr": ({"type": "string", "minLength": 2}, {"strnt", "constrained"}),
    "PatternStr": ({"type": "string", "pattern": "^[a-z]+$"}, {"strnt", "constrained"}),
    "DenyStr": ({"type": "string", "not": {"enum": ["bad", "worse"]}}, {"strnt", "constrained"}),
    # boundary / degenerate constraint values of every constrained-newtype kind
    "Min0Str": ({"type": "string", "minLength": 0}, {"strnt", "constrained", "boundary"}),
    "Max0Str": ({"type": "string", "maxLength": 0}, {"strnt", "constrained", "boundary"}),
    "Min0Max0Str": ({"type": "string", "minLength": 0, "maxLength": 0}, {"strnt", "constrained", "boundary"}),
    "MinEqMaxStr": ({"type": "string", "minLength": 3, "maxLength": 3}, {"strnt", "constrained", "boundary"}),
    "MinGtMaxStr": ({"type": "string", "minLength": 5, "maxLength": 2}, {"strnt", "constrained", "boundary"}),
    "HugeMaxStr": ({"type": "string", "maxLength": 4294967295}, {"strnt", "constrained", "boundary"}),
    "Min1Str": ({"type": "string", "minLength": 1}, {"strnt", "constrained", "boundary"}),
    "Min0Max5Str": ({"type": "string", "minLength": 0, "maxLength": 5}, {"strnt", "constrained", "boundary"}),
    "EmptyPatternStr": ({"type": "string", "pattern": ""}, {"strnt", "constrained", "boundary"}),
    "DotStarPatternStr": ({"type": "string", "pattern": ".*"}, {"strnt", "constrained", "boundary"}),
    "AnchorPatternStr": ({"type": "string", "pattern": "^$"}, {"strnt", "constrained", "boundary"}),
    "Min0PatternStr": ({"type": "string", "minLength": 0, "pattern": "a"}, {"strnt", "constrained", "boundary"}),
    "UnicodePatternStr": ({"type": "string", "pattern": "^[\u00e9\u4e2d]+$"}, {"strnt", "constrained", "boundary"}),
    "DenyOneStr": ({"type": "string", "not": {"enum": ["x"]}}, {"strnt", "constrained", "boundary"}),
    "DenyEmptyStrValue": ({"type": "string", "not": {"enum": [""]}}, {"strnt", "constrained", "boundary"}),
    "DenyMinStr": ({"type": "string", "minLength": 2, "not": {"enum": ["xx"]}}, {"strnt", "constrained", "boundary"}),
    "DenyIntMany": ({"type": "integer", "not": {"enum": [0, 1, -1]}}, {"newtype", "constrained", "boundary"}),
    "EnumIntOne": ({"type": "integer", "enum": [7]}, {"newtype", "constrained", "boundary"}),
    "EnumIntDup": ({"type": "integer", "enum": [1, 1]}, {"newtype", "constrained", "boundary"}),
    "EnumIntNeg": ({"type": "integer", "enum": [-1, 0]}, {"newtype", "constrained", "boundary"}),
    "EnumFloatOne": ({"type": "number", "enum": [0.5]}, {"float", "newtype", "constrained", "boundary"}),
    "EnumBool": ({"type": "boolean", "enum": [True]}, {"newtype", "boundary"}),
    "Min0Uuid": ({"type": "string", "minLength": 0, "format": "uuid"}, {"newtype", "native", "boundary"}),
    # the same degenerate constraints on anonymous (property) positions
    "BoundaryPropsStruct": (obj({"a": {"type": "string", "minLength": 0}, "b": {"type": "string", "maxLength": 0},
                                 "c": {"type": "string", "pattern": ""}, "d": {"type": "string", "not": {"enum": [""]}},
                                 "e": {"type": "integer", "enum": [7]}, "f": {"type": "string", "minLength": 4, "maxLength": 2}},
                                ["a", "e"]), {"struct", "boundary"}),
    "IntNewtype": (INT, {"newtype"}),
    "U8Newtype": ({"type": "integer", "format": "uint8"}, {"newtype"}),
    "BoolNewtype": ({"type": "boolean"}, {"newtype"}),
    "FloatNewtype": (NUM, {"float", "newtype"}),
    "F32Newtype": ({"type": "number", "format": "float"}, {"float", "newtype"}),
    "EnumInt": ({"type": "integer", "enum": [1, 2, 3]}, {"newtype", "constrained"}),
    "EnumFloat": ({"type": "number", "enum": [1.5, 2.5]}, {"float", "newtype", "constrained"}),
    "DenyInt": ({"type": "integer", "not": {"enum": [0]}}, {"newtype", "constrained"}),
    "UuidNewtype": ({"type": "string", "format": "uuid"}, {"newtype", "native"}),
    "DateNewtype": ({"type": "string", "format": "date"}, {"newtype", "native"}),
    "DateTimeNewtype": ({"type": "string", "format": "date-time"}, {"newtype", "native"}),
    "IpNewtype": ({"type": "string", "format": "ip"}, {"newtype", "native"}),
    "Ipv4Newtype": ({"type": "string", "format": "ipv4"}, {"newtype", "native"}),
    "Ipv6Newtype": ({"type": "string", "format": "ipv6"}, {"newtype", "native"}),
    "VecFloatNewtype": ({"type": "array", "items": NUM}, {"float", "newtype"}),
    "VecStrNewtype": ({"type": "array", "items": STR}, {"newtype"}),
    "SetNewtype": ({"type": "array", "items": STR, "uniqueItems": True}, {"newtype"}),
    "MapNewtype": ({"type": "object", "additionalProperties": STR}, {"newtype"}),
    "MapFloatNewtype": ({"type": "object", "additionalProperties": NUM}, {"float", "newtype"}),
    "TupleNewtype": ({"type": "array", "items": [NUM, STR], "minItems": 2, "maxItems": 2}, {"float", "newtype"}),
    "ArrayNewtype": ({"type": "array", "items": INT, "minItems": 3, "maxItems": 3}, {"newtype"}),
    "JsonNewtype": ({}, {"newtype"}),
    "OptFloatNewtype": ({"type": ["number", "null"]}, {"float", "newtype"}),
    "Recursive": (obj({"next": {"$ref": "#/definitions/Recursive"}, "v": NUM}), {"float", "struct"}),
}

# ---- struct members of every IR kind x {required, optional, default}: every `default` /
# `skip_serializing_if` path generate_serde_attr can emit sits inside a type whose bound assertion is compiled
KEYPAT = {"type": "string", "pattern": "^[a-z]+$"}
MEMBER_TYPES = {
    "map_str_any": {"type": "object", "additionalProperties": True},
    "map_str_any2": {"type": "object"},
    "map_ckey_any": {"type": "object", "propertyNames": KEYPAT},
    "map_enumkey_any": {"type": "object", "propertyNames": {"type": "string", "enum": ["a", "b"]}},
    "map_uuidkey_any": {"type": "object", "propertyNames": {"type": "string", "format": "uuid"}},
    "map_refkey_any": {"type": "object", "propertyNames": {"$ref": "#/definitions/KeyType"}},
    "map_str_typed": {"type": "object", "additionalProperties": {"type": "integer"}},
    "map_ckey_typed": {"type": "object", "propertyNames": KEYPAT, "additionalProperties": {"type": "number"}},
    "map_refkey_typed": {"type": "object", "propertyNames": {"$ref": "#/definitions/KeyType"},
                         "additionalProperties": {"type": "string"}},
    "set_str": {"type": "array", "items": {"type": "string"}, "uniqueItems": True},
    "vec_int": {"type": "array", "items": {"type": "integer"}},
    "arr3": {"type": "array", "items": {"type": "integer"}, "minItems": 3, "maxItems": 3},
    "arr32": {"type": "array", "items": {"type": "integer"}, "minItems": 32, "maxItems": 32},   # 33: finding C19-F1
    "tuple2": {"type": "array", "items": [{"type": "integer"}, {"type": "string"}], "minItems": 2, "maxItems": 2},
    "optopt": {"oneOf": [{"type": "null"}, {"type": ["integer", "null"]}]},
    "nullable": {"type": ["string", "null"]},
    "uuid": {"type": "string", "format": "uuid"},
    "datetime": {"type": "string", "format": "date-time"},
    "ip": {"type": "string", "format": "ip"},
    "unit": {"type": "null"},
    "anyv": {},
    "boolv": {"type": "boolean"},
    "f": {"type": "number"},
    "nz": {"type": "integer", "minimum": 1, "format": "uint32"},
    "senum": {"type": "string", "enum": ["x", "y"]},
    "cstr": {"type": "string", "maxLength": 3},
    "nested": {"type": "object", "properties": {"z": {"type": "integer"}}},
    "refnt": {"$ref": "#/definitions/KeyType"},
}
MEMBER_DEFAULTS = {
    "m1": {"type": "object", "additionalProperties": {"type": "integer"}, "default": {"a": 1}},
    "m2": {"type": "object", "propertyNames": KEYPAT, "default": {}},
    "m3": {"type": "object", "default": {"k": 1}},
    "m4": {"type": "object", "propertyNames": KEYPAT, "default": {"abc": 1}},
    "v": {"type": "array", "items": {"type": "integer"}, "default": [1, 2]},
    "s": {"type": "array", "items": {"type": "string"}, "uniqueItems": True, "default": []},
    "s2": {"type": "array", "items": {"type": "string"}, "uniqueItems": True, "default": ["a"]},
    "u": {"type": "string", "format": "uuid", "default": "00000000-0000-0000-0000-000000000000"},
    "b": {"type": "boolean", "default": True},
    "f": {"type": "number", "default": 1.5},
    "o2": {"type": ["integer", "null"], "default": 4},
    "t": {"type": "array", "items": [{"type": "integer"}, {"type": "string"}], "minItems": 2, "maxItems": 2,
          "default": [1, "a"]},
    "a3": {"type": "array", "items": {"type": "integer"}, "minItems": 3, "maxItems": 3, "default": [1, 2, 3]},
    "e": {"type": "string", "enum": ["x", "y"], "default": "y"},
    "any": {"default": {"k": [1, 2]}},
    "cs": {"type": "string", "maxLength": 3, "default": "ab"},
    "nested": {"type": "object", "properties": {"z": {"type": "integer"}}, "default": {"z": 1}},
    "unit": {"type": "null", "default": None},
}
PIECES["KeyType"] = (KEYPAT, {"strnt", "constrained"})
PIECES["MembersReq"] = (obj(dict(MEMBER_TYPES), sorted(MEMBER_TYPES)), {"struct", "members", "float"})
PIECES["MembersOpt"] = (obj(dict(MEMBER_TYPES, boxed={"$ref": "#/definitions/MembersOpt"})), {"struct", "members", "float"})
PIECES["MembersHalf"] = (obj(dict(MEMBER_TYPES), sorted(MEMBER_TYPES)[::2]), {"struct", "members", "float"})
PIECES["MembersDefault"] = (obj(dict(MEMBER_DEFAULTS)), {"struct", "members", "float"})
# one struct per optional map-member shape (minimal witnesses)
for _k in ("map_str_any", "map_ckey_any", "map_enumkey_any", "map_uuidkey_any", "map_refkey_any", "map_str_typed",
           "map_ckey_typed", "map_refkey_typed"):
    PIECES["Opt_" + _k] = (obj({"annotations": MEMBER_TYPES[_k]}), {"struct", "members"})

# degenerate allow / deny lists, re-measured on the current tree: every shape that GENERATES (typed inner /
# both-typed empty deny lists, empty allow lists, single values of every scalar / array / object type, a deny
# list equal to the whole type, int-in-number ...).  Shapes typify rejects (untyped or outer-typed empty deny
# list, `type: string, enum: []`, untyped `enum: []`, mixed-type deny, outer-typed null/array/object deny, not-const)
# are not in the world.
DEGENERATE = {
    'DgDenyEmptyInnerInteger': {'not': {'enum': [], 'type': 'integer'}},
    'DgDenyEmptyBothInteger': {'not': {'enum': [], 'type': 'integer'}, 'type': 'integer'},
    'DgAllowEmptyInteger': {'type': 'integer', 'enum': []},
    'DgDenyEmptyInnerNumber': {'not': {'enum': [], 'type': 'number'}},
    'DgDenyEmptyBothNumber': {'not': {'enum': [], 'type': 'number'}, 'type': 'number'},
    'DgAllowEmptyNumber': {'type': 'number', 'enum': []},
    'DgDenyEmptyInnerString': {'not': {'enum': [], 'type': 'string'}},
    'DgDenyEmptyBothString': {'not': {'enum': [], 'type': 'string'}, 'type': 'string'},
    'DgDenyEmptyInnerBoolean': {'not': {'enum': [], 'type': 'boolean'}},
    'DgDenyEmptyBothBoolean': {'not': {'enum': [], 'type': 'boolean'}, 'type': 'boolean'},
    'DgAllowEmptyBoolean': {'type': 'boolean', 'enum': []},
    'DgDenyEmptyInnerNull': {'not': {'enum': [], 'type': 'null'}},
    'DgDenyEmptyBothNull': {'not': {'enum': [], 'type': 'null'}, 'type': 'null'},
    'DgAllowEmptyNull': {'type': 'null', 'enum': []},
    'DgDenyEmptyInnerArray': {'not': {'enum': [], 'type': 'array'}},
    'DgDenyEmptyBothArray': {'not': {'enum': [], 'type': 'array'}, 'type': 'array'},
    'DgAllowEmptyArray': {'type': 'array', 'enum': []},
    'DgDenyEmptyInnerObject': {'not': {'enum': [], 'type': 'object'}},
    'DgDenyEmptyBothObject': {'not': {'enum': [], 'type': 'object'}, 'type': 'object'},
    'DgAllowEmptyObject': {'type': 'object', 'enum': []},
    'DgAllowOneInteger': {'type': 'integer', 'enum': [5]},
    'DgDenyOneInnerInteger': {'not': {'enum': [5], 'type': 'integer'}},
    'DgDenyOneOuterInteger': {'not': {'enum': [5]}, 'type': 'integer'},
    'DgAllowOneNumber': {'type': 'number', 'enum': [1.5]},
    'DgDenyOneInnerNumber': {'not': {'enum': [1.5], 'type': 'number'}},
    'DgDenyOneOuterNumber': {'not': {'enum': [1.5]}, 'type': 'number'},
    'DgAllowOneString': {'type': 'string', 'enum': ['x']},
    'DgDenyOneInnerString': {'not': {'enum': ['x'], 'type': 'string'}},
    'DgDenyOneOuterString': {'not': {'enum': ['x']}, 'type': 'string'},
    'DgAllowOneBoolean': {'type': 'boolean', 'enum': [True]},
    'DgDenyOneInnerBoolean': {'not': {'enum': [True], 'type': 'boolean'}},
    'DgDenyOneOuterBoolean': {'not': {'enum': [True]}, 'type': 'boolean'},
    'DgAllowOneNull': {'type': 'null', 'enum': [None]},
    'DgDenyOneInnerNull': {'not': {'enum': [None], 'type': 'null'}},
    'DgAllowOneArray': {'type': 'array', 'enum': [[1]]},
    'DgDenyOneInnerArray': {'not': {'enum': [[1]], 'type': 'array'}},
    'DgAllowOneObject': {'type': 'object', 'enum': [{'a': 1}]},
    'DgDenyOneInnerObject': {'not': {'enum': [{'a': 1}], 'type': 'object'}},
    'DgDenyAllBoolInner': {'not': {'enum': [True, False], 'type': 'boolean'}},
    'DgDenyAllBoolOuter': {'not': {'enum': [True, False]}, 'type': 'boolean'},
    'DgAllowAllBool': {'type': 'boolean', 'enum': [True, False]},
    'DgDenyIntInNumber': {'not': {'enum': [1]}, 'type': 'number'},
    'DgDenyFloatInInteger': {'not': {'enum': [1.5]}, 'type': 'integer'},
    'DgAllowUntypedOneInt': {'enum': [3]},
    'DgConstInt': {'const': 3},
    'DgConstNull': {'const': None},
}
for _n, _s in DEGENERATE.items():
    PIECES[_n] = (_s, {"boundary", "degenerate", "constrained"})

# user-requested derives that must compile on the given piece
SAFE_PATCH = {
    "IntStruct": [["PartialEq"], ["PartialEq", "Eq"], ["PartialEq", "Eq", "Hash"],
                  ["PartialEq", "Eq", "PartialOrd", "Ord"], ["Default"]],
    "FloatStruct": [["PartialEq"], ["PartialEq", "PartialOrd"]],
    "DeepFloatStruct": [["PartialEq"]],
    "EmptyStruct": [["PartialEq", "Eq", "Hash", "Copy"]],
    "DenyStruct": [["Copy"], ["PartialEq", "Eq", "PartialOrd", "Ord", "Hash", "Copy"]],
    "SimpleEnum": [["PartialEq"], ["Hash", "Eq"]],          # already built in: de-duplication
    "InternalUnitEnum": [["PartialEq"], ["Hash", "Ord"]],
    "AdjacentUnitEnum": [["Hash"]],
    "RenamedEnum": [["Eq", "PartialEq"]],
    "StrNewtype": [["Hash"], ["Default"]],
    "MaxLenStr": [["PartialEq", "Ord"]],
    "IntNewtype": [["PartialEq", "Eq", "Hash", "Copy"], ["Default"]],
    "FloatNewtype": [["PartialEq", "PartialOrd", "Copy"], ["Default"]],
    "EnumInt": [["PartialEq", "Eq", "Copy"]],
    "UuidNewtype": [["PartialEq", "Eq", "Hash", "PartialOrd", "Ord", "Copy"]],
    "DateTimeNewtype": [["PartialEq", "Eq", "Hash", "Copy"]],
    "IpNewtype": [["PartialEq", "Eq", "Hash", "Copy", "PartialOrd", "Ord"]],
    "VecStrNewtype": [["PartialEq", "Eq", "Hash", "PartialOrd", "Ord"]],
    "MapNewtype": [["PartialEq", "Eq"]],
    "SetNewtype": [["PartialEq", "Eq"], ["Hash"], ["PartialEq", "Eq", "PartialOrd", "Ord"]],
    "JsonNewtype": [["PartialEq", "Eq"]],
    "ExternalEnum": [["PartialEq"]],
    "UntaggedEnum": [["PartialEq", "PartialOrd"]],
    "InternalEnum": [["PartialEq"]],
    "ArrayNewtype": [["PartialEq", "Eq", "Hash", "Copy", "PartialOrd", "Ord"]],
    "TupleNewtype": [["PartialEq", "PartialOrd"]],
    "OptFloatNewtype": [["PartialEq", "PartialOrd", "Copy"]],
}

# user-requested derives rustc must REJECT: validates `derivable` (model) against rustc.
# (piece, per-type derives)
NEGATIVE = [
    ("FloatStruct", ["PartialEq", "Eq"]),
    ("FloatStruct", ["Hash"]),
    ("DeepFloatStruct", ["PartialEq", "Eq"]),
    ("IntStruct", ["Copy"]),
    ("IntStruct", ["Ord"]),                 # supertraits Eq + PartialOrd missing
    ("IntStruct", ["Eq"]),                  # supertrait PartialEq missing
    ("FloatNewtype", ["PartialEq", "Eq"]),
    ("FloatNewtype", ["Hash"]),
    ("OptFloatNewtype", ["PartialEq", "Eq", "PartialOrd", "Ord"]),
    ("VecFloatNewtype", ["PartialEq", "Eq"]),
    ("VecStrNewtype", ["Copy"]),
    ("MapNewtype", ["Hash"]),
    ("MapFloatNewtype", ["PartialEq", "Eq"]),
    ("SetNewtype", ["Copy"]),
    ("StrNewtype", ["Copy"]),
    ("ExternalEnum", ["PartialEq", "Eq"]),
    ("UntaggedEnum", ["Hash"]),
    ("TupleNewtype", ["PartialEq", "Eq"]),
    ("EnumFloat", ["PartialEq", "Eq"]),
    ("Recursive", ["PartialEq", "Eq"]),
]


# ---- user types reached through conversions / replacements (IR: Native with the impls the SETTINGS list).
# The support module is a driver chunk inside `pub mod __drv` of the module, so the generated code names the
# types by the relative path `__drv::units::X` (no builder / defaults sub-module in these cases).
SUPPORT = r"""
pub mod units {
    // f64 wrapper: Debug, Clone, Default, PartialEq, PartialOrd, serde, Display, FromStr - NO Eq / Ord / Hash
    #[derive(Debug, Clone, Default, PartialEq, PartialOrd, ::serde::Serialize, ::serde::Deserialize)]
    pub struct Percent(pub f64);
    impl ::std::fmt::Display for Percent {
        fn fmt(&self, f: &mut ::std::fmt::Formatter<'_>) -> ::std::fmt::Result { write!(f, "{}", self.0) }
    }
    impl ::std::str::FromStr for Percent {
        type Err = ::std::num::ParseFloatError;
        fn from_str(s: &str) -> ::std::result::Result<Self, Self::Err> { Ok(Percent(s.parse()?)) }
    }
    // String wrapper: everything
    #[derive(Debug, Clone, Default, PartialEq, Eq, PartialOrd, Ord, Hash, ::serde::Serialize, ::serde::Deserialize)]
    pub struct Tag(pub ::std::string::String);
    impl ::std::fmt::Display for Tag {
        fn fmt(&self, f: &mut ::std::fmt::Formatter<'_>) -> ::std::fmt::Result { write!(f, "{}", self.0) }
    }
    impl ::std::str::FromStr for Tag {
        type Err = ::std::convert::Infallible;
        fn from_str(s: &str) -> ::std::result::Result<Self, Self::Err> { Ok(Tag(s.to_string())) }
    }
    // the bare minimum the base surface needs: Debug, Clone, serde - no comparison, no Display / FromStr / Default
    #[derive(Debug, Clone, ::serde::Serialize, ::serde::Deserialize)]
    pub struct Opaque(pub ::serde_json::Value);
}
"""
PERCENT = {"type": "number", "format": "percent"}
TAGS = {"type": "string", "format": "tag"}
OPAQUE = {"type": "string", "format": "opaque"}
IMPL_COMBOS = [[], ["Display"], ["FromStr"], ["Display", "FromStr"], ["Display", "FromStr", "Default"]]


def native_doc():
    return {"definitions": {
        "Opacity": PERCENT,                                     # named definition matching a conversion
        "OpacityAlias": {"$ref": "#/definitions/Opacity"},      # alias newtype over it
        "TagName": TAGS,
        "OpaqueThing": OPAQUE,
        "ReplacedPercent": {"type": "number"},                  # replaced by name
        "ReplacedAlias": {"$ref": "#/definitions/ReplacedPercent"},
        "Uses": obj({"req": PERCENT, "opt": PERCENT, "list": {"type": "array", "items": PERCENT},
                     "map": {"type": "object", "additionalProperties": PERCENT},
                     "keyed": {"type": "object", "propertyNames": TAGS, "additionalProperties": PERCENT},
                     "r": {"$ref": "#/definitions/Opacity"}, "rp": {"$ref": "#/definitions/ReplacedPercent"},
                     "tag": TAGS, "opaque": OPAQUE, "otag": TAGS}, ["req", "r", "tag", "opaque"]),
        "Payload": {"oneOf": [PERCENT, {"type": "boolean"}]},   # untagged enum with a native payload
        "TaggedPayload": {"oneOf": [obj({"P": PERCENT}, ["P"], additionalProperties=False),
                                    obj({"T": TAGS}, ["T"], additionalProperties=False)]},
        "TagOrOpaque": {"oneOf": [obj({"k": {"type": "string", "enum": ["t"]}, "v": TAGS}, ["k", "v"]),
                                  obj({"k": {"type": "string", "enum": ["o"]}, "v": OPAQUE}, ["k", "v"])]},
    }}


def native_cases():
    out = []
    for a in IMPL_COMBOS:
        for b in ([], ["Display", "FromStr"]):
            st = {"convert": [{"schema": PERCENT, "type": "__drv::units::Percent", "impls": a},
                              {"schema": TAGS, "type": "__drv::units::Tag", "impls": b},
                              {"schema": OPAQUE, "type": "__drv::units::Opaque", "impls": []}],
                  "replace": {"ReplacedPercent": {"type": "__drv::units::Percent", "impls": a}}}
            out.append(({"src": "settings-native:percent[%s]:tag[%s]" % ("+".join(a), "+".join(b)), "neg": False,
                         "model_derivable": True}, case_of(native_doc(), st)))
    # minimal witness: ONE named definition over a converted f64 wrapper declared Display + FromStr
    out.append(({"src": "settings-native:minimal-opacity", "neg": False, "model_derivable": True},
                case_of({"definitions": {"Opacity": PERCENT}},
                        {"convert": [{"schema": PERCENT, "type": "__drv::units::Percent", "impls": ["Display", "FromStr"]}]})))
    out.append(({"src": "settings-native:minimal-replaced-alias", "neg": False, "model_derivable": True},
                case_of({"definitions": {"ReplacedPercent": {"type": "number"},
                                         "ReplacedAlias": {"$ref": "#/definitions/ReplacedPercent"}}},
                        {"replace": {"ReplacedPercent": {"type": "__drv::units::Percent", "impls": ["Display", "FromStr"]}}})))
    return out


def doc_of(names, rename=None):
    defs = {}
    names = list(names)
    k = 0
    while k < len(names):       # close under $ref to other pieces
        for m in re.findall(r'#/definitions/([A-Za-z0-9_]+)"', json.dumps(PIECES[names[k]][0])):
            if m in PIECES and m not in names:
                names.append(m)
        k += 1
    for n in names:
        s = json.loads(json.dumps(PIECES[n][0]))
        defs[(rename or {}).get(n, n)] = s
    txt = json.dumps(defs)
    for a, b in (rename or {}).items():
        txt = txt.replace("#/definitions/%s\"" % a, "#/definitions/%s\"" % b)
    return {"definitions": json.loads(txt)}


def case_of(doc, settings=None):
    return {"settings": settings or {}, "steps": [{"op": "root", "doc": doc}]}


def gen_cases(ctx):
    """-> list of (meta, case).  meta: {"src":..., "neg": bool, "model_derivable": bool}"""
    rnd = random.Random(ctx.seed * 7919 + 19)
    out = []
    # 0. curated corpus (seeds / former failures)
    cdir = os.path.join(vlib.ROOT, "corpus", "C19")
    for p in sorted(glob.glob(os.path.join(cdir, "*.json"))):
        c = json.load(open(p))
        out.append(({"src": "corpus:" + os.path.basename(p), "neg": bool(c.get("expect_derive_error")),
                     "known": c.get("known"),
                     "model_derivable": bool(c.get("model_derivable", False))},
                    {"settings": c.get("settings", {}), "steps": c["steps"]}))
    # 0b. newtypes / members / payloads over user types from conversions and replacements
    out += native_cases()
    # 0c. every degenerate allow / deny list alone in a module (minimal witnesses)
    for n in DEGENERATE:
        out.append(({"src": "degenerate:" + n, "neg": False, "model_derivable": True}, case_of(doc_of([n]))))
    # 1. fixtures of the repository, under three settings
    fx = sorted(glob.glob(os.path.join(FIXTURE_DIR, "*.json")))
    for p in fx:
        doc = json.load(open(p))
        b = os.path.basename(p)
        out.append(({"src": "fixture:%s:suite-settings" % b, "neg": False, "model_derivable": False},
                    case_of(doc, FIXTURE_SETTINGS)))
        out.append(({"src": "fixture:%s:default" % b, "neg": False, "model_derivable": False},
                    case_of(doc, {k: v for k, v in FIXTURE_SETTINGS.items() if k not in ("struct_builder",)})))
        if ctx.tier == "thorough":
            s = dict(FIXTURE_SETTINGS)
            s["map_type"] = "::std::collections::BTreeMap"
            out.append(({"src": "fixture:%s:btreemap" % b, "neg": False, "model_derivable": False}, case_of(doc, s)))
    # 2. every kind, default settings / builder / global PartialEq
    allp = list(PIECES)
    out.append(({"src": "kinds:default", "neg": False, "model_derivable": True}, case_of(doc_of(allp))))
    # (quick: the degenerate allow/deny pieces are in kinds:default, alone in their own modules and in the random
    # modules; the settings variants of the whole world leave them out)
    core = allp if ctx.tier == "thorough" else [n for n in allp if "degenerate" not in PIECES[n][1]]
    out.append(({"src": "kinds:builder", "neg": False, "model_derivable": True},
                case_of(doc_of(core), {"struct_builder": True})))
    out.append(({"src": "kinds:PartialEq", "neg": False, "model_derivable": True},
                case_of(doc_of(core), {"derives": ["PartialEq"]})))
    # the two further whole-world modules only in thorough (quick: the same settings occur in the random modules
    # and on the member / boundary pieces below)
    if ctx.tier == "thorough":
        out.append(({"src": "kinds:PartialEq+Debug+Clone(dups)", "neg": False, "model_derivable": True},
                    case_of(doc_of(allp), {"derives": ["PartialEq", "Debug", "Clone", "PartialEq"], "struct_builder": True})))
        out.append(({"src": "kinds:btreemap", "neg": False, "model_derivable": True},
                    case_of(doc_of(allp), {"map_type": "::std::collections::BTreeMap"})))
    else:
        sub = [n for n in allp if PIECES[n][1] & {"members", "boundary", "tagged-unit"}]
        out.append(({"src": "members+boundary:PartialEq+Debug+Clone(dups)+builder", "neg": False, "model_derivable": True},
                    case_of(doc_of(sub), {"derives": ["PartialEq", "Debug", "Clone", "PartialEq"], "struct_builder": True})))
        out.append(({"src": "members+boundary:btreemap", "neg": False, "model_derivable": True},
                    case_of(doc_of(sub), {"map_type": "::std::collections::BTreeMap"})))
    # 3. every safe per-type patch, one module per (piece, derive list), plus a rename
    for n, lists in sorted(SAFE_PATCH.items()):
        for k, ds in enumerate(lists):
            st = {"patch": {n: {"derives": ds}}}
            if k % 2 == 1:
                st["patch"][n]["rename"] = n + "Renamed"
            names = [n] + [m for m in ("IntStruct", "SimpleEnum") if m != n]
            out.append(({"src": "patch:%s:%s" % (n, "+".join(ds)), "neg": False, "model_derivable": True},
                        case_of(doc_of(names), st)))
    # 4. negative: user derives rustc must reject (each alone in a module)
    for n, ds in NEGATIVE:
        out.append(({"src": "negative:%s:%s" % (n, "+".join(ds)), "neg": True, "model_derivable": True},
                    case_of(doc_of([n]), {"patch": {n: {"derives": ds}}})))
    # 5. random: subsets of pieces under random names, random settings drawn from the safe region
    n_rand = 24 if ctx.tier == "quick" else 160
    alias = ["Alpha", "Beta", "Gamma", "Delta", "Kappa", "Lambda", "Sigma", "Omega", "Rho", "Tau", "Phi", "Chi",
             "Psi", "Zeta", "Theta", "Iota", "Mu", "Nu", "Xi", "Pi", "Upsilon", "Eta"]
    for r in range(n_rand):
        k = rnd.randint(2, 9)
        names = rnd.sample(allp, k)
        mem = rnd.choice([n for n in allp if "members" in PIECES[n][1]])
        if mem not in names:
            names.append(mem)
        bnd = rnd.choice([n for n in allp if "boundary" in PIECES[n][1]])
        if bnd not in names:
            names.append(bnd)
        forced = rnd.choice(["InternalUnitEnum", "InternalUnitDenyEnum", "InternalConstEnum", "AdjacentUnitEnum",
                             "ExternalConstEnum", "RenamedEnum", "OneOfDescEnum", "NullableEnum"])
        if forced not in names:
            names.append(forced)
        rename = {}
        pool = list(alias)
        rnd.shuffle(pool)
        for n in names:
            if rnd.random() < 0.5:
                rename[n] = pool.pop() + rnd.choice(["", "Thing", "Kind", "Value"])
        st = {}
        if rnd.random() < 0.4:
            st["struct_builder"] = True
        if rnd.random() < 0.5:
            st["derives"] = rnd.choice([["PartialEq"], ["PartialEq", "Clone"], ["Debug"], ["PartialEq", "PartialEq"]])
        if rnd.random() < 0.3:
            st["map_type"] = "::std::collections::BTreeMap"
        patch = {}
        for n in names:
            if n in SAFE_PATCH and rnd.random() < 0.45:
                p = {"derives": rnd.choice(SAFE_PATCH[n])}
                if rnd.random() < 0.25:
                    p["rename"] = rename.get(n, n) + "P"
                patch[rename.get(n, n)] = p
        if patch:
            st["patch"] = patch
        out.append(({"src": "random:%d" % r, "neg": False, "model_derivable": True},
                    case_of(doc_of(names, rename), st)))
    return out


# --------------------------------------------------------------------------
# implementation side: what the emitted code says (syn scan), no model involved
# --------------------------------------------------------------------------
def squash(s):
    return re.sub(r"\s+", "", s or "")


def scan_view(gen):
    """[{name, kind, vis, derives, fields, de_impl, from_ref, dataless, strinner}] for the
    root-module struct / enum items of a rendered module."""
    scan = gen["render"]["scan"]
    impls = {}
    for im in scan.get("impls", []):
        if im["mod"] != "" or not im.get("trait"):
            continue
        impls.setdefault(squash(im["for"]), set()).add(squash(im["trait"]))
    out = []
    for it in scan.get("items", []):
        if it["mod"] != "" or it["kind"] not in ("struct", "enum"):
            continue
        n = it["name"]
        tr = impls.get(n, set())
        v = {"name": n, "vis": it["vis"], "derives": list(it.get("derives", [])), "inner": None,
             "de_impl": "::serde::Deserialize<'de>" in tr,
             "from_ref": ("::std::convert::From<&Self>" in tr) or ("::std::convert::From<&%s>" % n in tr),
             "dataless": False, "strinner": False,
             "tagging": ("untagged" if any(a[0] == "untagged" for a in it.get("serde", [])) else
                         "adjacent" if any(a[0] == "content" for a in it.get("serde", [])) else
                         "internal" if any(a[0] == "tag" for a in it.get("serde", [])) else "external")}
        if it["kind"] == "enum":
            v["kind"] = "enum"
            v["fields"] = []
            v["dataless"] = all(x["fields"]["k"] == "unit" for x in it["variants"])
        else:
            f = it["fields"]
            if f["k"] == "tuple":
                v["kind"] = "newtype"
                v["fields"] = [x["vis"] for x in f["fields"]]
                v["inner"] = squash(f["fields"][0]["ty"]) if len(f["fields"]) == 1 else None
                # `::std::string::String` is the spelling typify itself uses for a schema string
                # (type_ident of TypeEntryDetails::String); a user replacement type is not a plain string
                v["strinner"] = len(f["fields"]) == 1 and squash(f["fields"][0]["ty"]) == "::std::string::String"
            elif f["k"] == "named":
                v["kind"] = "struct"
                v["fields"] = [x["vis"] for x in f["fields"]]
            else:
                v["kind"] = "struct"
                v["fields"] = []
        out.append(v)
    return out


def impl_pairs(gen):
    """{(trait, self type)} of the root-module impls, whitespace removed."""
    return {(squash(im["trait"]), squash(im["for"])) for im in gen["render"]["scan"].get("impls", [])
            if im["mod"] == "" and im.get("trait")}


def missing_impls(mentry, sentry, pairs):
    """expected_impls (Coq, per kind) instantiated with the emitted item's name / inner type, minus what the
    scan found."""
    out = []
    for tr, fo in mentry.get("impls", []):
        sub = lambda x: x.replace("$T", sentry["name"]).replace("$I", sentry.get("inner") or "?")
        if (sub(tr), sub(fo)) not in pairs:
            out.append([sub(tr), sub(fo)])
    return out


def chunks_fn(i, gen):
    """K6: one driver chunk per (type, clause); a chunk rustc rejects is dropped and reported."""
    chunks = []
    try:
        items = scan_view(gen)
    except Exception:  # noqa
        return []
    if "__drv::units::" in squash(gen["render"].get("code", "")):
        chunks.append(("c19:support", SUPPORT, []))
    for k, v in enumerate(items):
        if v["vis"] != "pub":
            continue        # reported by the visibility scan; `super::T` would still resolve
        n = v["name"]
        chunks.append(("c19:base:%s" % n,
                       "#[allow(dead_code)]\npub fn c19_base_%d() {\n    fn a<T: %s>() {}\n    a::<super::%s>();\n}" % (
                           k, BASE_BOUND + (" + ::std::marker::Copy" if MUT == "real-assert-copy" else ""), n), []))
        if v["kind"] == "enum" and v["dataless"]:
            chunks.append(("c19:enum:%s" % n,
                           "#[allow(dead_code)]\npub fn c19_enum_%d() {\n    fn a<T: %s>() {}\n    a::<super::%s>();\n}" % (
                               k, ENUM_BOUND, n), []))
        if v["kind"] == "newtype" and v["strinner"]:
            chunks.append(("c19:str:%s" % n,
                           "#[allow(dead_code)]\npub fn c19_str_%d() {\n    fn a<T: %s>() {}\n    a::<super::%s>();\n}" % (
                               k, STR_BOUND, n), []))
    return chunks


DERIVE_TRAIT_NAMES = {"Debug", "Clone", "Copy", "PartialEq", "Eq", "PartialOrd", "Ord", "Hash", "Serialize",
                      "Deserialize", "StructuralPartialEq"}


def classify_known_errors(errs):
    """Narrow classes of the recorded findings, decided on rustc's messages alone:
    C19-F1: every error is an unsatisfied serde bound on an array type longer than 32;
    C19-F2: every error is an unsatisfied bound / missing Debug on a tuple type of more than 12 components."""
    if not errs:
        return None
    def f1(msg):
        m = re.search(r"`\[.*; (\d+)\]: (Serialize|Deserialize)", msg or "")
        return bool(m) and int(m.group(1)) > 32
    def f2(msg):
        m = re.search(r"`(\([^`]*\))`? doesn't implement `Debug`|the trait bound `(\([^`]*\)): ", msg or "")
        if not m:
            return False
        t = m.group(1) or m.group(2)
        return t.count(",") >= 12
    if all(f1(m) for _, m in errs):
        return "C19-F1"
    if all(f2(m) for _, m in errs):
        return "C19-F2"
    return None


def is_derive_error(errs):
    """rustc errors a #[derive] can cause: unsatisfied bound of a field type (E0277 / E0369 / E0204 / E0184)
    or a second impl of a derived trait (E0119 naming one of the derive traits)."""
    for code, msg in errs:
        msg = msg or ""
        if code == "E0119" or "conflicting implementations" in msg:
            m = re.search(r"conflicting implementations of trait `([^`]*)`", msg)
            if m:
                base = re.sub(r"<.*$", "", m.group(1)).split("::")[-1].strip()
                if base in DERIVE_TRAIT_NAMES:
                    return True
            continue
        if code in DERIVE_ERROR_CODES:
            return True
        if re.search(r"the trait bound|cannot be applied to type|may not be implemented for this type", msg):
            return True
    return False


# --------------------------------------------------------------------------
# model side
# --------------------------------------------------------------------------
MODEL_HDR = tocoq.COQ_HEADER + "From Typify Require Import Algo.Emit.\n"


SLICE = 8          # named entries per printed string
SHARD_CHARS = 14000  # coqc's printer overflows its stack on strings of a few 10^4 characters


def model_views(tag, gens):
    """Evaluate Emit.show_slice on the Gallina image of every dump; own sharding:
    each shard file defines only the spaces it prints and prints a bounded string."""
    d = os.path.join(vlib.WORK, "cases", tag)
    os.makedirs(d, exist_ok=True)
    for f in os.listdir(d):
        os.unlink(os.path.join(d, f))
    shards = []      # [(defs, [(module index, expr)])]
    cur_defs, cur_ex, cur_sz = [], [], 0
    for k, g in enumerate(gens):
        est = lambda es: sum(640 + 16 * (10 + len(e.get("extra_derives", [])) +
                                         len(g["dump"]["settings"]["extra_derives"])) + len(e["name"]) +
                             10 * len(e.get("props", [])) for e in es)
        ids = sorted(int(i) for i, e in g["dump"]["entries"].items() if e["kind"] in ("enum", "struct", "newtype"))
        byid = [g["dump"]["entries"][str(i)] for i in ids]
        first = True
        for lo in range(0, max(1, len(byid)), SLICE):
            sz = est(byid[lo:lo + SLICE]) + 2
            if cur_ex and cur_sz + sz > SHARD_CHARS:
                shards.append((cur_defs, cur_ex))
                cur_defs, cur_ex, cur_sz, first = [], [], 0, True
            if first:
                cur_defs.append("Definition sp_%d : space := %s." % (k, tocoq.cspace(g["dump"])))
                first = False
            cur_ex.append((k, "show_slice sp_%d %d %d" % (k, lo, SLICE)))
            cur_sz += sz
    if cur_ex:
        shards.append((cur_defs, cur_ex))
    paths = []
    for n, (defs, exs) in enumerate(shards):
        p = os.path.join(d, "cases_%d.v" % n)
        with open(p, "w") as f:
            f.write(MODEL_HDR + "\n".join(defs) + "\n")
            f.write("Definition vnl : string := String (Ascii.ascii_of_nat 10) EmptyString.\n")
            f.write("Definition vcases : list string := [\n" + ";\n".join("  (%s)" % e for _, e in exs) + "\n]%list.\n")
            f.write("Set Printing Width 1000000.\nSet Printing Depth 1000000.\n")
            f.write("Eval vm_compute in (String.concat vnl vcases).\n")
        paths.append(p)

    def one(p):
        rc, out, err = vlib.coqc_file(p, 1200)
        if rc != 0:
            raise RuntimeError("coqc failed on %s:\n%s" % (p, (out + err)[-3000:]))
        m = re.search(r'= "(.*)"\s*\n\s*: string', out, re.S)
        if not m:
            raise RuntimeError("cannot parse coqc output of %s: %s" % (p, out[-2000:]))
        return m.group(1).replace('""', '"').split("\n")

    from concurrent.futures import ThreadPoolExecutor
    views = [[] for _ in gens]
    with ThreadPoolExecutor(max_workers=vlib.NCPU) as ex:
        for (defs, exs), r in zip(shards, ex.map(one, paths)):
            if len(r) != len(exs):
                raise RuntimeError("shard: %d results for %d cases" % (len(r), len(exs)))
            for (k, _), line in zip(exs, r):
                views[k].extend(json.loads(line))
    return views


def mutate_model_view(mv):
    """emulated mutations of the MODEL's answer (detection tests, see notes/C19.md)."""
    for e in mv:
        if MUT == "model-eq-in-base" and "Eq" not in e["derives"]:
            e["derives"] = sorted(e["derives"] + ["Eq"])
        if MUT == "model-keeps-deserialize" and e["de_impl"]:
            e["derives"] = sorted(e["derives"] + ["::serde::Deserialize"])
        if MUT == "model-newtype-field-pub" and e["kind"] == "newtype":
            e["fields"] = ["pub"]
    return mv


def mutate_scan_view(sv):
    """emulated mutations of the IMPLEMENTATION's recorded answer."""
    for e in sv:
        if MUT == "impl-private-struct" and e["kind"] == "struct":
            e["vis"] = "private"
        if MUT == "impl-drops-hash" and "Hash" in e["derives"]:
            e["derives"] = [d for d in e["derives"] if d != "Hash"]
        if MUT == "impl-no-from-ref" and e["kind"] == "enum":
            e["from_ref"] = False
        if MUT == "impl-tagged-unit-enum-loses-cmp" and e["kind"] == "enum" and e["dataless"] and \
                e["tagging"] != "external":
            e["derives"] = [d for d in e["derives"] if d not in ("Copy", "PartialOrd", "Ord", "PartialEq", "Eq", "Hash")]
    return sv


CMP_KEYS = ("name", "kind", "vis", "derives", "fields", "de_impl", "from_ref")


def mutate_pairs(pairs, sv):
    if MUT == "impl-min0-no-validating-impls":
        for e in sv:
            if e["name"].startswith("Min0Str"):
                pairs = {p for p in pairs if not (p[1] == e["name"] and (
                    "Deserialize" in p[0] or "FromStr" in p[0] or "TryFrom" in p[0]))}
                e["de_impl"] = False
    return pairs


def compare_views(mv, sv):
    a = sorted(({k: e[k] for k in CMP_KEYS} for e in mv), key=lambda e: json.dumps(e, sort_keys=True))
    b = sorted(({k: e[k] for k in CMP_KEYS} for e in sv), key=lambda e: json.dumps(e, sort_keys=True))
    if a == b:
        return []
    da = {json.dumps(e, sort_keys=True) for e in a}
    db = {json.dumps(e, sort_keys=True) for e in b}
    return [{"model_only": [json.loads(x) for x in sorted(da - db)][:4],
             "impl_only": [json.loads(x) for x in sorted(db - da)][:4]}]


# The texts the hand-written model was read against.  They are NOT part of the theorem files: when one
# changes, only its own obligation breaks ("re-read the model"), the theorems over the regenerated literals
# still compile, and K4 / K6 decide on concrete types whether the behaviour changed.
SHAPE_PINS = [
    ("simple_enum_cond", '"variants . iter () . all (| variant | matches ! (variant . details , VariantDetails :: Simple))"'),
    ("string_newtype_cond", '"is_str"'),
    ("newtype_inner_def", '"type_space . id_to_entry . get (type_id) . unwrap ()"'),
    ("is_str_def", '"matches ! (inner_type . details , TypeEntryDetails :: String)"'),
    ("struct_derive_ops", "(@nil string)"),
    ("newtype_other_ops", "(@nil string)"),
    ("assembly_ops", '["let derive_set . clone ()"; "extend extra_derives"; "extend type_derives"; "into_iter"]'),
]


def shape_pins(ctx):
    d = os.path.join(vlib.WORK, "audit")
    os.makedirs(d, exist_ok=True)
    ok_t, out_t = vlib.coq_make(["theories/Gen/DeriveTable.vo"])
    for name, text in SHAPE_PINS:
        p = os.path.join(d, "C19_pin_%s.v" % name)
        with open(p, "w") as f:
            f.write("From Coq Require Import String List.\nFrom Typify Require Import Gen.DeriveTable.\n"
                    "Import ListNotations.\nOpen Scope string_scope.\n"
                    "Goal %s = %s.\nProof. reflexivity. Qed.\n" % (name, text))
        rc, out, err = vlib.coqc_file(p, 120) if ok_t else (1, out_t, "")
        ctx.oblige("model shape pin: %s of type_entry.rs is the text Algo/Emit.v was written against" % name,
                   rc == 0, (out + err)[-1200:])


# --------------------------------------------------------------------------
def run(ctx):
    ctx.level = "proof"
    ctx.trusted = [
        "Coq 8.16.1 kernel + vm_compute (no native_compute); no axioms (Print Assumptions: closed under the global context)",
        "translator `c19 tables` (syn): reads the derive arrays, the per-arm remove, the `vis` match and the item "
        "templates of type_entry.rs; exits non-zero on any shape it does not recognise",
        "hand-written model Algo/Emit.v of the control flow around those literals (tied by K4 on every module)",
        "py/tocoq.cspace (IR dump -> Gallina), harness syn scan (vh::scan_code), py/world.py error attribution",
        "rustc 1.80.1 + serde_derive as the judge of trait-bound assertions (K6)",
        "`always_derivable` (Debug, Clone, Serialize, Deserialize hold for every field type typify can mention) and the "
        "std/chrono/uuid impl table of `has_trait` are modelled; validated against rustc on the negative/positive "
        "user-derive modules only",
    ]
    ctx.assumptions = [
        "reading: 'every type generated for a schema' = the struct/enum items of the root module (one per named entry); "
        "builder structs and the error module are not schema types",
        "reading: Deserialize 'through their validating implementation' = derive absent AND `impl<'de> Deserialize<'de>` emitted",
        "reading: a user-requested derive that cannot be satisfied (settings/patch) is the user's error, not a violation; "
        "only derives typify adds by itself must always be derivable",
        "field visibility (struct fields pub; newtype field pub iff unconstrained) is specified by the model/DESIGN, not by the property text: "
        "checked in K4 and by the scan, a departure is reported as a correspondence failure",
    ]
    ctx.checker_cmd = ("c19 tables /repo coq/theories/Gen/DeriveTable.v && make -f Makefile.coq theories/Props/C19.vo && "
                       "coqc Audit_C19.v (Print Assumptions); thorough: coqchk -o")

    vlib.build_harness(bins=("vh", "c19"))
    ctx.log("harness built")
    # ---- T2: regenerate the table from the current source
    table = os.path.join(vlib.COQ, "theories", "Gen", "DeriveTable.v")
    # C19_TABLE_SRC: detection tests only - translate a mutated COPY of the source tree (see notes/C19.md)
    rc, out, err = vlib.sh([os.path.join(vlib.TARGET, "debug", "c19"), "tables",
                            os.environ.get("C19_TABLE_SRC", vlib.REPO), table], timeout=120)
    ctx.oblige("translator T2 (derive / visibility tables) recognises type_entry.rs", rc == 0, (out + err)[-2000:])
    ctx.coverage["derive_table"] = "regenerated (%s)" % out.strip() if rc == 0 else "FAILED"
    coq_ok = vlib.standard_coq_obligations(ctx, "Props.C19", THEOREMS, ())
    shape_pins(ctx)
    ctx.log("coq obligations done")

    # ---- world
    metas_cases = gen_cases(ctx)
    metas = [m for m, _ in metas_cases]
    cases = [c for _, c in metas_cases]
    # detection test "real-assert-copy": a bound most types do NOT satisfy is really compiled (own world: no cache reuse)
    w = world.World(ctx, "c19mut" if MUT.startswith("real-") else "c19", cases, chunks_fn=chunks_fn)
    w.generate()
    ctx.log("typify ran on %d cases" % len(cases))
    w.build()
    n = len(cases)
    rendered = [i for i in range(n) if w.gen[i].get("render", {}).get("r") == "ok" and "dump" in w.gen[i]]
    ctx.coverage["modules"] = n
    ctx.coverage["modules_rendered"] = len(rendered)
    st = {}
    for s in w.status:
        st[s] = st.get(s, 0) + 1
    ctx.coverage["module_status"] = st
    not_gen = [metas[i]["src"] for i in range(n) if w.status[i] == "not-generated"]
    ctx.coverage["modules_not_generated"] = not_gen[:40]

    # ---- K4: model on the dumped IR  vs  syn scan of the emitted code
    mism = []
    model_ok = True
    mviews = {}
    try:
        ok_m, out_m = vlib.coq_make(["theories/Algo/Emit.vo"])
        if not ok_m:
            raise RuntimeError(out_m[-2000:])
        mv = model_views("c19", [w.gen[i] for i in rendered])
        mviews = {i: mutate_model_view(v) for i, v in zip(rendered, mv)}
    except Exception as e:  # noqa
        model_ok = False
        ctx.oblige("model Emit.v evaluates on the dumped IRs", False, str(e)[-3000:])
    sviews = {i: mutate_scan_view(scan_view(w.gen[i])) for i in rendered}
    n_types = 0
    n_impls = 0
    missing = []
    kinds = {}
    for i in rendered:
        for e in sviews[i]:
            n_types += 1
            key = "%s%s%s%s" % (e["kind"] + (":" + e["tagging"] if e["kind"] == "enum" else ""),
                                ":dataless" if e["dataless"] else "", ":str" if e["strinner"] else "",
                                ":validating" if e["de_impl"] else "")
            kinds[key] = kinds.get(key, 0) + 1
            ctx.nontrivial.add(json.dumps([e["kind"], e["tagging"], e["derives"], e["fields"], e["de_impl"]]))
        if model_ok:
            pairs = mutate_pairs(impl_pairs(w.gen[i]), sviews[i])
            d = compare_views(mviews[i], sviews[i])
            if d:
                mism.append({"module": metas[i]["src"], "case": cases[i], "diff": d})
            byname = {}
            for e in sviews[i]:
                byname.setdefault(e["name"], []).append(e)
            for me in mviews[i]:
                for se in byname.get(me["name"], [])[:1]:
                    n_impls += len(me.get("impls", []))
                    miss = missing_impls(me, se, pairs)
                    if miss:
                        missing.append({"kind": "expected-impl-missing", "module": metas[i]["src"], "type": me["name"],
                                        "ir_kind": me["kind"], "missing": miss, "case": cases[i]})
            pan = [e["name"] for e in mviews[i] if e.get("panics")]
            if pan:
                mism.append({"module": metas[i]["src"], "case": cases[i], "model_predicts_output_panic_but_rendered": pan})
    ctx.oblige("correspondence K4: derives_of / item_vis / field_vis / emits_* (Coq, on the dumped IR) = syn scan of "
               "to_stream() on %d types of %d modules" % (n_types, len(rendered)), model_ok and not mism,
               json.dumps(mism[:3])[:3000])
    ctx.oblige("correspondence K4i: every impl of expected_impls(kind) (Coq table: Deref / From / TryFrom / FromStr / "
               "Deserialize<'de> per IR kind) is in the syn scan of the emitted module (%d headers)" % n_impls,
               model_ok and not missing, json.dumps(missing[:3])[:3000])
    ctx.coverage["expected_impl_headers_checked"] = n_impls
    ctx.evaluations += n_types
    ctx.coverage["types_compared_K4"] = n_types
    ctx.coverage["K4_mismatches"] = len(mism)
    ctx.coverage["type_kinds"] = kinds

    # ---- direct evaluation of the property on the implementation (K6 + visibility scan)
    found = []
    de_reqs = []
    n_assert = 0
    assert_kinds = {"base": 0, "enum": 0, "str": 0}
    unevaluated = []
    for i in rendered:
        src = metas[i]["src"]
        if w.status[i] == "compile-error":
            errs = w.compile_errors.get(i, [])
            if metas[i]["neg"] and not metas[i].get("known"):
                continue
            # the world's clean region compiles on the unchanged tree: a module rustc rejects means NO bound
            # assertion of its types can be established (derive expansion errors carry many codes, e.g. E0308
            # from a `skip_serializing_if` path of the wrong type inside #[derive(Serialize)])
            kind = "derive-does-not-compile" if is_derive_error(errs) else "generated-module-does-not-compile"
            kf = classify_known_errors(errs)
            if kf and kind == "derive-does-not-compile":
                found.append({"kind": kind, "known_class": kf, "module": src, "case": cases[i], "rustc": errs[:2]})
                continue
            if MUT == "tolerate-unrelated-compile-errors" and kind != "derive-does-not-compile":
                unevaluated.append({"module": src, "rustc": errs[:2]})
                continue
            found.append({"kind": kind, "module": src, "case": cases[i], "rustc": errs[:4],
                          "types_without_established_surface": [e["name"] for e in sviews[i]][:12]})
            continue
        if w.status[i] != "ok":
            continue
        for e in sviews[i]:
            if e["vis"] != "pub":
                found.append({"kind": "type-not-public", "module": src, "type": e["name"], "vis": e["vis"], "case": cases[i]})
                continue
            tags = ["base"] + (["enum"] if e["kind"] == "enum" and e["dataless"] else []) + \
                   (["str"] if e["kind"] == "newtype" and e["strinner"] else [])
            for t in tags:
                n_assert += 1
                assert_kinds[t] += 1
                fail = w.chunk_failures.get((i, "c19:%s:%s" % (t, e["name"])))
                if MUT == "impl-assert-fails" and t == "str":
                    fail = [["E0277", "emulated"]]
                if MUT == "impl-tagged-unit-enum-loses-cmp" and t == "enum" and e["tagging"] != "external":
                    fail = [["E0277", "emulated: the trait bound `%s: Copy` is not satisfied" % e["name"]]]
                if fail:
                    found.append({"kind": "bound-assertion-%s-rejected" % t, "module": src, "type": e["name"],
                                  "derives": e["derives"], "rustc": fail[:3], "case": cases[i],
                                  "expected": {"base": BASE_BOUND, "enum": ENUM_BOUND, "str": STR_BOUND}[t]})
            # Deserialize: derived xor validating impl
            has_d = "::serde::Deserialize" in e["derives"]
            if not has_d and not e["de_impl"]:
                found.append({"kind": "no-Deserialize-at-all", "module": src, "type": e["name"], "case": cases[i],
                              "derives": e["derives"]})
            elif not w.has_arm(i, e["name"], "de"):
                found.append({"kind": "no-de-entry-point-in-compiled-driver", "module": src, "type": e["name"],
                              "case": cases[i]})
            elif not has_d:
                de_reqs.append((i, e["name"], {"m": i, "t": e["name"], "op": "de",
                                               "input": "\"ab\"" if e["strinner"] else "1"}))
    # the validating Deserialize of every constrained newtype really runs in the compiled world
    if de_reqs:
        ans = w.query([r for _, _, r in de_reqs])
        for (i, name, r), a in zip(de_reqs, ans):
            if not isinstance(a, dict) or not ("ok" in a or "err" in a):
                found.append({"kind": "validating-deserialize-does-not-run", "module": metas[i]["src"], "type": name,
                              "answer": a, "case": cases[i]})
    ctx.coverage["validating_deserialize_executed"] = len(de_reqs)
    ctx.evaluations += len(de_reqs)
    ctx.evaluations += n_assert
    ctx.coverage["bound_assertions_compiled"] = n_assert
    ctx.coverage["bound_assertions_by_clause"] = assert_kinds
    ctx.coverage["modules_with_unrelated_compile_error"] = unevaluated[:20]
    other_chunk = [[metas[i]["src"], tag, msgs[:1]] for (i, tag), msgs in w.chunk_failures.items()
                   if not str(tag).startswith("c19:")]
    ctx.coverage["driver_chunks_dropped_not_c19"] = other_chunk[:10]

    # ---- K6-model: `derivable` (Coq) vs rustc on user-requested derives
    dmis = []
    n_pred = 0
    if model_ok:
        for i in rendered:
            if not metas[i]["model_derivable"] or w.status[i] not in ("ok", "compile-error"):
                continue
            # traits outside the model's vocabulary (e.g. Default): no prediction
            pred_bad = sorted({(e["name"], x) for e in mviews[i] for x in e.get("underivable", [])
                               if x in MODEL_TRAITS})
            act_bad = w.status[i] == "compile-error" and is_derive_error(w.compile_errors.get(i, []))
            if w.status[i] == "compile-error" and not act_bad:
                continue
            n_pred += 1
            if bool(pred_bad) != act_bad or (metas[i]["neg"] and not act_bad):
                dmis.append({"module": metas[i]["src"], "model_underivable": pred_bad, "rustc_rejects": act_bad,
                             "rustc": w.compile_errors.get(i, [])[:2], "case": cases[i]})
        ctx.oblige("correspondence K6m: `derivable` (Coq) predicts rustc's verdict on %d modules with user derives "
                   "(%d must be rejected)" % (n_pred, len([m for m in metas if m["neg"]])), not dmis,
                   json.dumps(dmis[:3])[:3000])
        ctx.coverage["derivable_predictions_checked"] = n_pred

    # ---- verdict
    unlisted = []
    for v in found + missing:
        f = None
        for kf in ctx.findings_for():
            if v.get("known_class") and kf.get("id") == v["known_class"]:
                f = kf
        if f:
            ctx.known_finding(f["id"], "%s: %s (e.g. module %s: %s)" % (
                f["id"], f["summary"], v.get("module"), (v.get("rustc") or [["", ""]])[0][1][:120]))
        else:
            unlisted.append(v)
    ctx.oblige("direct property evaluation: %d trait-bound assertions compile, every item pub, Deserialize present "
               "(%d modules)" % (n_assert, len(rendered)), not unlisted, json.dumps(unlisted[:3])[:3000])
    ctx.coverage["rule"] = ("world = repository fixtures x {suite settings, no builder} + one definition per kind of item "
                            "(structs, simple / external / internal / adjacent / untagged enums, plain / length / pattern / "
                            "deny / enum-valued newtypes, newtypes over floats, natives, containers) under default, builder, "
                            "global PartialEq, BTreeMap settings + every safe per-type patch + negative user derives + "
                            "seeded random subsets with random names/settings; distinct = distinct (kind, derive list, "
                            "field visibilities, validating impl)")
    ctx.samples = [{"module": metas[i]["src"], "types": [{k: e[k] for k in ("name", "kind", "derives", "fields")}
                                                           for e in sviews[i][:3]]}
                   for i in rendered[:: max(1, len(rendered) // 8)]]
    if unlisted:
        unlisted.sort(key=lambda v: len(json.dumps(v.get("case", {}))))
        v = unlisted[0]
        v["broken_obligations"] = [o[0] for o in ctx.broken()]
        v["other_violations"] = len(unlisted) - 1
        ctx.violation(v)
    elif ctx.broken():
        ctx.violation({"broken_obligations": [(o[0], o[2][:1500]) for o in ctx.broken()],
                       "note": "the translator, a theorem over the regenerated table, or the model/implementation "
                               "correspondence no longer checks; compiling the trait-bound assertions on the world "
                               "found no failing input"}, no_input=True)

    if ctx.tier == "thorough" and coq_ok:
        rc, out, err = vlib.sh("timeout 1500 coqchk -silent -o -Q theories Typify Typify.Props.C19", cwd=vlib.COQ,
                               timeout=1600)
        ctx.oblige("coqchk re-checks Props.C19 and dependencies", rc == 0, (out + err)[-1500:])
        ctx.coverage["coqchk_output_tail"] = (out + err)[-1200:]
