"""C05 — constraints represented in a generated type cannot be bypassed.

Deciding method (DESIGN 4 C05): Coq theorems (Props/C05.v) about the executable
semantics of generated code `IR/Serde.v de` - one inversion theorem per enforced
constraint kind ("an accepted document satisfies the represented constraint"),
the conversion-agreement theorems of C11 restated, the private-field theorem of
C19 - plus the transfer validator `Check/Exact.v` ("what the schema states is
what the type represents") with its root-level soundness theorem, evaluated on
the type space the REAL typify produced for every explored definition.

Tie, on every run:
  (a) direct evaluation of the property on compiled generated code: every
      single-constraint mutant (the eight mutator kinds of the property text)
      that the independent oracle (python jsonschema) classifies INVALID must be
      rejected by `serde_json::from_str` of the compiled type;
  (b) K5: IR/Serde.v `de`/`ser` = compiled code on every explored instance;
  (c) `exact` evaluated in Coq on every (definition schema, type) pair;
  (d) agreement: parse / try_from(&str) / try_from(String) / try_from(&String) /
      from_str agree on probe strings (boundary lengths with multi-byte scalars,
      pattern breakers, non-members) for every constrained string newtype, simple
      enum and string deny-list newtype of the world;
  (e) no back door: syn scan of the generated module (private field, no
      From<inner>, no inherent constructor, no DerefMut/AsMut, Default value passes
      the type's own Deserialize; builder setters go through TryInto);
  (f) the Coq obligations for Props/C05.v.
"""
import collections
import glob
import json
import os
import re

import faithful
import k5
import oracle
import schemagen
import tocoq
import vlib
import world

THEOREMS = [
    "C05_string_len_pattern_enforced",
    "C05_enum_member_enforced",
    "C05_enum_member_enforced_std",
    "C05_enum_value_enforced",
    "C05_deny_list_enforced",
    "C05_value_newtype_inner",
    "C05_required_enforced",
    "C05_required_enforced_direct_refuted",
    "C05_closed_enforced",
    "C05_tuple_arity_enforced",
    "C05_array_arity_enforced",
    "C05_scalar_type_enforced",
    "C05_integer_range_enforced",
    "C05_tag_enforced_internal",
    "C05_tag_enforced_adjacent",
    "C05_tag_enforced_external",
    "C05_from_str_iff_de_constrained",
    "C05_try_from_is_parse",
    "C05_parse_is_de",
    "C05_try_from_inner_is_de",
    "C05_constrained_field_private",
    "C05_root_ok_of_valid",
    "C05_exact_root_sound_partial",
    "C05_exact_root_rejects",
    "C05_exact_member_step",
    "C05_exact_member_sound_partial",
    "C05_exact_sound_partial",
    "C05_exact_deep_sound",
    "C05_validated_default_accepted_string",
    "C05_validated_default_satisfies_list",
    "C05_unit_variant_object_refuted",
    "C05_exact_detects_bytelen_filter",
    "C05_bytelen_regression",
    "C05_optional_null_refuted",
    "C05_internal_unit_variant_extra_refuted",
]

MUT = os.environ.get("C05_MUTATE", "")


CORPUS = os.path.join(vlib.ROOT, "corpus", "C05")
PROPS = os.path.join(vlib.COQ, "theories", "Props", "C05.v")

# the eight mutators of the property text -> kinds produced by schemagen.mutants
MUTATOR_KINDS = {
    "delete-required": "delete a required non-nullable member",
    "add-to-closed": "add a member to a closed struct",
    "enum-nonmember": "replace an enum value by a non-member",
    "length-over": "cross a length boundary by one scalar value",
    "length-under": "cross a length boundary by one scalar value",
    "pattern-break": "break the pattern",
    "tuple-arity-short": "change tuple arity",
    "tuple-arity-long": "change tuple arity",
    "scalar-type-swap": "swap a scalar for another JSON type",
    "alter-tag": "alter a tag",
}

# construct tags of documents on which `exact` is NOT expected to be true for every
# definition on the unchanged tree (measured; see notes/C05.md)
EXACT_NOT_PINNED_TAGS = set()


def nullable_tagged_union(doc, s, depth=0, seen=None):
    """does the schema contain (through properties / items / additionalProperties / union branches / $ref) a
    oneOf / anyOf that has a {"type":"null"} branch next to branches that pin a property to one string constant?"""
    seen = seen if seen is not None else set()
    if depth > 8 or not isinstance(s, dict):
        return False
    if "$ref" in s:
        nm = s["$ref"].split("/")[-1]
        if nm in seen:
            return False
        seen.add(nm)
        return nullable_tagged_union(doc, doc["definitions"].get(nm), depth + 1, seen)
    for k in ("oneOf", "anyOf"):
        bs = s.get(k)
        if isinstance(bs, list):
            has_null = any(isinstance(b, dict) and b.get("type") == "null" for b in bs)
            tagged = any(isinstance(b, dict) and any(isinstance(ps, dict) and isinstance(ps.get("enum"), list) and
                                                      len(ps["enum"]) == 1 and isinstance(ps["enum"][0], str)
                                                      for ps in (b.get("properties") or {}).values()) for b in bs)
            if has_null and tagged:
                return True
            if any(nullable_tagged_union(doc, b, depth + 1, seen) for b in bs):
                return True
    subs = list((s.get("properties") or {}).values())
    for k in ("items", "additionalProperties"):
        if isinstance(s.get(k), dict):
            subs.append(s[k])
        elif isinstance(s.get(k), list):
            subs += s[k]
    return any(nullable_tagged_union(doc, x, depth + 1, seen) for x in subs)


def theorem_names(path):
    if not os.path.exists(path):
        return []
    txt = vlib.strip_coq_comments(open(path).read())
    return re.findall(r"\bTheorem\s+(C05_\w+)", txt)


# ---------------------------------------------------------------------------
# (b) K5 (faithful.k5_compare with smaller shards: the result string of a 300-case shard can
# overflow coqc's stack in the thorough tier)
def k5_compare(ex, tag, shard=60, chunk=40):
    # k5.eval_cases shards by whole modules; a module with hundreds of (large) instances makes the
    # result string of its shard overflow coqc's stack.  Split such modules into virtual modules
    # (same dump, fresh index) of at most `chunk` cases.
    dumps = dict(ex.dumps)
    count = collections.Counter()
    cases = []
    for it in ex.items:
        m = it["m"]
        k = count[m] // chunk
        count[m] += 1
        vm = m if k == 0 else m + 100000 * k
        dumps[vm] = ex.dumps[m]
        cases.append((vm, it["tid"], it["v"]))
    sup = k5.eval_cases(tag + "_sup", dumps, cases, fn="run_sup", shard=4 * shard)
    mod = k5.eval_cases(tag, dumps, cases, fn="run_rt", shard=shard)
    mism = []
    n_sup = 0
    for it, s, m in zip(ex.items, sup, mod):
        it["model"] = m
        it["sup"] = s == "sup"
        if not it["sup"]:
            continue
        n_sup += 1
        a = k5.impl_canon(it["out"])
        b = k5.model_canon(m)
        same = a[0] == b[0] and (a[0] != "ok" or k5.canon_eq(a[1], b[1]))
        if not same:
            # the model is evaluated with a fixed fuel (k5.FUEL) and serde_json has a recursion limit:
            # very deep instances of recursive definitions are outside what a bounded evaluation compares
            if json_depth(it["v"]) > 12:
                K5_DEEP.append(it["name"])
                continue
            mism.append({"doc": ex.docs[it["m"]], "definition": it["name"], "instance": it["v"],
                         "compiled": it["out"], "model": m[:500]})
    return n_sup, mism


K5_DEEP = []


def json_depth(v):
    if isinstance(v, dict):
        return 1 + max([json_depth(x) for x in v.values()] or [0])
    if isinstance(v, list):
        return 1 + max([json_depth(x) for x in v] or [0])
    return 0


# ---------------------------------------------------------------------------
# (c) the validator evaluated in Coq
# ---------------------------------------------------------------------------
def exact_eval(tag, docs, dumps, timeout=900):
    """-> ({(doc index, def name): 'T'|'F'}, skipped doc indices) via one coqc run"""
    ok, out = vlib.coq_make(["theories/Check/Exact.vo", "theories/IR/SerdeRun.vo"])
    if not ok:
        raise RuntimeError(out[-3000:])
    lines = [tocoq.COQ_HEADER,
             "From Typify Require Import Spec.Valid IR.Serde IR.SerdeRun Check.Exact.\nOpen Scope string_scope.\n"]
    exprs, meta, skipped = [], [], []
    for i, doc in enumerate(docs):
        d = dumps[i]
        if d is None:
            continue
        try:
            cd = tocoq.cdefs(doc["definitions"])
        except tocoq.Unsupported:
            skipped.append(i)
            continue
        if MUT == "exact_ir_drop_max":
            d = json.loads(json.dumps(d))
            for e in d["entries"].values():
                if e["kind"] == "newtype" and e["constraints"]["k"] == "string":
                    e["constraints"]["max"] = None
        if MUT == "exact_ir_no_deny":
            d = json.loads(json.dumps(d))
            for e in d["entries"].values():
                if e["kind"] == "struct":
                    e["deny"] = False
        lines.append("Definition sp_%d : space := %s.\n" % (i, tocoq.cspace(d)))
        lines.append("Definition df_%d : defs := %s.\n" % (i, cd))
        A = [(n, d["ref_to_id"]["#/" + n]) for n in sorted(doc["definitions"]) if "#/" + n in d["ref_to_id"]]
        lines.append("Definition as_%d : list (ustring * id) := %s.\n" % (
            i, tocoq.clist(A, lambda p: "(%s, %d%%N)" % (tocoq.ustr(p[0]), p[1]), "(ustring * id)")))
        for n, t in A:
            exprs.append('(if match resolve_ref df_%d %s with Some s => exact (tbl_lookup []) df_%d sp_%d as_%d s %d%%N '
                         '| None => false end then "T" else "F")' % (i, tocoq.ustr(n), i, i, i, t))
            meta.append((i, n))
    if not exprs:
        return {}, skipped
    lines.append("Definition vnl : string := String (Ascii.ascii_of_nat 10) EmptyString.\n"
                 "Definition vcases : list string := [\n" + ";\n".join(exprs) +
                 "\n]%list.\nEval vm_compute in (String.concat vnl vcases).\n")
    d = os.path.join(vlib.WORK, "cases", tag)
    os.makedirs(d, exist_ok=True)
    p = os.path.join(d, "exact.v")
    open(p, "w").write("".join(lines))
    rc, out, err = vlib.coqc_file(p, timeout)
    if rc != 0:
        raise RuntimeError((out + err)[-3000:])
    m = re.search(r'= "(.*)"\s*\n\s*: string', out, re.S)
    res = m.group(1).split("\n")
    if len(res) != len(meta):
        raise RuntimeError("exact_eval: %d results for %d cases" % (len(res), len(meta)))
    return {k: r for k, r in zip(meta, res)}, skipped


def instantiate(tag, docs, dumps, ids, chunk=40, timeout=1200):
    """Kernel instantiation of C05_exact_sound_partial per explored document: `exact_all = true` by
    vm_compute for EVERY regex engine (section variable), then the corollary "every violation at any
    reachable depth is rejected, for every fuel" for that document's real IR.  -> (ok, detail, n)"""
    from concurrent.futures import ThreadPoolExecutor
    d0 = os.path.join(vlib.WORK, "cases", tag)
    os.makedirs(d0, exist_ok=True)
    for f in os.listdir(d0):
        os.unlink(os.path.join(d0, f))
    files, n = [], 0
    for c in range(0, len(ids), chunk):
        lines = [tocoq.COQ_HEADER,
                 "From Typify Require Import Spec.Valid IR.Serde Check.Exact Props.C05.\n"]
        for i in ids[c:c + chunk]:
            d, doc = dumps[i], docs[i]
            A = [(nm, d["ref_to_id"]["#/" + nm]) for nm in sorted(doc["definitions"]) if "#/" + nm in d["ref_to_id"]]
            lines.append("Definition sp_%d : space := %s.\n" % (i, tocoq.cspace(d)))
            lines.append("Definition df_%d : defs := %s.\n" % (i, tocoq.cdefs(doc["definitions"])))
            lines.append("Definition as_%d : list (ustring * id) := %s.\n" % (
                i, tocoq.clist(A, lambda p: "(%s, %d%%N)" % (tocoq.ustr(p[0]), p[1]), "(ustring * id)")))
            lines.append(
                "Section Doc_%d.\n"
                "  Variables (re_match native_ok : ustring -> ustring -> bool).\n"
                "  Lemma exact_%d : exact_all re_match df_%d sp_%d as_%d = true.\n"
                "  Proof. vm_compute. reflexivity. Qed.\n"
                "  Definition all_%d :\n"
                "    forall r t s, In (r, t) as_%d -> resolve_ref df_%d r = Some s ->\n"
                "    forall v, viol re_match df_%d s v -> forall f, de re_match native_ok sp_%d f t v = None :=\n"
                "    C05_exact_sound_partial re_match native_ok df_%d sp_%d as_%d exact_%d.\n"
                "End Doc_%d.\n" % ((i,) * 15))
            n += 1
        f = os.path.join(d0, "inst_%d.v" % (c // chunk))
        open(f, "w").write("".join(lines))
        files.append(f)

    def one(f):
        rc, out, err = vlib.coqc_file(f, timeout)
        return rc, (out + err)[-1500:]
    bad = []
    for attempt in (0, 1):
        # other checks regenerate Gen/*.v tables and rebuild shared .vo files concurrently: make sure
        # Props/C05.vo is consistent with its dependencies right now, and retry once on a stale-library error
        vlib.coq_make(["theories/Props/C05.vo"])
        bad = []
        with ThreadPoolExecutor(max_workers=min(8, vlib.NCPU)) as pool:
            for f, (rc, txt) in zip(files, pool.map(one, files)):
                if rc != 0:
                    bad.append(os.path.basename(f) + ": " + txt)
        if not any("inconsistent assumptions" in b for b in bad):
            break
    return not bad, "\n".join(bad)[:2500], n


# ---------------------------------------------------------------------------
# (d) agreement probes
# ---------------------------------------------------------------------------
def boundary_strings(n):
    out = []
    for m in (n - 1, n, n + 1):
        if m < 0:
            continue
        out += ["a" * m, "é" * m, "\U0001F600" * m, "日" * m]
        if m >= 1:
            out.append("a" * (m - 1) + "ß")
    return out


GENERIC = ["", "a", "é", "ab", "abc", "日本", "A", " a", "a ", "0", "null", "\U0001F600"]


def escape_variants(m):
    """strings a faulty template could confuse with the member m: format-string escapes of braces / percent /
    backslash / quotes (and their inverses), trimmed / padded, case-folded, doubled"""
    out = [m.replace("{", "{{").replace("}", "}}"), m.replace("{{", "{").replace("}}", "}"),
           m.replace("%", "%%"), m.replace("%%", "%"), m.replace("\\", "\\\\"), m.replace("\\\\", "\\"),
           m.replace('"', '\\"'), m.replace('\\"', '"'), m.replace("'", "\\'"),
           m.strip(), " " + m, m + " ", m + "\n", m.lower(), m.upper(), m.swapcase(), m.capitalize(), m.casefold(),
           m + m, "{" + m + "}", '"' + m + '"']
    return [x for x in out if x != m]


def conv_types(gen):
    """[(type name, entry, probe strings)] for the string-validating named types of a module"""
    dump = gen["dump"]
    items = [it["name"] for it in gen["render"]["scan"]["items"] if it["mod"] == "" and it["kind"] in ("struct", "enum")]
    out = []
    for k, e in sorted(dump["entries"].items(), key=lambda kv: int(kv[0])):
        name = e.get("name")
        if name is None or items.count(name) != 1:
            continue
        ps = list(GENERIC)
        if e["kind"] == "newtype" and e["constraints"]["k"] == "string":
            c = e["constraints"]
            for b in (c["max"], c["min"]):
                if b is not None and b <= 12:
                    ps += boundary_strings(b)
            if c["pattern"] in schemagen.PAT_SAMPLES:
                ps += schemagen.PAT_SAMPLES[c["pattern"]][0] + schemagen.PAT_SAMPLES[c["pattern"]][1]
            kind = "constrained-string"
        elif e["kind"] == "newtype" and e["constraints"]["k"] == "deny" and \
                dump["entries"].get(str(e["type_id"]), {}).get("kind") == "string":
            for v in e["constraints"]["values"]:
                if isinstance(v, str):
                    ps += [v, v + "x", v.upper()]
            kind = "deny-string"
        elif e["kind"] == "enum" and e["tag"]["k"] == "external" and e["variants"] and \
                all(v["details"]["k"] == "simple" for v in e["variants"]):
            for v in e["variants"]:
                ps += [v["raw"], v["raw"] + "x", v["raw"].upper(), v["raw"][:-1], v["ident"] or ""]
                ps += escape_variants(v["raw"])
            ps.append("__nonmember__")
            kind = "simple-enum"
        else:
            continue
        seen = []
        for s in ps:
            if s not in seen:
                seen.append(s)
        out.append((name, e, kind, seen))
    return out


CONV_OPS = ["parse", "try_from_str", "try_from_string", "try_from_ref_string"]


def agreement(ctx, w, indices, defs_of=None):
    """Direct check of the agreement clause on compiled code: parse / try_from x3 / from_str agree with each other
    and - for types that are a definition of the document - with the oracle."""
    reqs, keys = [], []
    ostr = {}        # (i, type name) -> definition name
    missing = []
    ntypes = collections.Counter()
    for i in indices:
        if w.status[i] != "ok":
            continue
        id2def = {tid: ref[2:] for ref, tid in w.gen[i]["dump"]["ref_to_id"].items() if ref.startswith("#/")}
        name2id = {e2.get("name"): int(k2) for k2, e2 in w.gen[i]["dump"]["entries"].items() if e2.get("name")}
        for name, e, kind, ps in conv_types(w.gen[i]):
            if not w.has_arm(i, name, "de"):
                continue
            ntypes[kind] += 1
            if defs_of is not None and name2id.get(name) in id2def:
                ostr[(i, name)] = id2def[name2id[name]]
            want = CONV_OPS if kind != "deny-string" else ["try_from_string"]
            for op in want:
                if not w.has_arm(i, name, op):
                    missing.append({"module": i, "type": name, "kind": kind, "missing_impl": op})
            for s in ps:
                for op in ["de"] + CONV_OPS:
                    if op != "de" and not w.has_arm(i, name, op):
                        continue
                    reqs.append({"m": i, "t": name, "op": op, "input": json.dumps(s) if op == "de" else s})
                    keys.append((i, name, kind, s, op))
    ans = w.query(reqs) if reqs else []
    table = {}
    raws_of = {}
    for k, a in zip(keys, ans):
        if MUT == "agree_tryfrom_accepts" and k[4] == "try_from_str" and "err" in a:
            a = {"ok": k[3], "text": json.dumps(k[3])}
        if MUT == "fromstr_escaped_arms" and k[2] == "simple-enum" and k[4] != "de":
            # emulate: the FromStr match arms are the brace-ESCAPED strings of the Display template
            if (k[0], k[1]) not in raws_of:
                raws_of[(k[0], k[1])] = [v["raw"] for e2 in w.gen[k[0]]["dump"]["entries"].values()
                                         if e2.get("name") == k[1] and e2["kind"] == "enum" for v in e2["variants"]]
            hit = [m for m in raws_of[(k[0], k[1])] if k[3] == m.replace("{", "{{").replace("}", "}}")]
            a = {"ok": hit[0], "text": json.dumps(hit[0])} if hit else {"err": "invalid value"}
        table.setdefault(k[:4], {})[k[4]] = a
    bad = []
    n = 0
    for (i, name, kind, s), by_op in table.items():
        de = by_op.get("de")
        if de is None:
            continue
        ctx.nontrivial.add("agree/%d/%s/%s" % (i, name, s))
        for op, a in by_op.items():
            if op == "de":
                continue
            n += 1
            same = ("ok" in a) == ("ok" in de) and ("ok" not in a or a["ok"] == de["ok"])
            if not same or ("ok" not in a and "err" not in a):
                bad.append({"kind": "conversion-disagrees-with-deserialize", "type": name, "type_kind": kind, "string": s,
                            "op": op, op: a, "from_str(json)": de, "entry": e, "module": i})
    # oracle: for a type that is a definition, membership / string constraints decide; every entry point must agree
    if ostr:
        batches, meta = [], []
        for i in sorted({i for (i, _n) in ostr}):
            qs, ks = [], []
            for (i2, name, kind, s2), by_op in table.items():
                if i2 == i and (i, name) in ostr:
                    qs.append(({"$ref": "#/definitions/" + ostr[(i, name)]}, s2))
                    ks.append((i2, name, kind, s2))
            if qs:
                batches.append(({"definitions": defs_of(i)}, qs))
                meta.append(ks)
        for ks, verd in zip(meta, oracle.classify(batches) if batches else []):
            for key, valid in zip(ks, verd):
                if valid is None:
                    continue
                for op, a in table[key].items():
                    n += 1
                    if ("ok" in a) != bool(valid):
                        bad.append({"kind": "entry-point-disagrees-with-the-schema", "type": key[1], "type_kind": key[2],
                                    "string": key[3], "op": op, op: a, "oracle_valid": valid,
                                    "definition": ostr[(key[0], key[1])], "definitions": defs_of(key[0]), "module": key[0]})
    return n, bad, missing, dict(ntypes)


# ---------------------------------------------------------------------------
# (e) no back door
# ---------------------------------------------------------------------------
def norm(t):
    return re.sub(r"\s+", "", t or "")


def backdoor_scan(w, indices):
    """-> (violations, counts) from the syn scan + Default probes"""
    viol = []
    cnt = collections.Counter()
    dq = []
    for i in indices:
        g = w.gen[i]
        if w.status[i] == "not-generated":
            continue
        scan = g["render"]["scan"]
        items = {(it["mod"], it["name"]): it for it in scan["items"]}
        names = [it["name"] for it in scan["items"] if it["mod"] == ""]
        for k, e in g["dump"]["entries"].items():
            if e["kind"] != "newtype" or e["constraints"]["k"] == "none":
                continue
            name = e["name"]
            it = items.get(("", name))
            if it is None or names.count(name) != 1:
                continue
            cnt["constrained_newtypes"] += 1
            cnt["constrained:" + e["constraints"]["k"]] += 1
            fields = it.get("fields", {})
            fl = fields.get("fields", [])
            if MUT == "scan_pub_field":
                fl = [dict(f, vis="pub") for f in fl]
            if fields.get("k") != "tuple" or len(fl) != 1 or fl[0]["vis"] != "private":
                viol.append({"kind": "public-field-on-constrained-newtype", "module": i, "type": name, "fields": fields})
            inner_ty = norm(fl[0]["ty"]) if fl else ""
            for im in scan["impls"]:
                if im["mod"] != "" or norm(im["for"]) != name:
                    continue
                tr = norm(im["trait"])
                if MUT == "scan_from_inner" and tr.startswith("::std::convert::TryFrom<") and "&" not in tr:
                    tr = tr.replace("TryFrom<", "From<")
                if not tr:
                    if im["fns"]:
                        viol.append({"kind": "inherent-constructor-on-constrained-newtype", "module": i, "type": name,
                                     "fns": im["fns"]})
                    continue
                m = re.match(r"^(?:::std::convert::)?From<(.*)>$", tr)
                if m and m.group(1) not in ("&" + name, "&Self"):
                    viol.append({"kind": "From-impl-on-constrained-newtype", "module": i, "type": name, "trait": im["trait"]})
                if re.search(r"\b(DerefMut|AsMut|BorrowMut)\b", tr):
                    viol.append({"kind": "mutable-access-to-constrained-newtype", "module": i, "type": name,
                                 "trait": im["trait"]})
            if w.status[i] == "ok" and w.has_arm(i, name, "default"):
                dq.append((i, name, e))
    # Default values must satisfy the constraints: the type's own Deserialize accepts the serialised default
    if dq:
        outs = w.query([{"m": i, "t": n, "op": "default", "input": None} for i, n, _ in dq])
        de_reqs = []
        for (i, n, e), o in zip(dq, outs):
            if "ok" not in o:
                viol.append({"kind": "default-of-constrained-newtype-failed", "module": i, "type": n, "answer": o})
                de_reqs.append(None)
                continue
            de_reqs.append({"m": i, "t": n, "op": "de", "input": o["text"]})
        real = [r for r in de_reqs if r is not None]
        de_outs = iter(w.query(real) if real else [])
        for (i, n, e), r in zip(dq, de_reqs):
            if r is None:
                continue
            o = next(de_outs)
            cnt["default_values_checked"] += 1
            if MUT == "default_violates":
                o = {"err": "mutated"}
            if "ok" not in o:
                viol.append({"kind": "default-of-constrained-newtype-violates-constraints", "module": i, "type": n,
                             "default_serialised": r["input"], "deserialize": o, "entry": e})
    return viol, dict(cnt)


# ---------------------------------------------------------------------------
# (e') constructors that do not go through the checked entry points: `impl Default`, the
# `#[serde(default = ...)]` functions of struct members, `#[serde(default)]`.  They build values
# through the PRIVATE tuple constructor, so the value they produce is EXECUTED on the compiled code
# and fed back to the type's own Deserialize (and, for definitions, to the schema oracle).
# ---------------------------------------------------------------------------
def constructor_probes(w, indices, defs_of, strict_oracle=False):
    """defs_of(i) -> definitions dict of case i.  -> (violations, counts)"""
    viol, cnt = [], collections.Counter()
    probes = []          # (i, type name, op, input, entry, definition name or None, constrained?)
    for i in indices:
        if w.status[i] != "ok":
            continue
        g = w.gen[i]
        dump = g["dump"]
        names = [it["name"] for it in g["render"]["scan"]["items"] if it["mod"] == ""]
        id2def = {tid: ref[2:] for ref, tid in dump["ref_to_id"].items() if ref.startswith("#/")}
        for k, e in sorted(dump["entries"].items(), key=lambda kv: int(kv[0])):
            name = e.get("name")
            if name is None or names.count(name) != 1:
                continue
            constrained = e["kind"] == "newtype" and e["constraints"]["k"] != "none"
            dn = id2def.get(int(k))
            if w.has_arm(i, name, "default") and w.has_arm(i, name, "de"):
                probes.append((i, name, "default", None, e, dn, constrained))
            if e["kind"] == "struct" and w.has_arm(i, name, "de") and \
                    all(p["state"]["k"] != "required" or p["rename"]["k"] == "flatten" for p in e["props"]) and \
                    any(p["state"]["k"] == "default" for p in e["props"]):
                probes.append((i, name, "de", "{}", e, dn, False))
    if not probes:
        return viol, dict(cnt)
    outs = w.query([{"m": i, "t": n, "op": op, "input": inp} for i, n, op, inp, _e, _d, _c in probes])
    if MUT == "default_builds_empty_string":
        outs = [({"ok": "", "text": '""'} if (c and e["constraints"]["k"] == "string" and e["constraints"]["min"]) else o)
                for (i, n, op, inp, e, d, c), o in zip(probes, outs)]
    re_reqs, re_idx, obatch = [], [], {}
    for k, ((i, n, op, inp, e, dn, c), o) in enumerate(zip(probes, outs)):
        cnt["constructor_%s_executed" % ("default_impl" if op == "default" else "struct_from_empty_object")] += 1
        if "ok" not in o:
            if op == "default":
                viol.append({"kind": "default-constructor-failed", "module": i, "type": n, "answer": o})
            continue
        re_reqs.append({"m": i, "t": n, "op": "de", "input": o["text"]})
        re_idx.append(k)
        if dn is not None:
            obatch.setdefault(i, []).append((k, dn, o["ok"]))
    re_outs = w.query(re_reqs) if re_reqs else []
    if MUT == "default_builds_empty_string":
        re_outs = [({"err": "shorter than"} if r["input"] == '""' else o) for r, o in zip(re_reqs, re_outs)]
    for k, o in zip(re_idx, re_outs):
        i, n, op, inp, e, dn, c = probes[k]
        if "ok" not in o:
            viol.append({"kind": "unchecked-constructor-builds-value-its-own-deserialize-rejects",
                         "constructor": "impl Default (T::default())" if op == "default"
                         else "serde default functions (from_str::<%s>(\"{}\"))" % n,
                         "module": i, "type": n, "definition": dn,
                         "definitions": defs_of(i), "built_value": outs[k]["ok"], "deserialize_of_built_value": o,
                         "expected": "the schema is rejected when it is added, or the built value satisfies the "
                                     "represented constraints"})
    # oracle: the built value of a DEFINITION must be valid under its schema
    batches, meta = [], []
    for i, lst in obatch.items():
        batches.append(({"definitions": defs_of(i)}, [({"$ref": "#/definitions/" + dn}, val) for _k, dn, val in lst]))
        meta.append(lst)
    if batches:
        for lst, verd in zip(meta, oracle.classify(batches)):
            for (k, dn, val), ok in zip(lst, verd):
                i, n, op, inp, e, _dn, c = probes[k]
                cnt["constructed_values_oracle_classified"] += 1
                if ok is False:
                    if c or (op == "de" and strict_oracle):
                        viol.append({"kind": "unchecked-constructor-builds-schema-invalid-value", "module": i, "type": n,
                                     "definition": dn, "definitions": defs_of(i), "built_value": val,
                                     "constructor": "impl Default" if op == "default" else "serde default functions"})
                    else:
                        cnt["constructed_values_oracle_invalid_unconstrained_type"] += 1
    return viol, dict(cnt)


def default_cases(seed, n):
    """Seeded cases: one constrained type (every constraint kind) carrying a default - as definition
    default or as member default - chosen among valid values, invalid values and the INTRINSIC values
    ("" / 0 / 0.0) the constraint excludes.  expect is decided by the oracle: a valid default must
    generate (and its constructor is then executed), an invalid one must be refused at add time."""
    import random
    rnd = random.Random(seed * 104729 + 5)
    kinds = []
    for m in (1, 2):
        kinds.append(({"type": "string", "minLength": m}, ["", "é" * (m - 1), "é" * m, "abc"]))
    for m in (0, 1, 2):
        kinds.append(({"type": "string", "maxLength": m}, ["", "é" * m, "é" * (m + 1), "abcd"]))
    for pat, (good, bad) in sorted(schemagen.PAT_SAMPLES.items()):
        kinds.append(({"type": "string", "pattern": pat}, [""] + good[:2] + bad[:2]))
    kinds.append(({"type": "integer", "enum": [1, 2, 3]}, [0, 2, 7]))
    kinds.append(({"type": "integer", "enum": [0, 5]}, [0, 5, 1]))
    kinds.append(({"type": "number", "enum": [1.5, 2.5]}, [0.0, 1.5, 3.5]))
    kinds.append(({"not": {"type": "integer", "enum": [0]}}, [0, 5]))
    kinds.append(({"not": {"type": "integer", "enum": [3, 4]}}, [0, 3]))
    kinds.append(({"type": "string", "enum": ["red", "green"]}, ["", "red", "blue"]))
    out = []
    for k in range(n):
        sch, vals = kinds[rnd.randrange(len(kinds))]
        d = vals[rnd.randrange(len(vals))]
        s = dict(sch, default=d)
        if rnd.random() < 0.5:
            defs = {"T": s}
            where = "definition"
        else:
            defs = {"H": {"type": "object", "properties": {"m": s, "other": {"type": "integer"}}}}
            where = "member"
        out.append(("rand-default-%d" % k, {"defs": defs, "probes": [], "_default": (sch, d, where)}))
    verd = oracle.classify([({"definitions": {}}, [(c["_default"][0], c["_default"][1]) for _, c in out])])[0]
    for (_, c), ok in zip(out, verd):
        c["expect"] = "ok" if ok else "rejected"
    return out


# ---------------------------------------------------------------------------
# float enums / float deny lists: NEAR-member probes (member +- 1 ulp, x(1 +- 2^-52), +-1e-17 / +-1e-300
# around 0).  The allow list of a float newtype is compared with `==` on f64; a tolerance would accept them.
# ---------------------------------------------------------------------------
def near_members(m):
    import math
    m = float(m)
    out = [math.nextafter(m, math.inf), math.nextafter(m, -math.inf), m * (1 + 2.0 ** -52), m * (1 - 2.0 ** -52)]
    if m == 0.0:
        out += [1e-300, -1e-300, 1e-17, -1e-17, 2.2e-16, 5e-324]
    else:
        out += [m + 1e-17 if abs(m) < 0.1 else math.nextafter(math.nextafter(m, math.inf), math.inf)]
    seen = []
    for x in out:
        if x != m and x not in seen and math.isfinite(x):
            seen.append(x)
    return seen


def floats_of(v):
    if isinstance(v, float):
        return [v]
    if isinstance(v, dict):
        return [x for y in v.values() for x in floats_of(y)]
    if isinstance(v, list):
        return [x for y in v for x in floats_of(y)]
    return []


def lossy_parse(inp, out):
    """did the compiled parser read a number of the probe as a DIFFERENT f64 (serde_json without
    float_roundtrip may be off by one ulp)?  Such a probe does not test what it was meant to test."""
    if isinstance(inp, bool) or isinstance(out, bool):
        return False
    if isinstance(inp, float):
        return isinstance(out, (int, float)) and float(out) != inp
    if isinstance(inp, dict) and isinstance(out, dict):
        return any(lossy_parse(v, out[k]) for k, v in inp.items() if k in out)
    if isinstance(inp, list) and isinstance(out, list):
        return any(lossy_parse(a, b) for a, b in zip(inp, out))
    return False


def float_cases(seed, n):
    """Seeded: float-typed allow lists (typed `number` and untyped numeric enum) and deny lists (typed and
    untyped `not enum`), at definition level and as a struct member; probes = members, far non-members and
    NEAR members; the oracle classifies every probe."""
    import random
    rnd = random.Random(seed * 7368787 + 3)
    pool = [0.0, 0.5, 1.0, 1.5, 2.25, -3.0, 100.0, 0.001, -0.125, 1e10, 3.0]
    out = []
    for k in range(n):
        vals = rnd.sample(pool, rnd.randrange(1, 4))
        if all(float(v).is_integer() for v in vals):
            vals[0] = 0.5 if 0.5 not in vals else 2.25      # keep it a FLOAT enum (an all-integral list is an integer enum)
        shape = rnd.choice(["typed", "untyped", "not-typed", "not-untyped"])
        if shape == "typed":
            g = {"type": "number", "enum": vals}
        elif shape == "untyped":
            g = {"enum": vals}
        elif shape == "not-typed":
            g = {"type": "number", "not": {"enum": vals}}
        else:
            g = {"not": {"enum": vals}}
        probes = []
        for m in vals:
            probes.append(m)
            probes += near_members(m)
        probes += [0.25, 2, -7.5, "x", None]
        defs = {"G": g, "H": {"type": "object", "properties": {"g": {"$ref": "#/definitions/G"}}, "required": ["g"]},
                "Echo": {"type": "number"}}
        pl = [{"t": "G", "input": x} for x in probes] + [{"t": "H", "input": {"g": x}} for x in probes[:8]]
        out.append(("rand-float-%d-%s" % (k, shape), {"defs": defs, "expect": "ok", "probes": pl}))
    return out


def has_flat_union(dump):
    """a struct all of whose members are flattened Options: the representation of an anyOf of non-exclusive branches"""
    ents = dump["entries"]
    for e in ents.values():
        if e["kind"] == "struct" and len(e["props"]) >= 2 and \
                all(p["rename"]["k"] == "flatten" and ents.get(str(p["type_id"]), {}).get("kind") == "option" for p in e["props"]):
            return True
    return False


def all_branches_reject(doc, schema, inst, depth=0):
    """is there a position whose schema is an anyOf of >= 2 object branches, whose value is an object, and which
    EVERY branch rejects on its own (oracle)?"""
    if depth > 10 or not isinstance(schema, dict):
        return False
    s = schemagen.resolve(doc, schema)
    if not isinstance(s, dict):
        return False
    bs = s.get("anyOf")
    if isinstance(bs, list) and len(bs) >= 2 and isinstance(inst, dict) and \
            all(isinstance(b, dict) and (b.get("type") == "object" or "properties" in b) for b in bs):
        verd = oracle.classify([(doc, [(b, inst) for b in bs])])[0]
        if all(x is False for x in verd):
            return True
    if isinstance(inst, dict) and isinstance(s.get("properties"), dict):
        return any(all_branches_reject(doc, ps, inst[k], depth + 1) for k, ps in s["properties"].items() if k in inst)
    if isinstance(inst, list) and isinstance(s.get("items"), dict):
        return any(all_branches_reject(doc, s["items"], x, depth + 1) for x in inst)
    return False


# ---------------------------------------------------------------------------
# closed objects produced THROUGH a merge (allOf / $ref + siblings): the closed-object constraint of one
# conjunct must survive whatever the other conjuncts say about additionalProperties, in every order
# ---------------------------------------------------------------------------
AP = {"absent": None, "true": True, "false": False, "schema": {"type": "integer"}}

def branch(props, req, ap):
    b = {"type": "object", "properties": {k: {"type": "string"} if k != "size" else {"type": "integer"} for k in props}}
    if req:
        b["required"] = req
    if ap != "absent":
        b["additionalProperties"] = AP[ap]
    return b

def merge_case(name, aps, form):
    """aps: tuple of ap kinds per branch; every branch declares the same members (so a closed branch does not
    exclude the other branches' members)"""
    props = ["name", "size"]
    bs = [branch(props, ["name"] if k == 0 else [], ap) for k, ap in enumerate(aps)]
    if form == "allOf":
        defs = {"W": {"allOf": bs}}
    elif form == "allOf-ref":
        defs = {"Base": bs[0], "W": {"allOf": [{"$ref": "#/definitions/Base"}] + bs[1:]}}
    else:   # $ref with sibling keywords
        sib = dict(bs[1]); sib.pop("type", None)
        defs = {"Base": bs[0], "W": dict({"$ref": "#/definitions/Base"}, **sib)}
    good = {"name": "a", "size": 3}
    probes = [{"t": "W", "input": good}, {"t": "W", "input": dict(good, colour="red")}, {"t": "W", "input": dict(good, extra=7)},
              {"t": "W", "input": {"size": 3}}, {"t": "W", "input": {"name": 5}}]
    c = {"defs": defs, "probes": probes, "expect": "any"}
    if form == "ref-siblings":
        c["exact"] = "any"      # draft-07 ignores the siblings of "$ref"; typify merges them: not understood by `exact`
    return (name, c)

def tuple_case(name, ais):
    AI = {"absent": None, "true": True, "false": False}
    bs = []
    for ai in ais:
        b = {"type": "array", "items": [{"type": "string"}, {"type": "integer"}], "minItems": 2}
        if ai != "absent":
            b["additionalItems"] = AI[ai]
        bs.append(b)
    defs = {"W": {"allOf": bs}}
    probes = [{"t": "W", "input": ["a", 1]}, {"t": "W", "input": ["a", 1, 2]}, {"t": "W", "input": ["a"]}, {"t": "W", "input": [1, 1]}]
    return (name, {"defs": defs, "probes": probes, "expect": "any"})

def merge_corpus(full):
    """closed objects arising THROUGH a merge: every combination of additionalProperties in {absent, true, false,
    schema} over two conjuncts in both orders, as allOf, allOf with a $ref conjunct, and $ref with sibling keywords
    (quick: the latter two forms only for the combinations that involve `false`); tuples with additionalItems"""
    import itertools
    out = []
    for aps in itertools.product(AP, repeat=2):
        for form in ("allOf", "allOf-ref", "ref-siblings"):
            if form != "allOf" and not full and "false" not in aps:
                continue
            out.append(merge_case("merge-%s-%s" % (form, "-".join(aps)), aps, form))
    for ais in itertools.product(("absent", "true", "false"), repeat=2):
        if full or "false" in ais:
            out.append(tuple_case("merge-tuple-%s" % "-".join(ais), ais))
    return out

def merge_cases(seed, n):
    import random
    rnd = random.Random(seed * 15485863 + 9)
    out = []
    for k in range(n):
        aps = tuple(rnd.choice(list(AP)) for _ in range(3))
        out.append(merge_case("rand-merge-%d-%s" % (k, "-".join(aps)), aps, rnd.choice(["allOf", "allOf-ref"])))
    return out


ODD_ENUMS = [
    ["{id}", "plain"], ["{", "}"], ["{{", "}}"], ["{}", "{0}", "{self}"], ["a{b}c", "{{id}}", "{id}"],
    ["100%", "%s", "%"], ["back\\slash", "\\n", "\\"], ["say \"hi\"", "it's", "\""], [" lead", "trail ", " both "],
    ["", "x"], ["on", "ON", "On"], ["a", "A"], ["{", "ok"], ["}", "ok"], ["{{", "ok"], ["}}", "ok"], ["{}", "ok"], ["\u00e9", "\u65e5\u672c", "\u00df", "\u0130"], ["{:?}", "{:>5}", "a}b"],
]


def enum_case(name, vals):
    return (name, {"defs": {"E": {"type": "string", "enum": vals},
                            "H": {"type": "object", "properties": {"e": {"$ref": "#/definitions/E"}}, "required": ["e"]}},
                   "expect": "any",       # typify refuses value sets whose identifiers collide: then there is no type
                   "probes": [{"t": "E", "input": v} for v in vals] +
                             [{"t": "E", "input": x} for v in vals for x in escape_variants(v)[:6]] +
                             [{"t": "H", "input": {"e": vals[0]}}, {"t": "H", "input": {"e": escape_variants(vals[0])[0]}}]})


def enum_corpus():
    """string enums whose values stress the templates: braces (Display format string), percent, backslash, quotes,
    leading / trailing spaces, the empty string, values differing only in case, multi-byte"""
    return [enum_case("odd-enum-%d" % k, vals) for k, vals in enumerate(ODD_ENUMS)]


def enum_cases(seed, n):
    import random
    rnd = random.Random(seed * 2750159 + 1)
    pool = sorted({v for vals in ODD_ENUMS for v in vals} | {"red", "Dark-Blue", "a b", "x{y", "}z{", "{{a}}", "%{", "q\\{"})
    return [enum_case("rand-enum-%d" % k, rnd.sample(pool, rnd.randrange(2, 5))) for k in range(n)]


def builder_scan(gens):
    """struct_builder = true: every builder field is private, every setter converts
    through TryInto, so a constrained-type member can only be filled by a validated value"""
    viol = []
    cnt = collections.Counter()
    for i, g in enumerate(gens):
        if not (g.get("r") == "done" and g.get("all_ok") and g.get("render", {}).get("r") == "ok"):
            continue
        scan = g["render"]["scan"]
        constrained = {e["name"] for e in g["dump"]["entries"].values()
                       if e["kind"] == "newtype" and e["constraints"]["k"] != "none"}
        for it in scan["items"]:
            if it["mod"] != "builder" or it["kind"] != "struct":
                continue
            cnt["builder_structs"] += 1
            fl = it["fields"].get("fields", [])
            for f in fl:
                ty = norm(f["ty"])
                if f["vis"] != "private" or not ty.startswith("::std::result::Result<"):
                    viol.append({"kind": "builder-field-not-private-result", "module": i, "struct": it["name"], "field": f})
                if any(re.search(r"\bsuper::%s\b" % re.escape(c), ty) for c in constrained):
                    cnt["builder_fields_of_constrained_type"] += 1
            setters = [im for im in scan["impls"] if im["mod"] == "builder" and norm(im["for"]) == it["name"]
                       and not im["trait"]]
            body = " ".join(norm(im["body"]) for im in setters)
            fns = [f for im in setters for f in im["fns"]]
            if MUT == "builder_no_tryinto":
                body = body.replace("try_into", "into")
            n_try = len(re.findall(r"\.try_into\(\)", body))
            if sorted(fns) != sorted(f.get("name") for f in fl) or n_try < len(fl) or \
                    len(re.findall(r"TryInto<", body)) < len(fl):
                viol.append({"kind": "builder-setter-without-TryInto", "module": i, "struct": it["name"], "setters": fns,
                             "try_into_calls": n_try, "fields": len(fl)})
    return viol, dict(cnt)


# ---------------------------------------------------------------------------
# curated corpus
# ---------------------------------------------------------------------------
def corpus_cases():
    out = []
    for f in sorted(glob.glob(os.path.join(CORPUS, "*.json"))):
        c = json.load(open(f))
        out.append((os.path.basename(f)[:-5], c))
    return out


def null_payload_variant(schema, name):
    """is `name` the single property of a oneOf/anyOf branch that is a closed one-property object whose payload is
    {"type": "null"} ?"""
    if not isinstance(schema, dict) or not isinstance(name, str):
        return False
    for k in ("oneOf", "anyOf"):
        for b in schema.get(k) or []:
            if isinstance(b, dict) and isinstance(b.get("properties"), dict) and list(b["properties"]) == [name] and \
                    b["properties"][name] == {"type": "null"} and name in (b.get("required") or []):
                return True
    return False


def classify_known(ctx, v):
    """narrow classes of findings/C05.json; returns the finding or None"""
    listed = {f["class"]: f for f in ctx.findings_for()}
    if v.get("kind") != "invalid-instance-accepted":
        return None
    sch = v.get("definition_schema") or {}
    inst = v.get("instance")
    pos = v.get("position_schema") or sch
    # F2: a unit variant written as {"<member>": null} where the schema wants the string
    def f2(s, x):
        if isinstance(s, dict) and "enum" in s and isinstance(x, dict) and len(x) == 1:
            (k, val), = x.items()
            return val is None and k in s["enum"]
        if isinstance(s, dict) and "oneOf" in s and isinstance(x, dict) and len(x) == 1:
            (k, val), = x.items()
            return val is None and any(isinstance(b, dict) and k in (b.get("enum") or []) for b in s["oneOf"])
        return False
    if f2(pos, v.get("position_value", inst)):
        return listed.get("unit-variant-of-string-enum-written-as-single-key-object-with-null")
    # F10: the bare name of a null-payload variant
    if isinstance(v.get("position_value", inst), str) and isinstance(pos, dict) and \
            null_payload_variant(pos, v.get("position_value", inst)):
        return listed.get("null-payload-variant-read-as-unit")
    # F9: derived type name reused for a different inline object schema
    if v.get("position_name_reuse"):
        return listed.get("inline-object-checked-against-another-schema-through-type-name-reuse")
    # F8: an anyOf of non-exclusive object branches is a struct of flattened Option subtypes; a value that
    # EVERY branch rejects is accepted with all subtypes None
    if v.get("ir_has_flattened_union") and isinstance(v.get("document"), dict) and \
            all_branches_reject(v["document"], {"$ref": "#/definitions/" + v["definition"]}, inst):
        return listed.get("value-rejected-by-every-branch-of-a-flattened-anyOf-accepted-as-all-None")
    # F4 / F5: a member added to a closed variant object of a tagged oneOf (decided on the schema:
    # the tag is the property every branch pins to one string)
    pvv = v.get("position_value", inst)
    if isinstance(pos, dict) and isinstance(pos.get("oneOf"), list) and isinstance(pvv, dict):
        brs = [b for b in pos["oneOf"] if isinstance(b, dict) and isinstance(b.get("properties"), dict)]
        tags = [k for k in (brs[0]["properties"] if brs else {})
                if len(brs) == len(pos["oneOf"]) and all(isinstance(b["properties"].get(k), dict) and
                                                          isinstance(b["properties"][k].get("enum"), list) and
                                                          len(b["properties"][k]["enum"]) == 1 for b in brs)]
        if len(tags) == 1:
            tg = tags[0]
            others = set()
            for b in brs:
                others |= set(b["properties"]) - {tg}
            adjacent_shape = len(others) == 1
            for b in brs:
                if b.get("additionalProperties") is False and b["properties"][tg]["enum"] == [pvv.get(tg)] and \
                        set(pvv) - set(b["properties"]) and all(k in pvv for k in b.get("required", [])):
                    if adjacent_shape:
                        return listed.get("extra-member-on-closed-variant-of-adjacently-tagged-enum")
                    if set(b["properties"]) == {tg}:
                        return listed.get("extra-member-on-closed-tag-only-variant-of-internally-tagged-enum")
    # F6: null for {"type":[T,"null"],"enum":[...]} (T string or integer) whose values do not contain null
    if "position_value" in v and v["position_value"] is None and isinstance(pos, dict) and \
            isinstance(pos.get("type"), list) and len(pos["type"]) == 2 and "null" in pos["type"] and \
            (set(pos["type"]) - {"null"}) <= {"string", "integer"} and isinstance(pos.get("enum"), list) and \
            None not in pos["enum"]:
        return listed.get("null-for-nullable-enum-that-does-not-enumerate-null")
    # F7: a boolean that is not a member of the enum of a boolean schema
    if isinstance(pos, dict) and pos.get("type") == "boolean" and isinstance(pos.get("enum"), list) and \
            isinstance(pvv, bool) and pvv not in pos["enum"]:
        return listed.get("boolean-enum-not-represented")
    # F3: an explicit null for a member that is not required and whose schema does not admit null
    if v.get("position_is_optional_member") and v.get("position_value", 0) is None and "position_value" in v:
        return listed.get("explicit-null-for-optional-non-nullable-member")
    return None


def fill_missing_nullable_required(doc, schema, inst, depth=0):
    """copy of inst in which every missing required member whose schema admits null is set to null"""
    if depth > 12 or not isinstance(schema, dict):
        return inst
    s = schemagen.resolve(doc, schema)
    if not isinstance(s, dict):
        return inst
    for k in ("oneOf", "anyOf"):
        if k in s and isinstance(inst, (dict, list)):
            for b in s[k]:
                r = fill_missing_nullable_required(doc, b, inst, depth + 1)
                if r != inst:
                    return r
            return inst
    if isinstance(inst, dict):
        out = dict(inst)
        props = s.get("properties", {}) if isinstance(s.get("properties"), dict) else {}
        for k in s.get("required", []):
            if k not in out and k in props and schemagen._accepts_null(doc, props[k]):
                out[k] = None
        for k, sv in props.items():
            if k in out:
                out[k] = fill_missing_nullable_required(doc, sv, out[k], depth + 1)
        return out
    if isinstance(inst, list):
        it = s.get("items")
        if isinstance(it, dict):
            return [fill_missing_nullable_required(doc, it, x, depth + 1) for x in inst]
        if isinstance(it, list):
            return [fill_missing_nullable_required(doc, si, x, depth + 1) for si, x in zip(it, inst)] + inst[len(it):]
    return inst


def only_missing_nullable_required(doc, defname, inst):
    """the oracle-invalid instance becomes VALID once its missing required nullable members are set to
    null: it deletes a required NULLABLE member, which is not one of the eight mutator kinds"""
    ref = {"$ref": "#/definitions/" + defname}
    try:
        filled = fill_missing_nullable_required(doc, ref, inst)
        if filled == inst:
            return False
        return oracle.classify([(doc, [(ref, filled)])])[0][0] is True
    except Exception:  # noqa
        return False


def resolve_position(doc, schema, inst):
    """deepest (subschema, subvalue, is_optional_member, path) that the oracle rejects on its own, for classification"""
    best = (schema, inst, False, ())
    REJECTED_POSITIONS.clear()
    try:
        by_path = {}
        for path, s, v in schemagen.paths(doc, schema, inst):
            by_path[path] = s
            r = oracle.classify([(doc, [(s, v)])])[0][0]
            if r is False:
                parent = by_path.get(path[:-1]) if path else None
                opt = bool(path) and isinstance(parent, dict) and isinstance(path[-1], str) and \
                    path[-1] in parent.get("properties", {}) and path[-1] not in parent.get("required", [])
                best = (s, v, opt, path)
                REJECTED_POSITIONS.append((path, s, v))
    except Exception:  # noqa
        pass
    return best


REJECTED_POSITIONS = []      # every position of the last resolve_position call that the oracle rejects on its own


def inline_objects_by_key(doc):
    """{property key: [inline object schemas declared for a property of that name anywhere in the document]}"""
    out = {}

    def walk(s, depth=0):
        if depth > 14 or not isinstance(s, dict):
            return
        for k, ps in (s.get("properties") or {}).items():
            if isinstance(ps, dict) and "$ref" not in ps and (ps.get("type") == "object" or "properties" in ps):
                out.setdefault(k, []).append(ps)
            walk(ps, depth + 1)
        for key in ("items", "additionalProperties", "not"):
            x = s.get(key)
            if isinstance(x, dict):
                walk(x, depth + 1)
            elif isinstance(x, list):
                for y in x:
                    walk(y, depth + 1)
        for key in ("oneOf", "anyOf", "allOf"):
            for y in s.get(key) or []:
                walk(y, depth + 1)
    for d in doc.get("definitions", {}).values():
        walk(d)
    return out


def name_reuse(doc, ps, pv, path):
    """finding F9 (= C02-F3 seen from C05's side): the violating value sits at a property whose inline object schema
    shares its derived type name with ANOTHER inline object schema of a property of the same name; typify's
    assign_type reuses the first type by name, so the value is checked against the other schema - under which it is
    valid"""
    if not path or not isinstance(path[-1], str) or not isinstance(ps, dict) or "$ref" in ps:
        return False
    others = [o for o in inline_objects_by_key(doc).get(path[-1], []) if o != ps]
    if not others:
        return False
    verd = oracle.classify([(doc, [(o, pv) for o in others])])[0]
    return any(x is True for x in verd)


# ---------------------------------------------------------------------------
def run(ctx):
    ctx.level = "proof"
    quick = ctx.tier == "quick"
    ctx.checker_cmd = ("make -f Makefile.coq theories/Props/C05.vo && coqc Audit_C05.v (Print Assumptions); "
                       "coqc work/cases/c05exact*/exact.v (validator on the dumped IRs); python py/props/c05.py "
                       "(direct evaluation on compiled code, K5, agreement probes, syn scan)")
    ctx.trusted = [
        "Coq 8.16.1 kernel + vm_compute; no axioms (Print Assumptions: closed under the global context)",
        "IR/Serde.v as the meaning of serde on generated types (hand model, tied to the compiled code by K5 each run)",
        "Spec/Valid.v leaf predicates (valid_type/valid_enum/valid_str/valid_obj_local) as draft-07 validity; the "
        "independent oracle of the direct evaluation is python jsonschema + integer-format ranges",
        "py/tocoq.py translators (schema / JSON / IR dump -> Gallina terms), verif_dump hook, vh gen syn scan, py/world.py driver",
        "section variables: regex engine re_match (regress find, unanchored), native parsers native_ok",
        "Algo/StrConv.v (conversion templates; tied by C11's check) and Algo/Emit.v field_vis (tied by C19's check) for "
        "the restated theorems C05_try_from_is_parse, C05_parse_is_de, C05_try_from_inner_is_de, C05_constrained_field_private; "
        "this check additionally evaluates both clauses directly on the compiled code / syn scan",
    ]
    ctx.assumptions = [
        "instance domain: integers written as integer literals (DESIGN 3.2)",
        "a struct also deserialises from a JSON array (serde_derive visit_seq): 'type: object' of non-scalars is not one "
        "of the enforced kinds; C05_required_enforced / C05_closed_enforced / C05_exact_root_sound speak about objects",
        "exact soundness is proved at the root position and one step through struct members (iterable along any path of "
        "struct members); the lifting through array items / tuple positions / map values / references and the tag "
        "transfer are evaluated by the checker but their soundness is not proved (_partial)",
        "the forall-schema quantifier is discharged per explored document (validator evaluation, kernel instantiation, "
        "direct evaluation); on the converter fragment it is CLOSED by Props/C05F.v (C05F_convert_exact: exact holds for "
        "convert(S) for every fragment schema S with in_frag_exact = in_frag and no nullable string enum - finding C05-F6), "
        "tied to the real converter by convert_check's K3 run",
    ]
    vlib.build_harness(bins=("vh",))

    # ---------------- (f) Coq obligations
    thms = theorem_names(PROPS)
    miss = [t for t in THEOREMS if t not in thms]
    ctx.oblige("Props/C05.v states the %d pinned theorems" % len(THEOREMS), not miss, "missing: %s" % miss)
    coq_ok = vlib.standard_coq_obligations(ctx, "Props.C05", [t for t in THEOREMS if t in thms], ())
    # the schema quantifier closed on the converter fragment (Props/C05F.v, built by the `convert` agent)
    try:
        import convert_check
        convert_check.convert_obligations(ctx, "C05")
    except Exception as e:  # noqa
        ctx.oblige("converter-fragment obligations (Props/C05F.v) evaluate", False, str(e)[-1500:])

    # ---------------- (a) world of the shared faithful exploration
    # world / case-directory tags carry the tier and the seed (mod 97) so that two runs of this check with
    # different seeds do not evict each other's world or wipe each other's case files
    sfx = ("q" if quick else "t") + str(ctx.seed % 97)
    wname = "c05" + sfx
    # bound the disk used by per-seed worlds: drop this check's worlds of other seeds older than 2 hours
    try:
        import shutil
        import time as _time
        for d in os.listdir(world.WORLD_ROOT):
            if re.match(r"^c05[qt]\d+c?-", d) and not d.startswith(wname + "-") and not d.startswith(wname + "c-") and \
                    _time.time() - os.path.getmtime(os.path.join(world.WORLD_ROOT, d)) > 7200:
                shutil.rmtree(os.path.join(world.WORLD_ROOT, d), ignore_errors=True)
    except OSError:
        pass
    ex = faithful.build(ctx, n_sup=30 if quick else 150, n_full=30 if quick else 150, n_inst=3 if quick else 6,
                        world_name=wname)
    w = ex.world
    ctx.coverage["distribution"] = faithful.distribution(ex)
    ctx.evaluations += len(ex.items)
    n_ok = len([s for s in w.status if s == "ok"])
    ctx.oblige("world: at least 90%% of the documents generated and compiled (%d/%d)" % (n_ok, len(ex.docs)),
               n_ok * 10 >= len(ex.docs) * 9, json.dumps(dict(w.compile_errors))[:800])

    found = []          # violations of the property text (dicts)
    by_kind = collections.Counter()
    skipped = 0
    for it in ex.items:
        if it["kind"] not in MUTATOR_KINDS or it["valid"] is not False:
            continue
        if "nomodule" in it["out"] or "unsupported" in it["out"]:
            skipped += 1
            continue
        accepted = it["accepted"]
        if MUT == "accept_length_over" and it["kind"] == "length-over":
            accepted = True
        if MUT == "accept_add_to_closed" and it["kind"] == "add-to-closed":
            accepted = True
        by_kind[it["kind"]] += 1
        ctx.nontrivial.add(json.dumps([ex.docs[it["m"]]["definitions"][it["name"]], it["v"]], sort_keys=True))
        if accepted:
            found.append({"kind": "invalid-instance-accepted", "mutator": it["kind"], "mutator_text": MUTATOR_KINDS[it["kind"]],
                          "document": ex.docs[it["m"]], "definition": it["name"],
                          "definition_schema": ex.docs[it["m"]]["definitions"][it["name"]],
                          "instance": it["v"], "oracle_valid": False, "compiled_answer": it["out"],
                          "stream": ex.stream[it["m"]], "expected": "from_str::<%s>(instance) is Err" % it["tname"],
                          "ir_has_flattened_union": has_flat_union(ex.dumps[it["m"]])})
    # every value the compiled type BUILT from a valid document (explicit members + whatever the serde
    # default functions / Default::default() filled in at any depth) must pass the type's own Deserialize
    rt = [it for it in ex.items if it["valid"] is True and it["accepted"] and isinstance(it["out"].get("text"), str)
          and it["out"]["text"]]
    rt_outs = w.query([{"m": it["m"], "t": it["tname"], "op": "de", "input": it["out"]["text"]} for it in rt]) if rt else []
    n_rt = 0
    for it, o in zip(rt, rt_outs):
        n_rt += 1
        if "ok" not in o and "recursion limit" not in json.dumps(o):
            found.append({"kind": "built-value-rejected-by-own-deserialize", "document": ex.docs[it["m"]],
                          "definition": it["name"], "instance": it["v"], "built_value": it["out"].get("ok"),
                          "deserialize_of_built_value": o, "stream": ex.stream[it["m"]],
                          "expected": "from_str(to_string(from_str(v))) is Ok: every member the generated code fills in "
                                      "(serde default functions, Default) satisfies the member type's constraints"})
    ctx.coverage["built_values_fed_back"] = n_rt
    ctx.evaluations += n_rt
    n_mut = sum(by_kind.values())
    ctx.coverage["mutants_oracle_invalid_by_kind"] = dict(by_kind)
    ctx.coverage["mutants_skipped_no_compiled_type"] = skipped

    # ---------------- curated corpus: its own world
    cc = corpus_cases()
    if ctx.replay:
        c = json.load(open(ctx.replay))
        if "defs" in c:
            cc.append(("replay", c))
    cc += default_cases(ctx.seed, 10 if quick else 40)
    cc += float_cases(ctx.seed, 4 if quick else 16)
    cc += enum_corpus()
    cc += enum_cases(ctx.seed, 4 if quick else 16)
    cc += merge_corpus(full=not quick)
    cc += merge_cases(ctx.seed, 4 if quick else 16)
    ccases = [{"settings": c.get("settings", {}), "steps": [{"op": "refs", "defs": c["defs"]}]} for _, c in cc]
    cw = world.World(ctx, wname + "c", ccases)
    cw.build()
    cbad = []
    creqs, cmeta, cbatches = [], [], []
    for i, (name, c) in enumerate(cc):
        st = cw.status[i]
        exp = c.get("expect", "ok")
        if exp == "any":
            pass        # the schema may be refused (unsupported merge): then there is no type to bypass
        elif (exp == "ok") != (st == "ok") or (exp == "rejected" and st != "not-generated"):
            cbad.append({"case": name, "expected": exp, "status": st, "steps": cw.gen[i].get("steps"),
                         "errors": cw.compile_errors.get(i)})
        if st != "ok":
            continue
        doc = {"definitions": c["defs"]}
        qs = []
        # a case with an `Echo` definition ({"type":"number"}): read every float of the probes through the
        # compiled parser first; a probe containing a float that is read as a DIFFERENT f64 is dropped
        lossy = set()
        if "Echo" in c["defs"]:
            fl = sorted({x for p in c.get("probes", []) for x in floats_of(p["input"])})
            en = cw.gen[i]["dump"]["entries"][str(cw.gen[i]["dump"]["ref_to_id"]["#/Echo"])]["name"]
            eo = cw.query([{"m": i, "t": en, "op": "de", "input": json.dumps(x)} for x in fl]) if fl else []
            lossy = {x for x, o in zip(fl, eo) if "ok" not in o or float(o["ok"]) != x}
            if lossy:
                ctx.coverage["probes_read_as_another_f64_by_the_compiled_parser"] = \
                    ctx.coverage.get("probes_read_as_another_f64_by_the_compiled_parser", 0) + len(lossy)
        for p in c.get("probes", []):
            if lossy and any(x in lossy for x in floats_of(p["input"])):
                continue
            # p["t"] is a DEFINITION name; the generated type's name comes from the dump
            ent = cw.gen[i]["dump"]["entries"][str(cw.gen[i]["dump"]["ref_to_id"]["#/" + p["t"]])]
            p = dict(p, tname=ent["name"])
            creqs.append({"m": i, "t": p["tname"], "op": "de", "input": json.dumps(p["input"])})
            cmeta.append((i, name, c, p))
            qs.append(({"$ref": "#/definitions/" + p["t"]}, p["input"]))
        cbatches.append((doc, qs))
    ctx.oblige("curated corpus: every case generates / is rejected as recorded (%d cases)" % len(cc), not cbad,
               json.dumps(cbad)[:2000])
    couts = cw.query(creqs) if creqs else []
    cverd = [x for b in oracle.classify(cbatches) for x in b] if cbatches else []
    n_cur = 0
    if MUT == "merge_true_false_open":
        flipped = []
        for (i, name, c, p), o in zip(cmeta, couts):
            txt = json.dumps(c["defs"])
            if name.startswith(("merge-", "rand-merge-")) and '"additionalProperties": true' in txt and \
                    '"additionalProperties": false' in txt and isinstance(p["input"], dict) and \
                    set(p["input"]) - {"name", "size"} and "name" in p["input"] and "err" in o:
                o = {"ok": p["input"], "text": json.dumps(p["input"])}
            flipped.append(o)
        couts = flipped
    if MUT == "float_tolerance":
        # emulate `(*v - value).abs() <= f64::EPSILON` instead of `contains(&value)` in TryFrom<f64>
        flipped = []
        for (i, name, c, p), o in zip(cmeta, couts):
            sch = c["defs"].get(p["t"], {})
            x = p["input"]
            if isinstance(sch.get("enum"), list) and isinstance(x, float) and "err" in o and \
                    any(isinstance(m, (int, float)) and not isinstance(m, bool) and abs(m - x) <= 2.220446049250313e-16
                        for m in sch["enum"]):
                o = {"ok": x, "text": json.dumps(x)}
            flipped.append(o)
        couts = flipped
    for (i, name, c, p), o, valid in zip(cmeta, couts, cverd):
        n_cur += 1
        ctx.evaluations += 1
        ctx.nontrivial.add("corpus/%s/%s/%s" % (name, p["t"], json.dumps(p["input"])))
        if valid is False and "ok" in o and lossy_parse(p["input"], o["ok"]):
            ctx.coverage["probes_read_as_another_f64_by_the_compiled_parser"] = \
                ctx.coverage.get("probes_read_as_another_f64_by_the_compiled_parser", 0) + 1
        elif valid is False and "ok" in o:
            dn = p["t"]
            found.append({"kind": "invalid-instance-accepted", "mutator": "curated", "document": {"definitions": c["defs"]},
                          "ir_has_flattened_union": has_flat_union(cw.gen[i]["dump"]),
                          "definition": dn, "definition_schema": c["defs"][dn], "instance": p["input"],
                          "oracle_valid": False, "compiled_answer": o, "stream": "corpus:" + name,
                          "expected": "from_str::<%s>(instance) is Err" % p["tname"]})
        elif p.get("finding") and not (valid is False and "ok" in o):
            # a recorded finding that no longer reproduces is worth knowing, not a failure
            ctx.coverage.setdefault("findings_not_reproduced", []).append({"case": name, "probe": p, "oracle": valid, "answer": o})
    ctx.coverage["curated_probes"] = n_cur
    # coverage of the eight mutator kinds: the random stream, completed by the curated probes (a small random world
    # may contain no pattern / length position for some seeds; the corpus always has oracle-invalid probes for them)
    cur_kind = collections.Counter()
    for (i, name, c, p), valid in zip(cmeta, cverd):
        if valid is False:
            txt = json.dumps(c["defs"])
            if '"pattern"' in txt and isinstance(p["input"], (str, dict)):
                cur_kind["pattern-break"] += 1
            if ('"maxLength"' in txt or '"minLength"' in txt) and isinstance(p["input"], (str, dict)):
                cur_kind["length-over"] += 1
            if '"enum"' in txt:
                cur_kind["enum-nonmember"] += 1
    ctx.coverage["curated_invalid_probes_by_kind_keyword"] = dict(cur_kind)
    miss_kinds = [k for k in ("delete-required", "add-to-closed", "enum-nonmember", "length-over", "pattern-break",
                              "tuple-arity-short", "scalar-type-swap", "alter-tag") if by_kind[k] + cur_kind[k] == 0]
    ctx.oblige("direct evaluation covers all eight mutator kinds (random stream %s + curated %s)" % (dict(by_kind), dict(cur_kind)),
               not miss_kinds, str(miss_kinds))
    ctx.coverage["direct_property_evaluations"] = n_mut + n_cur

    # ---------------- (b) K5
    k5_ok = True
    try:
        n_sup, mism = k5_compare(ex, "c05k5" + sfx)
        if MUT.startswith("accept_"):
            for it in ex.items:
                if it["kind"] == MUT[len("accept_"):].replace("_", "-") and it["valid"] is False and it.get("sup") and \
                        k5.model_canon(it["model"])[0] == "err":
                    mism.append({"mutated": True, "instance": it["v"]})
        k5_ok = not mism
        ctx.oblige("correspondence K5: IR/Serde.v de/ser = compiled from_str/to_value on %d (type, instance) pairs" % n_sup,
                   not mism, json.dumps(mism[:2])[:1500])
        ctx.coverage["k5_pairs"] = n_sup
        ctx.coverage["k5_mismatches"] = len(mism)
        ctx.coverage["k5_skipped_deeper_than_fuel"] = len(K5_DEEP)
        # curated probes through the model too
        cdumps = {i: cw.gen[i]["dump"] for i in range(len(cc)) if cw.status[i] == "ok"}
        ccs = []
        for (i, name, c, p) in cmeta:
            tid = cdumps[i]["ref_to_id"]["#/" + p["t"]]
            ccs.append((i, tid, p["input"]))
        if ccs:
            sup = k5.eval_cases("c05k5c" + sfx + "_sup", cdumps, ccs, fn="run_sup", shard=100)
            mod = k5.eval_cases("c05k5c" + sfx, cdumps, ccs, fn="run_rt", shard=100)
            cm = []
            for (i, name, c, p), o, s, m in zip(cmeta, couts, sup, mod):
                if s != "sup":
                    continue
                if "ok" in o and lossy_parse(p["input"], o["ok"]):
                    continue            # the compiled parser read the probe as another f64: not comparable
                a, b = k5.impl_canon(o), k5.model_canon(m)
                if not (a[0] == b[0] and (a[0] != "ok" or k5.canon_eq(a[1], b[1]))):
                    cm.append({"case": name, "probe": p, "compiled": o, "model": m[:300]})
            ctx.oblige("correspondence K5 on the curated probes (%d)" % len(ccs), not cm, json.dumps(cm[:3])[:1500])
            k5_ok = k5_ok and not cm
    except Exception as e:  # noqa
        k5_ok = False
        ctx.oblige("correspondence K5 evaluates", False, str(e)[-1500:])

    # ---------------- (c) the transfer validator on the real IRs
    try:
        sup_ids = [i for i, s in enumerate(ex.stream) if s == "supported" and i in ex.dumps]
        res, skp = exact_eval("c05exact" + sfx, ex.docs,
                              [ex.dumps.get(i) for i in range(len(ex.docs))])
        pinned_bad, unpinned = [], collections.Counter()
        rate = collections.Counter()
        for (i, n), r in res.items():
            stream = ex.stream[i].split(":")[0]
            rate[(stream, r)] += 1
            if r != "T":
                if nullable_tagged_union(ex.docs[i], ex.docs[i]["definitions"][n]):
                    # Option<tagged enum>: the checker does not understand this shape (it answers false,
                    # never true wrongly); counted, not pinned
                    ctx.coverage["validator_unpinned_nullable_tagged_union"] = \
                        ctx.coverage.get("validator_unpinned_nullable_tagged_union", 0) + 1
                elif i in sup_ids and not (set(ex.tags[i]) & EXACT_NOT_PINNED_TAGS):
                    pinned_bad.append({"definition": n, "schema": ex.docs[i]["definitions"][n], "tags": ex.tags[i]})
                else:
                    unpinned[stream] += 1
        ctx.coverage["validator_evaluations"] = len(res)
        if pinned_bad:
            os.makedirs(os.path.join(vlib.WORK, "replay"), exist_ok=True)
            json.dump(pinned_bad, open(os.path.join(vlib.WORK, "replay", "C05-exact-false.json"), "w"), indent=1)
        ctx.coverage["validator_verdicts_by_stream"] = {"%s:%s" % k: v for k, v in sorted(rate.items())}
        ctx.oblige("validator: exact = true for every definition of the %d supported-grammar documents (%d definitions)" % (
            len(sup_ids), len([1 for (i, n) in res if i in sup_ids])), not pinned_bad, json.dumps(pinned_bad[:3])[:2000])
        # curated: exact must be FALSE exactly where a transfer finding is recorded (F1), true elsewhere
        cres, cskp = exact_eval("c05exactc" + sfx, [{"definitions": c["defs"]} for _, c in cc],
                                [cw.gen[i]["dump"] if cw.status[i] == "ok" else None for i in range(len(cc))])
        cwrong = []
        for (i, n), r in cres.items():
            want = "F" if cc[i][1].get("exact") == "false" else "T"
            if cc[i][1].get("exact") == "any":
                continue
            if r != want:
                cwrong.append({"case": cc[i][0], "definition": n, "exact": r, "expected": want})
        ctx.oblige("validator on the curated corpus: true on every definition (incl. the regression cases of the fixed C05-F1) (%d definitions)" % len(cres),
                   not cwrong, json.dumps(cwrong)[:1500])
        ctx.coverage["validator_curated"] = {"%s/%s" % (cc[i][0], n): r for (i, n), r in cres.items()}
        # kernel instantiation of the any-depth theorem for every document whose definitions all pass
        all_true = sorted({i for (i, n) in res} - {i for (i, n), r in res.items() if r != "T"})
        if coq_ok and "C05_exact_sound_partial" in thms:
            ok_i, det_i, n_i = instantiate("c05inst" + sfx, ex.docs,
                                           [ex.dumps.get(i) for i in range(len(ex.docs))], all_true)
            cdocs = [{"definitions": c["defs"]} for _, c in cc]
            call = sorted({i for (i, n) in cres} - {i for (i, n), r in cres.items() if r != "T"})
            ok_c, det_c, n_c = instantiate("c05instc" + sfx, cdocs,
                                           [cw.gen[i]["dump"] if cw.status[i] == "ok" else None for i in range(len(cc))], call)
            ctx.coverage["kernel_instantiations"] = n_i + n_c
            ctx.oblige("kernel accepts `forall v, violation at any reachable depth -> rejected for every fuel` for the real "
                       "IR of %d documents (C05_exact_sound_partial instantiated, every regex engine)" % (n_i + n_c),
                       ok_i and ok_c, (det_i + det_c)[:2500])
        ctx.coverage["validator_skipped_untranslatable_docs"] = len(skp) + len(cskp)
    except Exception as e:  # noqa
        ctx.oblige("validator evaluates on the dumped IRs", False, str(e)[-2000:])

    # ---------------- (d) agreement clause
    try:
        n1, bad1, miss1, nt1 = agreement(ctx, w, range(len(ex.docs)), lambda i: ex.docs[i]["definitions"])
        n2, bad2, miss2, nt2 = agreement(ctx, cw, range(len(cc)), lambda i: cc[i][1]["defs"])
        ctx.evaluations += n1 + n2
        ctx.coverage["agreement_comparisons"] = n1 + n2
        ctx.coverage["agreement_types"] = {k: nt1.get(k, 0) + nt2.get(k, 0) for k in set(nt1) | set(nt2)}
        ctx.oblige("agreement: every string-validating type has FromStr and the three TryFrom impls", not (miss1 + miss2),
                   json.dumps((miss1 + miss2)[:4]))
        # finding F10: a oneOf branch {"V": null} (closed one-property object with a `type: null` payload) becomes a
        # UNIT variant, so the bare string "V" is accepted by every entry point although the schema only admits
        # {"V": null} there (the mirror image of F2)
        f10 = next((f for f in ctx.findings_for() if f["class"] == "null-payload-variant-read-as-unit"), None)
        rest = []
        for b in bad1 + bad2:
            if f10 and b.get("kind") == "entry-point-disagrees-with-the-schema" and b.get("oracle_valid") is False and \
                    "ok" in b.get(b.get("op"), {}) and \
                    null_payload_variant(b["definitions"].get(b["definition"]), b["string"]):
                ctx.known_finding(f10["id"], "%s: %s (witness: schema %s, string %s accepted by %s)" % (
                    f10["id"], f10["summary"], json.dumps(b["definitions"][b["definition"]])[:200], json.dumps(b["string"]), b["op"]))
            else:
                rest.append(b)
        found += rest
        ctx.oblige("agreement: parse / try_from(&str|String|&String) = from_str = oracle on %d probes" % (n1 + n2),
                   not rest, json.dumps(rest[:2], ensure_ascii=True)[:2000])
    except Exception as e:  # noqa
        ctx.oblige("agreement probes evaluate", False, str(e)[-1500:])

    # ---------------- (e) no back door
    try:
        v1, c1 = backdoor_scan(w, range(len(ex.docs)))
        v2, c2 = backdoor_scan(cw, range(len(cc)))
        v4, c4 = constructor_probes(w, range(len(ex.docs)), lambda i: ex.docs[i]["definitions"])
        v5, c5 = constructor_probes(cw, range(len(cc)), lambda i: cc[i][1]["defs"], strict_oracle=True)
        # builder: scan only (no compilation needed); the behaviour of the builder is C18's subject
        bcases = [{"settings": {"struct_builder": True}, "steps": [{"op": "root", "doc": d}]}
                  for d in ex.docs[: (12 if quick else 60)]]
        bcases += [{"settings": {"struct_builder": True}, "steps": [{"op": "refs", "defs": c["defs"]}]}
                   for _, c in cc if c.get("expect", "ok") == "ok"]
        bgen = vlib.run_vh("gen", [dict(c, code=True) for c in bcases])
        v3, c3 = builder_scan(bgen)
        cnt = collections.Counter()
        for c in (c1, c2, c3, c4, c5):
            cnt.update(c)
        ctx.coverage["backdoor_scan"] = dict(cnt)
        ctx.evaluations += sum(cnt.values())
        allv = v4 + v5 + v1 + v2 + v3
        found += allv
        ctx.oblige("no back door: private field, no From<inner>, no inherent constructor, no mutable access, valid Default, "
                   "TryInto setters (%s)" % dict(cnt), not allv and cnt["constrained_newtypes"] > 0 and cnt["builder_structs"] > 0
                   and cnt["constructor_default_impl_executed"] > 0 and cnt["constructor_struct_from_empty_object_executed"] > 0,
                   json.dumps(allv[:3])[:2000])
    except Exception as e:  # noqa
        ctx.oblige("back-door scan evaluates", False, str(e)[-1500:])

    # ---------------- samples
    step = max(1, len(ex.items) // 8)
    ctx.samples = [{"definition": ex.docs[it["m"]]["definitions"][it["name"]], "instance": it["v"], "kind": it["kind"],
                    "oracle_valid": it["valid"], "accepted": it["accepted"]} for it in ex.items[::step]]
    ctx.coverage["rule"] = ("documents from the seeded grammar (supported + full stream) + curated corpus/C05; per definition: "
                            "valid instances, boundary variants, the 8 mutator kinds (classified by python jsonschema); "
                            "distinct = distinct (definition schema, instance) pairs, agreement (type, string) pairs")

    # ---------------- verdict
    unlisted = []
    for v in found:
        f = None
        if v.get("kind") == "invalid-instance-accepted" and v.get("mutator") != "curated" and \
                only_missing_nullable_required(v["document"], v["definition"], v["instance"]):
            ctx.coverage["mutants_outside_the_eight_kinds_missing_required_nullable"] = \
                ctx.coverage.get("mutants_outside_the_eight_kinds_missing_required_nullable", 0) + 1
            continue
        if v.get("kind") == "invalid-instance-accepted":
            doc = v["document"]
            ps, pv, opt, ppath = resolve_position(doc, {"$ref": "#/definitions/" + v["definition"]}, v["instance"])
            v["position_schema"], v["position_value"], v["position_is_optional_member"] = ps, pv, opt
            v["position_path"] = list(ppath)
            v["position_name_reuse"] = any(name_reuse(doc, s2, v2, p2) for p2, s2, v2 in list(REJECTED_POSITIONS))
            # quantifier rule: a string position whose schema carries a `format` outside typify's recognised
            # table together with length / pattern keywords is not "built from enforced constructs" (typify
            # keeps a plain String there and drops the keywords)
            if isinstance(ps, dict) and isinstance(ps.get("format"), str) and \
                    ps["format"] not in ("uuid", "date", "date-time", "ip", "ipv4", "ipv6") and \
                    any(k in ps for k in ("minLength", "maxLength", "pattern")) and isinstance(pv, str):
                ctx.coverage["positions_outside_quantifier_unrecognised_format"] = \
                    ctx.coverage.get("positions_outside_quantifier_unrecognised_format", 0) + 1
                continue
            f = classify_known(ctx, v)
        if f:
            ctx.known_finding(f["id"], "%s: %s (witness: schema %s, instance %s accepted)" % (
                f["id"], f["summary"], json.dumps(v["definition_schema"], ensure_ascii=False)[:200],
                json.dumps(v["instance"], ensure_ascii=False)[:100]))
        else:
            unlisted.append(v)
    ctx.oblige("direct evaluation: every oracle-invalid single-constraint mutant is rejected by the compiled type "
               "(%d mutants, %d curated probes)" % (n_mut, n_cur),
               not [v for v in unlisted if v.get("kind") == "invalid-instance-accepted"],
               json.dumps([v for v in unlisted if v.get("kind") == "invalid-instance-accepted"][:2], ensure_ascii=True)[:2500])
    if unlisted:
        unlisted.sort(key=lambda v: len(json.dumps(v, default=str)))
        v = dict(unlisted[0])
        v["broken_obligations"] = [o[0] for o in ctx.broken()]
        ctx.violation(v)
    elif ctx.broken():
        ctx.violation({"broken_obligations": [(o[0], o[2][:1500]) for o in ctx.broken()],
                       "note": "a theorem, the validator on a real IR, or a correspondence no longer checks; the direct "
                               "evaluation found no invalid instance that is accepted"}, no_input=True)
    if ctx.tier == "thorough" and coq_ok:
        rc, out, err = vlib.sh("timeout 1500 coqchk -silent -o -Q theories Typify Typify.Props.C05", cwd=vlib.COQ,
                               timeout=1600)
        ctx.oblige("coqchk re-checks Props.C05 and dependencies", rc == 0, (out + err)[-1500:])
