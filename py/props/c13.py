"""C13 — x-rust-type substitution follows the documented crate/version policy.

Deciding method: Coq theorems (Props/C13.v) over `Algo/RustExt.decide` (model
of convert_rust_extension + name_match + the Native arm of convert_ref_type)
and `Algo/Semver.matches_req` (model of semver 1.0.26 eval.rs) against the
independent interval specification `sat_cargo`.  Tied to /repo on every run:

  A. semver: `VersionReq::parse` ASTs (printed field by field by the harness)
     and `req.matches(v)` vs. Coq `matches_req`, on a boundary grid on both
     sides of every operator + seeded random compound requirements.
  B. decision table: the real pipeline (`vh::gen_case`) on schemas carrying the
     extension, for the full product crate configuration x policy x rename x
     parameters x names x malformed variants, vs. Coq `decide` /
     `convert_ref_def` on the same inputs.
  C. the property itself, evaluated on the implementation's answers with an
     oracle written from the property text, the README and Cargo's documented
     requirement semantics (python; shares no code with the model).
"""
import itertools
import json
import os
import random
import re

import vlib

THEOREMS = [
    "C13_decide_spec",
    "C13_never_generates",
    "C13_mismatch_generates",
    "C13_unconfigured_generate_or_deny_generates",
    "C13_malformed_generates",
    "C13_decide_path",
    "C13_use_skips_structure",
    "C13_wrapper_iff_names_differ",
    "C13_rename_preserves_tail",
    "C13_parameters_applied_in_order",
    "C13_last_segment_spec",
    "C13_non_type_path_generates",
    "C13_matches_is_cargo",
    "C13_matches_is_cargo_gap",
    "C13_version_policy_is_cargo",
    "C13_pre_compare_total_order",
    "C13_matches_order_irrelevant",
    "C13_matches_conjunction",
    "C13_matches_conjunction_release",
    "C13_matches_star",
]

HDR = ("From Typify Require Import Algo.Semver Algo.RustExt.\n"
       "From Coq Require Import NArith String List.\nImport ListNotations.\n"
       "Open Scope N_scope.\nOpen Scope string_scope.")

# emulated mutations (detection tests; see notes/C13.md)
MUT = os.environ.get("C13_MUTATE", "")

# --------------------------------------------------------------------------
# Cargo's documented requirement semantics (oracle; from the Cargo book
# "Specifying dependencies" and the `semver::Op` equivalence table)
# --------------------------------------------------------------------------

NUM = r"(0|[1-9][0-9]*)"
PRE_ID = r"[0-9A-Za-z-]+"
COMP_RE = re.compile(
    r"^(?P<op>\^|~|=|>=|>|<=|<)?\s*(?P<I>" + NUM + r")"
    r"(?:\.(?:(?P<Jw>[*xX])|(?P<J>" + NUM + r"))"
    r"(?:\.(?:(?P<Kw>[*xX])|(?P<K>" + NUM + r")))?)?"
    r"(?:-(?P<pre>" + PRE_ID + r"(?:\." + PRE_ID + r")*))?"
    r"(?:\+(?P<build>" + PRE_ID + r"(?:\." + PRE_ID + r")*))?\s*$")
OPNAME = {None: "Caret", "^": "Caret", "~": "Tilde", "=": "Exact", ">": "Greater", ">=": "GreaterEq",
          "<": "Less", "<=": "LessEq"}


def pre_ids(s):
    """pre-release tag -> list of ('n', int) | ('a', str)"""
    if not s:
        return []
    return [("n", int(x)) if x.isdigit() else ("a", x) for x in s.split(".")]


def doc_parse_req(text):
    """Requirement string -> list of comparators, or None when it is not a
    requirement per the Cargo book grammar."""
    t = text.strip(" ")
    if t in ("*", "x", "X"):
        return []
    if t == "":
        return None
    comps = []
    for part in t.split(","):
        part = part.strip(" ")
        m = COMP_RE.match(part)
        if not m:
            return None
        J = None if m.group("J") is None else int(m.group("J"))
        K = None if m.group("K") is None else int(m.group("K"))
        if m.group("Jw") and m.group("K") is not None:
            return None                     # 1.*.3
        if (m.group("pre") is not None or m.group("build") is not None) and K is None:
            return None                     # tags need a full version
        pre = m.group("pre") or ""
        for x in pre.split("."):
            if x.isdigit() and len(x) > 1 and x[0] == "0":
                return None                 # numeric identifiers have no leading zero
        op = OPNAME[m.group("op")]
        if (m.group("Jw") or m.group("Kw")) and m.group("op") is None:
            op = "Wildcard"
        comps.append({"op": op, "major": int(m.group("I")), "minor": J, "patch": K, "pre": pre})
    if len(comps) > 32:
        return None
    return comps


def id_cmp(a, b):
    if a[0] == "n" and b[0] == "n":
        return (a[1] > b[1]) - (a[1] < b[1])
    if a[0] == "n":
        return -1
    if b[0] == "n":
        return 1
    x, y = a[1].encode(), b[1].encode()
    return (x > y) - (x < y)


def pre_cmp(a, b):
    """semver.org section 11: a release is greater than any of its pre-releases."""
    if not a and not b:
        return 0
    if not a:
        return 1
    if not b:
        return -1
    for x, y in zip(a, b):
        c = id_cmp(x, y)
        if c:
            return c
    return (len(a) > len(b)) - (len(a) < len(b))


def v_cmp(v, w):
    t1, t2 = v[:3], w[:3]
    if t1 != t2:
        return (t1 > t2) - (t1 < t2)
    return pre_cmp(v[3], w[3])


def doc_bounds(c):
    """comparator -> list of atomic constraints on a version, per the
    documented equivalences.  ('ge', ver) ('gt', ver) ('lt', ver) ('le', ver)
    ('eq', ver) with ver = (I,J,K,pre-ids); ('below', (I,J,K)) bounds the
    release triple (the `<X.Y.Z` of a desugared range never admits X.Y.Z-pre)."""
    I, J, K, p = c["major"], c["minor"], c["patch"], pre_ids(c["pre"])
    op = c["op"]
    full = J is not None and K is not None

    def eq_partial():
        if J is None:
            return [("ge", (I, 0, 0, [])), ("below", (I + 1, 0, 0))]
        return [("ge", (I, J, 0, [])), ("below", (I, J + 1, 0))]
    if op == "Exact":
        return [("eq", (I, J, K, p))] if full else eq_partial()
    if op == "Wildcard":
        return eq_partial()
    if op == "Greater":
        if full:
            return [("gt", (I, J, K, p))]
        return [("ge", (I, J + 1, 0, []))] if J is not None else [("ge", (I + 1, 0, 0, []))]
    if op == "GreaterEq":
        return [("ge", (I, J or 0, K or 0, p if full else []))]
    if op == "Less":
        if full:
            return [("lt", (I, J, K, p))]
        return [("below", (I, J or 0, 0))]
    if op == "LessEq":
        if full:
            return [("le", (I, J, K, p))]
        return [("below", (I, J + 1, 0))] if J is not None else [("below", (I + 1, 0, 0))]
    if op == "Tilde":
        if full:
            return [("ge", (I, J, K, p)), ("below", (I, J + 1, 0))]
        return eq_partial()
    if op == "Caret":
        lo = ("ge", (I, J or 0, K or 0, p if full else []))
        if I > 0 or J is None:
            return [lo, ("below", (I + 1, 0, 0))]
        if J > 0 or K is None:
            return [lo, ("below", (0, J + 1, 0))]
        return [lo, ("below", (0, 0, K + 1))]
    raise ValueError(op)


def doc_sat(comps, v):
    """v = (major, minor, patch, pre-ids)"""
    for c in comps:
        for kind, w in doc_bounds(c):
            if kind == "below":
                ok = v[:3] < w
            else:
                x = v_cmp(v, w)
                ok = {"ge": x >= 0, "gt": x > 0, "lt": x < 0, "le": x <= 0, "eq": x == 0}[kind]
            if not ok:
                return False
    if v[3]:
        return any(c["minor"] is not None and c["patch"] is not None and c["pre"] != ""
                   and (c["major"], c["minor"], c["patch"]) == v[:3] for c in comps)
    return True


def documented_region(comps, v):
    """Where the documentation determines the answer: release versions, or
    requirements whose comparators are all full versions (see notes/C13.md,
    `C13_matches_is_cargo_gap`)."""
    return (not v[3]) or all(c["minor"] is not None and c["patch"] is not None for c in comps)


# --------------------------------------------------------------------------
# Coq rendering
# --------------------------------------------------------------------------

def coq_pre(s):
    out = []
    for k, x in pre_ids(s):
        if k == "n":
            out.append("INum %d" % x)
        else:
            out.append("IAlnum [%s]" % "; ".join(str(b) for b in x.encode()))
    return "[" + "; ".join(out) + "]"


def coq_comp(c):
    o = lambda x: "None" if x is None else "(Some %d)" % x
    return "C %s %d %s %s %s" % (c["op"], c["major"], o(c["minor"]), o(c["patch"]), coq_pre(c["pre"]))


def coq_req(comps):
    return "[" + "; ".join(coq_comp(c) for c in comps) + "]"


def coq_ver(v):
    return "V %d %d %d %s" % (v["major"], v["minor"], v["patch"], coq_pre(v["pre"]))


# --------------------------------------------------------------------------
# A. semver grid
# --------------------------------------------------------------------------

OPS = ["", "^", "~", "=", ">", ">=", "<", "<="]
CHUNK = 150


def load_corpus():
    out = {"pipe_cases": [], "semver_gap": []}
    cdir = os.path.join(vlib.ROOT, "corpus", "C13")
    if os.path.isdir(cdir):
        for fn in sorted(os.listdir(cdir)):
            if fn.endswith(".json"):
                d = json.load(open(os.path.join(cdir, fn)))
                for k in out:
                    out[k] += d.get(k, [])
    return out


def semver_cases(ctx):
    rnd = random.Random(ctx.seed * 7919 + 13)
    thorough = ctx.tier == "thorough"
    bases = [(0, 0, 0), (0, 0, 3), (0, 2, 0), (0, 2, 3), (1, 0, 0), (1, 2, 3), (2, 0, 0)]
    if thorough:
        bases += [(0, 0, 1), (1, 2, 0), (3, 4, 5), (1, 0, 3), (18446744073709551614, 1, 1)]
    req_pres = ["alpha.1", "0", "beta"]
    ver_pres = ["", "alpha", "alpha.1", "alpha.2", "beta", "0", "1", "alpha.beta", "rc-1"]
    if not thorough:
        ver_pres = ["", "alpha", "alpha.1", "alpha.2", "beta", "0"]

    def vgrid(I, J, K, pres):
        out = []
        for a in sorted({max(I - 1, 0), I, I + 1}):
            for b in sorted({0, max(J - 1, 0), J, J + 1}):
                for c in sorted({0, max(K - 1, 0), K, K + 1}):
                    for p in pres:
                        if a > 18446744073709551615:
                            continue
                        out.append("%d.%d.%d%s" % (a, b, c, "-" + p if p else ""))
        return out

    cases = []   # (req string, [version strings], stream)
    comp_pool = []
    for (I, J, K) in bases:
        for op in OPS:
            shapes = ["%d" % I, "%d.%d" % (I, J), "%d.%d.%d" % (I, J, K)]
            shapes += ["%d.%d.%d-%s" % (I, J, K, p) for p in req_pres]
            shapes += ["%d.*" % I, "%d.%d.*" % (I, J), "%d.x.X" % I]
            for sh in shapes:
                rs = op + sh
                comp_pool.append((rs, (I, J, K)))
                cases.append((rs, vgrid(I, J, K, ver_pres), "grid"))
    cases.append(("*", vgrid(1, 2, 3, ver_pres), "grid"))
    cases.append(("  >= 1.2.3 ,  < 2 ", vgrid(1, 2, 3, ver_pres) + vgrid(2, 0, 0, ver_pres), "grid"))
    cases.append(("1.2.3+build.5", vgrid(1, 2, 3, ver_pres) + ["1.2.3+other", "1.2.4-alpha+b"], "grid"))
    # pre-release ordering: every pair of tags under every operator that looks at tags
    tags = ["alpha", "alpha.1", "alpha.1.1", "alpha.2", "alpha.10", "alpha.beta", "beta", "1", "2", "10",
            "a-b", "A", "0", "-", "1a", "a1"]
    tvs = ["1.2.3-" + t for t in tags] + ["1.2.3", "1.2.4", "1.2.2", "1.2.4-alpha", "1.3.0-alpha", "2.0.0-alpha"]
    for t in tags:
        for op in OPS:
            cases.append(("%s1.2.3-%s" % (op, t), tvs, "tags"))
    # README / Cargo book examples
    for rs, vs in [("0.1.0", ["0.1.1", "0.2.0", "0.1.0", "0.0.9"]), ("0.2.2", ["0.2.0", "0.2.2", "0.2.3", "0.3.0"]),
                   (">=0.1.0, <1.0.0", ["0.0.9", "0.1.0", "0.9.9", "1.0.0", "1.0.0-alpha", "0.5.0-alpha"]),
                   (">= 1.2.0", ["1.1.9", "1.2.0", "9.9.9"]), ("> 1", ["1.9.9", "2.0.0", "1.0.0"]),
                   ("< 2", ["1.9.9", "2.0.0", "2.0.0-alpha"]), ("= 1.2.3", ["1.2.3", "1.2.4", "1.2.3-alpha"]),
                   (">=1.2, <1.5", ["1.1.9", "1.2.0", "1.4.9", "1.5.0"]),
                   ("1.0.0-alpha", ["1.0.0-alpha", "1.0.0-beta", "1.0.0", "1.2.0", "1.0.1-alpha", "2.0.0"])]:
        cases.append((rs, vs, "docs"))
    # compound requirements (seeded): 2-3 comparators around nearby bases
    n_rand = 1500 if thorough else 250
    for _ in range(n_rand):
        k = rnd.choice([2, 2, 3])
        picks = [rnd.choice(comp_pool) for _ in range(k)]
        picks = [p for p in picks if "*" not in p[0] and "x" not in p[0]] or [("1.2.3", (1, 2, 3))]
        rs = rnd.choice([", ", ",", " , "]).join(p[0] for p in picks)
        vs = []
        for _, (I, J, K) in picks:
            vs += vgrid(I, J, K, ver_pres)
        vs = sorted(set(vs))
        rnd.shuffle(vs)
        cases.append((rs, vs[:90], "compound"))
    # the gap witnesses (partial comparator + pre-release version + a tagged comparator), curated
    for rs, vs in load_corpus().get("semver_gap", []):
        cases.append((rs, vs, "gap"))
    # strings that are not requirements
    for rs in ["", " ", "not a version", "1.2.3.4", ">=", "^^1", "1.2.3-", "01.2.3", "1.2.3-01", "1,", ",1", "1.*.3",
               "*, 1", "1 2", "=>1", "1.2-alpha", "v1.2.3", "1.2.3 - 2.0.0", "||", "1.x.3", "٣.1.1"]:
        cases.append((rs, ["1.2.3"], "invalid"))
    return cases


def run_semver(ctx):
    cases = semver_cases(ctx)
    res = vlib.run_bin("c13", [{"op": "req", "req": rs, "versions": vs} for rs, vs, _ in cases])
    exprs, idx, chunk_of = [], [], []
    parser_mism, match_mism, spec_mism, prop_viol, wf_bad, gaps = [], [], [], [], [], []
    n_pairs = 0
    dist = {}
    for i, ((rs, vs, stream), r) in enumerate(zip(cases, res)):
        doc = doc_parse_req(rs) if all(ord(ch) < 128 for ch in rs) else None
        dist[stream] = dist.get(stream, 0) + 1
        if r["r"] != "ok":
            if doc is not None:
                parser_mism.append({"req": rs, "real": "err: " + r.get("msg", ""), "doc": doc})
            continue
        if doc is None or doc != r["comparators"]:
            parser_mism.append({"req": rs, "real": r["comparators"], "doc": doc})
            continue
        if any(v["r"] != "ok" for v in r["versions"]):
            parser_mism.append({"req": rs, "bad version in grid": [v for v in r["versions"] if v["r"] != "ok"][:1]})
            continue
        # long list literals overflow coqc's stack: at most CHUNK versions per expression
        for k in range(0, max(1, len(r["versions"])), CHUNK):
            exprs.append("show_req %s [%s]" % (coq_req(r["comparators"]),
                                               "; ".join(coq_ver(v) for v in r["versions"][k:k + CHUNK])))
            chunk_of.append(i)
        idx.append(i)
    raw = vlib.coq_eval_strings("c13s", HDR, exprs, shard=max(8, len(exprs) // (2 * vlib.NCPU) + 1))
    merged = {}
    for i, line in zip(chunk_of, raw):
        a, b, w = line.split("|")
        m = merged.setdefault(i, ["", "", "T"])
        m[0] += a
        m[1] += b
        m[2] = w if m[2] == "T" else m[2]
    for i in idx:
        rs, vs, stream = cases[i]
        r = res[i]
        m_match, m_sat, m_wf = merged[i]
        if m_wf != "T":
            wf_bad.append(rs)
        comps = r["comparators"]
        for k, v in enumerate(r["versions"]):
            n_pairs += 1
            real = v["matches"]
            if MUT == "real-caret-zero" and comps and comps[0]["op"] == "Caret" and comps[0]["major"] == 0 \
                    and (comps[0]["minor"] or 0) > 0 and v["major"] == 0 and v["minor"] == comps[0]["minor"] + 1 \
                    and not v["pre"]:
                real = True                 # emulates "^0.J.K treated like ^1.J.K"
            vt = (v["major"], v["minor"], v["patch"], pre_ids(v["pre"]))
            if (m_match[k] == "T") != real:
                match_mism.append({"req": rs, "version": vs[k], "real": real, "model": m_match[k]})
            d = doc_sat(comps, vt)
            if (m_sat[k] == "T") != d:
                spec_mism.append({"req": rs, "version": vs[k], "sat_cargo": m_sat[k], "python": d})
            if documented_region(comps, vt):
                if d != real:
                    prop_viol.append({"kind": "semver-requirement", "req": rs, "version": vs[k],
                                      "observed_matches": real, "documented": d})
            elif d != real:
                gaps.append({"req": rs, "version": vs[k], "real": real, "documented_reading": d})
            ctx.nontrivial.add("sv|%s|%s" % (rs, vs[k]))
    ctx.evaluations += n_pairs
    ctx.oblige("tie A1: python parser written from the Cargo grammar = VersionReq::parse on %d requirement strings"
               % len(cases), not parser_mism, json.dumps(parser_mism[:4]))
    ctx.oblige("tie A2: Coq matches_req = semver req.matches on %d (requirement, version) pairs" % n_pairs,
               not match_mism, json.dumps(match_mism[:5]))
    ctx.oblige("tie A3: hypothesis wf_comparator holds for every AST the real parser produced (%d)" % len(idx),
               not wf_bad, json.dumps(wf_bad[:5]))
    ctx.oblige("spec sanity: Coq sat_cargo = python oracle of the documented semantics on %d pairs" % n_pairs,
               not spec_mism, json.dumps(spec_mism[:5]))
    # the two witnesses of C13_matches_is_cargo_gap, replayed on the real crate
    want = {(">1.2, <1.3.0-b", "1.3.0-a"): (True, False), (">=1.2, <1.2.5-b", "1.2.5-a"): (False, True)}
    got = {}
    for (rs, vs, _), r in zip(cases, res):
        if r["r"] == "ok":
            for vstr, v in zip(vs, r["versions"]):
                if (rs, vstr) in want and v["r"] == "ok":
                    vt = (v["major"], v["minor"], v["patch"], pre_ids(v["pre"]))
                    got[(rs, vstr)] = (v["matches"], doc_sat(r["comparators"], vt))
    ctx.oblige("witnesses of C13_matches_is_cargo_gap replay on the real semver crate", got == want,
               "%r" % got)
    ctx.coverage["semver"] = {
        "requirement_strings": len(cases), "by_stream": dist, "pairs": n_pairs,
        "match_true": sum(v["matches"] for r in res if r["r"] == "ok" for v in r["versions"] if v["r"] == "ok"),
        "outside_documented_region_disagreements": len(gaps),
        "outside_documented_region_samples": gaps[:4],
        "rule": "grid: 8 operators x {I, I.J, I.J.K, I.J.K-pre, I.*, I.J.*, I.x.X} x bases x versions "
                "{I-1,I,I+1}x{0,J-1,J,J+1}x{0,K-1,K,K+1}x tags; all tag pairs under every operator; seeded compound",
    }
    ctx.samples.append({"req": cases[5][0], "versions": cases[5][1][:6], "real": [v["matches"] for v in res[5]["versions"][:6]]})
    return prop_viol, match_mism + spec_mism


# --------------------------------------------------------------------------
# B. decision table through the real pipeline
# --------------------------------------------------------------------------

OWN = {"type": "object", "properties": {"own_a": {"type": "string"}}}
PARAMS = {
    "str": ({"type": "string"}, "::std::string::String"),
    "int": ({"type": "integer"}, "i64"),
    "plain": ({"$ref": "#/definitions/Plain"}, "Plain"),
    "gizmo": ({"$ref": "#/definitions/Gizmo"}, "::gz::Gizmo"),
    "bad": ({"type": "string", "enum": []}, None),           # id_for_schema returns Err
    "bad2": ({"type": "object", "properties": {"x": {"type": "integer", "default": "s"}}}, None),
}
PARAM_SETS = [[], ["str"], ["plain"], ["int", "gizmo"], ["gizmo", "str"], ["bad"], ["str", "bad2"]]
POLICIES = ["generate", "allow", "deny"]


def norm_ty(s):
    return re.sub(r",>", ">", re.sub(r"\s+", "", s))


def pascal(n):
    return n[0].upper() + n[1:]


def mk_pipe(ext, defname, crates, policy):
    """A document with a definition carrying the extension, referenced by a
    required property `t`, and the same schema inline under `i`."""
    target = dict(OWN)
    target["x-rust-type"] = ext
    gz = dict(OWN)
    gz["x-rust-type"] = {"crate": "gz", "version": "*", "path": "gz::Gizmo"}
    doc = {"definitions": {
        defname: target,
        "Plain": {"type": "object", "properties": {"p": {"type": "integer"}}},
        "Gizmo": gz,
        "User": {"type": "object", "required": ["t", "i", "pl"], "properties": {
            "t": {"$ref": "#/definitions/" + defname}, "i": target, "pl": {"$ref": "#/definitions/Plain"}}},
    }}
    cr = [{"name": "gz", "version": "*"}] + crates
    return {"op": "pipe", "settings": {"unknown_crates": policy, "crates": cr}, "steps": [{"op": "root", "doc": doc}]}


def pipe_cases(ctx):
    rnd = random.Random(ctx.seed * 104729 + 5)
    cases = []   # dict(ext, defname, crates(list of user crates), policy, stream)
    # crate name kinds: (crate, good path prefix)
    kinds = [("util", "util"), ("my-crate", "my_crate")]
    reqs = [("1.0.0", "1.2.3", "2.0.0"), ("^0.2.3", "0.2.9", "0.3.0"), (">=0.1.0, <1.0.0", "0.9.9", "1.0.0"),
            ("~1.2.3", "1.2.9", "1.3.0"), ("1.0.0-alpha", "1.0.0-beta", "1.0.1-alpha"), ("*", "0.0.1", "1.0.0-rc.1"),
            ("=1.2.3", "1.2.3", "1.2.4"), ("0.0.3", "0.0.3", "0.0.4")]
    renames = [None, "other", "other-name"]
    names = [("Thing", "Thing"), ("Alias", "Thing"), ("thing", "Thing")]   # (definition name, last path segment)
    k = 0
    for (crate, ident), pol, (dn, seg), ps in itertools.product(kinds, POLICIES, names, PARAM_SETS):
        for cfg in ["absent", "*", "!", "match", "mismatch"]:
            for rn in (renames if cfg != "absent" else [None]):
                rq, good, bad = reqs[k % len(reqs)]
                k += 1
                ext = {"crate": crate, "version": rq, "path": "%s::m::%s" % (ident, seg)}
                if ps or k % 3 == 0:
                    ext["parameters"] = [PARAMS[p][0] for p in ps]
                crates = []
                if cfg != "absent":
                    c = {"name": crate, "version": {"*": "*", "!": "!", "match": good, "mismatch": bad}[cfg]}
                    if rn:
                        c["rename"] = rn
                    crates.append(c)
                cases.append({"ext": ext, "defname": dn, "crates": crates, "policy": pol, "params": ps,
                              "stream": "table"})
    # malformed variants and path/crate edge cases, under every configuration and policy
    good = {"crate": "my-crate", "version": "1.0.0", "path": "my_crate::m::Thing"}

    def var(**kw):
        e = dict(good)
        for a, b in kw.items():
            if b is None:
                e.pop(a, None)
            else:
                e[a] = b
        return e
    variants = [
        var(crate=None), var(version=None), var(path=None), var(version=5), var(path=["my_crate::Thing"]),
        var(crate=7), var(parameters="x"), var(parameters=None), var(parameters={}), "my_crate::m::Thing", None, [],
        var(version="not a version"), var(version=""), var(version="1.2.3.4"), var(version=">="), var(version="^^1"),
        var(version="1.0.0, "), var(version="01.0.0"), var(version="1.0.0-01"), var(version=" 1.0.0 "),
        var(version="1.*"), var(version="x"), var(version=">=1, <2"), var(version="1.0"), var(version="1"),
        var(path="my-crate::m::Thing"), var(path="other::m::Thing"), var(path="my_crate"), var(path="my_crate:Thing"),
        var(path="my_crateX::Thing"), var(path="my_crat::e::Thing"), var(path="::my_crate::Thing"),
        var(path="My_crate::Thing"), var(path=""), var(path="my_crate::"), var(path="my_crate::Thing"),
        var(path="my_crate::a b"), var(path="my_crate::1"), var(path="my_crate::a::"), var(path="my_crate::::a"),
        var(path="my_crate::a-b"), var(path="my_crate::Thing<u8>"), var(path="my_crate:::Thing"),
        var(crate="my_crate"), var(crate="My-crate"), var(crate=""), var(crate="my--crate", path="my__crate::Thing"),
        var(extra=1),
    ]
    cfgs = [[], [{"name": "my-crate", "version": "*"}], [{"name": "my-crate", "version": "!"}],
            [{"name": "my-crate", "version": "1.4.0"}], [{"name": "my-crate", "version": "2.0.0"}],
            [{"name": "my_crate", "version": "*"}], [{"name": "my-crate", "version": "1.4.0", "rename": "re-named"}],
            [{"name": "my-crate", "version": "1.4.0-alpha"}]]
    for e, cr, pol in itertools.product(variants, cfgs, POLICIES):
        cases.append({"ext": e, "defname": "Thing", "crates": cr, "policy": pol, "params": [], "stream": "malformed"})
    # requirement / configured-version pairs through the whole pipeline (boundaries of every operator)
    pairs = []
    for rq, vs in [("^1.2.3", ["1.2.2", "1.2.3", "1.9.9", "2.0.0", "2.0.0-alpha", "1.2.3-alpha"]),
                   ("^0.2.3", ["0.2.2", "0.2.3", "0.2.99", "0.3.0"]), ("^0.0.3", ["0.0.2", "0.0.3", "0.0.4"]),
                   ("^0.0", ["0.0.0", "0.0.9", "0.1.0"]), ("^0", ["0.9.9", "1.0.0"]),
                   ("~1.2.3", ["1.2.2", "1.2.3", "1.2.9", "1.3.0"]), ("~1.2", ["1.1.9", "1.2.0", "1.2.9", "1.3.0"]),
                   ("~1", ["0.9.9", "1.0.0", "1.9.9", "2.0.0"]), ("1.*", ["0.9.9", "1.0.0", "1.9.9", "2.0.0"]),
                   ("1.2.*", ["1.1.9", "1.2.0", "1.2.9", "1.3.0"]), ("=1.2.3", ["1.2.2", "1.2.3", "1.2.4"]),
                   (">1.2.3", ["1.2.3", "1.2.4"]), (">=1.2.3", ["1.2.2", "1.2.3"]), ("<1.2.3", ["1.2.2", "1.2.3"]),
                   ("<=1.2.3", ["1.2.3", "1.2.4"]), (">1", ["1.9.9", "2.0.0"]), ("<=1.2", ["1.2.9", "1.3.0"]),
                   (">=0.1.0, <1.0.0", ["0.0.9", "0.1.0", "0.9.9", "1.0.0", "1.0.0-alpha"]),
                   ("1.0.0-alpha.1", ["1.0.0-alpha", "1.0.0-alpha.1", "1.0.0-alpha.2", "1.0.0-beta", "1.0.0",
                                      "1.0.1-alpha.1", "1.5.0", "2.0.0"]),
                   ("*", ["0.0.0", "7.7.7", "1.0.0-alpha"]),
                   (">=1.0.0-alpha, <1.0.0", ["1.0.0-alpha", "1.0.0-zeta", "1.0.0", "0.9.0"])]:
        for v in vs:
            pairs.append((rq, v))
    if ctx.tier == "thorough":
        sv = semver_cases(ctx)
        pool = [(rs, v) for rs, vs, st in sv if st in ("grid", "tags", "compound") for v in vs]
        pairs += rnd.sample(pool, 1500)
    cases += recur_cases(ctx, rnd)
    for rq, v in pairs:
        for pol in (["generate"] if ctx.tier == "quick" else ["generate", "allow"]):
            cases.append({"ext": {"crate": "util", "version": rq, "path": "util::Thing"}, "defname": "Thing",
                          "crates": [{"name": "util", "version": v}], "policy": pol, "params": [], "stream": "versions"})
    return cases


def recur_cases(ctx, rnd):
    """Rename of the FIRST segment only: crate names drawn from the same small
    alphabet as the module/type segments, so that the crate's identifier occurs
    again in the path - as a whole later segment, as prefix/suffix/infix of one,
    with another case, inside generic arguments - with hyphen/underscore
    variants for the crate and for the rename."""
    out = []
    crates = ["a", "util", "std", "my_crate", "my-util", "my_util"]

    def tails(I):
        return [I + "::Gadget", I, I + "_types::Gadget", "my" + I + "::Gadget", "x" + I + "y::" + I,
                I.capitalize() + "::Gadget", "m::" + I + "::" + I, "Wrap<" + I + "::Inner>", "m::Wrap<" + I + ">",
                "Wrap<" + I + "::" + I + "," + I + "_x::Y>", "Gadget", I + I, I + "::" + I + "::" + I + "_" + I]
    k = 0
    for crate in crates:
        I = crate.replace("-", "_")
        renames = [None, "other", "my-util", "my_util", crate + "-ng", "x", I, "a"]
        for tail in tails(I):
            for rn in renames:
                k += 1
                cfgv = ["*", "*", "1.2.3", "*", "2.0.0", "!"][k % 6] if k % 5 == 0 else "*"
                c = {"name": crate, "version": cfgv}
                if rn is not None:
                    c["rename"] = rn
                ps = [["str"], [], []][k % 3] if "<" not in tail else []
                ext = {"crate": crate, "version": "1.0.0", "path": I + "::" + tail}
                if ps:
                    ext["parameters"] = [PARAMS[q][0] for q in ps]
                out.append({"ext": ext, "defname": ["Gadget", "Thing", "Other"][k % 3],
                            "crates": [c], "policy": POLICIES[k % 3], "params": ps, "stream": "recur"})
    # seeded: segments assembled from the crate's own identifier and a few neighbours
    n = 150 if ctx.tier == "quick" else 1500
    for _ in range(n):
        crate = rnd.choice(crates)
        I = crate.replace("-", "_")
        toks = [I, I, "my", "_types", "x", I.capitalize(), "a", "std", "util", "_", "2"]
        segs = []
        for _s in range(rnd.choice([1, 2, 2, 3, 4])):
            while True:
                seg = "".join(rnd.choice(toks) for _t in range(rnd.choice([1, 1, 2, 3])))
                if RUST_IDENT.match(seg) and seg not in RUST_KEYWORDS and seg != "_":
                    break
            segs.append(seg)
        if rnd.random() < 0.5:
            segs.append(rnd.choice(["Gadget", "Thing"]))       # so that definition name = last segment happens
        path = I + "::" + "::".join(segs)
        if rnd.random() < 0.2:
            path += "<" + I + "::" + rnd.choice(segs) + ">"
        rn = rnd.choice([None, "other", "my-util", "my_util", crate + "-ng", "x", I, rnd.choice(segs), "re-" + I])
        c = {"name": crate, "version": rnd.choice(["*", "*", "1.0.0", "1.9.9", "2.0.0"])}
        if rn is not None:
            c["rename"] = rn
        out.append({"ext": {"crate": crate, "version": "1.0.0", "path": path}, "defname": rnd.choice(["Gadget", "Other", "Thing"]),
                    "crates": [c], "policy": rnd.choice(POLICIES), "params": [], "stream": "recur"})
    return out


def readme_wellformed(ext):
    """The README's schema for the extension value (required crate, version,
    path: strings; parameters: array)."""
    if not isinstance(ext, dict):
        return False
    for k in ("crate", "version", "path"):
        if not isinstance(ext.get(k), str):
            return False
    if "parameters" in ext and not isinstance(ext["parameters"], list):
        return False
    return True


def oracle(case, req_matches):
    """Expected substitution from the PROPERTY TEXT.  Returns ("use", type) |
    ("generate",) | None (text does not determine it: a declared parameter
    cannot be converted, or the path needs a Rust parser to classify)."""
    ext = case["ext"]
    if not readme_wellformed(ext):
        return ("generate",)
    comps = doc_parse_req(ext["version"]) if all(ord(c) < 128 for c in ext["version"]) else None
    if comps is None:
        return ("generate",)                      # bad requirement
    ident = ext["crate"].replace("-", "_")
    if not ext["path"].startswith(ident + "::"):
        return ("generate",)                      # path not starting with the crate's identifier
    tpv = is_type_path(ext["path"])
    if tpv is None:
        return None                               # only a Rust parser can tell
    if not tpv:
        return ("generate",)                      # not a path at all (README: pattern of `path`)
    cfg = [c for c in case["crates"] if c["name"] == ext["crate"]]
    cfg = cfg[-1] if cfg else None
    if cfg is None:
        if case["policy"] != "allow":
            return ("generate",)
        head = ident
    else:
        if cfg["version"] == "!":
            return ("generate",)
        if cfg["version"] != "*":
            m = re.match(r"^(\d+)\.(\d+)\.(\d+)(?:-([^+]*))?", cfg["version"])
            v = (int(m.group(1)), int(m.group(2)), int(m.group(3)), pre_ids(m.group(4) or ""))
            if not documented_region(comps, v):
                sat = req_matches                 # outside the documented region: defer to Cargo's own matcher
            else:
                sat = doc_sat(comps, v)
            if not sat:
                return ("generate",)
        head = cfg["rename"].replace("-", "_") if cfg.get("rename") else ident
    ps = [PARAMS[p][1] for p in case["params"]]
    if any(p is None for p in ps):
        return None
    ty = "::" + head + ext["path"][len(ident):]
    if ps:
        ty += "<" + ",".join(ps) + ">"
    return ("use", ty)


def observe(case, r):
    """What the pipeline did: for the $ref'd definition and for the inline use."""
    if r.get("r") != "done" or not r.get("all_ok") or r.get("render") != "ok":
        return {"fail": json.dumps({k: r.get(k) for k in ("r", "steps", "render", "msg")})[:300]}
    items = {i["name"]: i for i in r["items"]}
    user = items.get("User")
    if user is None:
        return {"fail": "no User struct"}
    f = {x["name"]: norm_ty(x["ty"]) for x in user["fields"]["fields"]}
    dn = pascal(case["defname"])
    out = {"t": f.get("t"), "i": f.get("i"), "items": sorted(items)}
    d = items.get(dn)
    if d is None:
        out["def"] = "none"
    elif d["kind"] == "struct" and d["fields"]["k"] == "tuple" and ["transparent"] in d["serde"]:
        out["def"] = "newtype " + norm_ty(d["fields"]["fields"][0]["ty"])
    elif d["kind"] == "struct" and d["fields"]["k"] == "named" and \
            [x["name"] for x in d["fields"]["fields"]] == ["own_a"]:
        out["def"] = "structural"
    else:
        out["def"] = "other " + json.dumps(d)[:200]
    ui = items.get("UserI")
    out["inline_item"] = "none" if ui is None else (
        "structural" if ui["fields"]["k"] == "named" and [x["name"] for x in ui["fields"]["fields"]] == ["own_a"]
        else "other")
    # public API view: Type::ident() of the property types
    types = {t["id"]: t for t in r["types"]}
    ut = [t for t in r["types"] if t["name"] == "User"]
    if ut and ut[0]["details"]["k"] == "struct":
        for p in ut[0]["details"]["props"]:
            if p["name"] in ("t", "i"):
                out["api_" + p["name"]] = norm_ty(types[p["type_id"]]["ident"])
    return out


def ir_view(case, r):
    """The same observation read from the type space (verif_dump hook)."""
    ir = r.get("ir")
    if r.get("r") != "done" or not r.get("all_ok") or not ir:
        return {"fail": "no type space"}

    def tyname(e):
        if e["kind"] == "native":
            s = e["type_name"]
            if e["params"]:
                s += "<" + ",".join(tyname(ir[str(p)]) for p in e["params"]) + ">"
            return norm_ty(s)
        if e["kind"] == "string":
            return "::std::string::String"
        return e["name"]
    user = [e for e in ir.values() if e["kind"] == "struct" and e["name"] == "User"]
    if not user:
        return {"fail": "no User entry"}
    props = dict(user[0]["props"])
    dn = pascal(case["defname"])
    out = {}
    t = ir[str(props["t"])]
    if t["kind"] == "native":
        out["t"], out["def"] = tyname(t), "none"
    elif t["kind"] == "newtype" and t["name"] == dn:
        out["t"], out["def"] = dn, "newtype " + tyname(ir[str(t["type_id"])])
    elif t["kind"] == "struct" and t["name"] == dn and [p[0] for p in t["props"]] == ["own_a"]:
        out["t"], out["def"] = dn, "structural"
    else:
        out["t"], out["def"] = "?", "other " + json.dumps(t)[:200]
    i = ir[str(props["i"])]
    if i["kind"] == "native":
        out["i"], out["inline_item"] = tyname(i), "none"
    elif i["kind"] == "struct" and i["name"] == "UserI" and [p[0] for p in i["props"]] == ["own_a"]:
        out["i"], out["inline_item"] = "UserI", "structural"
    else:
        out["i"], out["inline_item"] = "?", "other"
    return out


README_PATH = re.compile(r"^[a-zA-Z0-9_]+(::[a-zA-Z0-9_]+)*$")
RUST_IDENT = re.compile(r"^[A-Za-z_][A-Za-z0-9_]*$")
RUST_KEYWORDS = set("as break const continue else enum extern false fn for if impl in let loop match mod move mut pub "
                    "ref return static struct trait true type unsafe use where while async await dyn abstract become "
                    "box do final macro override priv typeof unsized virtual yield try".split())


def _parse_simple_path(t, i):
    """ ['::'] seg ('::' seg)* ; seg := ident ['<' path (',' path)* '>'] ; returns end index or None """
    n = len(t)
    if t.startswith("::", i):
        i += 2
    while True:
        m = re.compile(r"[A-Za-z_][A-Za-z0-9_]*").match(t, i)
        if not m or m.group(0) in RUST_KEYWORDS or m.group(0) == "_":
            return None
        i = m.end()
        if i < n and t[i] == "<":
            i += 1
            while True:
                i = _parse_simple_path(t, i)
                if i is None or i >= n:
                    return None
                if t[i] == ",":
                    i += 1
                    continue
                if t[i] == ">":
                    i += 1
                    break
                return None
        if t.startswith("::", i):
            i += 2
            continue
        return i


def is_type_path(p):
    """Is the extension's `path` a Rust type path?  True / False where that is
    plain from the README pattern, Rust's lexical rules and the plainest form
    of generic arguments (`a::B<c::D, e::F>`), None where only a Rust parser
    can tell: the oracle then abstains."""
    raw = (p[2:] if p.startswith("::") else p).split("::")      # a leading `::` is a global path
    segs = [x.strip(" ") for x in raw]
    if all(RUST_IDENT.match(x) and x not in RUST_KEYWORDS and x != "_" for x in segs):
        return True if segs == raw else None                    # blanks between tokens: parser's business
    if " " not in p and _parse_simple_path(p, 0) == len(p):
        return True
    if "<" in p or "(" in p or "[" in p or "&" in p:
        return None
    return False


def expected_from(kind_def, ty_def, kind_inl, ty_inl, case):
    """Observable consequences of a decision (definition outcome, inline decision)."""
    dn = pascal(case["defname"])
    items = {"User", "Plain"}
    exp = {}
    ty_def, ty_inl = norm_ty(ty_def), norm_ty(ty_inl)
    if kind_def == "native":
        exp["t"], exp["def"] = ty_def, "none"
    elif kind_def == "newtype":
        exp["t"], exp["def"] = dn, "newtype " + ty_def
        items.add(dn)
    else:
        exp["t"], exp["def"] = dn, "structural"
        items.add(dn)
    if kind_inl == "use":
        exp["i"], exp["inline_item"] = ty_inl, "none"
    else:
        exp["i"], exp["inline_item"] = "UserI", "structural"
        items.add("UserI")
    exp["items"] = sorted(items)
    exp["api_t"], exp["api_i"] = exp["t"], exp["i"]
    return exp


def coq_pipe_expr(case, reqres):
    ext = case["ext"]
    cs = []
    for c in [{"name": "gz", "version": "*"}] + case["crates"]:
        if c["version"] == "*":
            v = "CVAny"
        elif c["version"] == "!":
            v = "CVNever"
        else:
            v = "(CVVersion (%s))" % coq_ver(reqres["cfgver"][c["version"]])
        cs.append("(%s, %s, %s)" % (vlib.coq_str(c["name"]), v, vlib.coq_opt(c.get("rename"), vlib.coq_str)))
    # BTreeMap insert: a later with_crate of the same name replaces the earlier one
    cs.reverse()
    pol = {"generate": "PGenerate", "allow": "PAllow", "deny": "PDeny"}[case["policy"]]
    if not readme_wellformed(ext):
        x = "ExtMalformed"
    else:
        ps = case["params_text"] if "params_text" in case else [PARAMS[p][1] for p in case["params"]]
        e = "(mk_ext %s %s %s)" % (vlib.coq_str(ext["crate"]), vlib.coq_str(ext["path"]),
                                   vlib.coq_list(ps, lambda p: vlib.coq_opt(p, vlib.coq_str)))
        rq = reqres["req"]
        x = "(ExtOk %s %s)" % (e, "None" if rq is None else "(Some %s)" % coq_req(rq))
    tp = "true" if reqres["type_path"] or MUT == "model-no-path-check" else "false"
    out = "run_decide %s %s %s (Some %s) %s" % (tp, vlib.coq_list(cs), pol, vlib.coq_str(case["defname"]), x)
    if MUT == "model-never-is-any":     # emulates a model that drifted from the code
        out = out.replace("CVNever", "CVAny")
    return out


def run_pipeline(ctx):
    cases = pipe_cases(ctx)
    # corpus (curated witnesses) first
    corpus = load_corpus()["pipe_cases"]
    for c in corpus:
        c["stream"] = "corpus"
    cases = corpus + cases
    res = vlib.run_bin("c13", [mk_pipe(c["ext"], c["defname"], c["crates"], c["policy"]) for c in cases])
    # real parser / matcher on each case's requirement and configured versions
    rq_cases = []
    for c in cases:
        ext = c["ext"]
        vs = [x["version"] for x in c["crates"] if x["version"] not in ("*", "!")]
        rs = ext["version"] if readme_wellformed(ext) else "*"
        rq_cases.append({"op": "req", "req": rs, "versions": vs})
    rq_res = vlib.run_bin("c13", rq_cases)
    ver_res = vlib.run_bin("c13", [{"op": "req", "req": "*", "versions": q["versions"]} for q in rq_cases])
    # the real syn parser's verdict on every path (input of the model, like the requirement ASTs)
    paths = [c["ext"]["path"] if readme_wellformed(c["ext"]) else "" for c in cases]
    tp_res = vlib.run_bin("c13", [{"op": "paths", "paths": paths}])[0]["type_path"]
    cls_bad = [(p, t, is_type_path(p)) for p, t in zip(paths, tp_res) if is_type_path(p) is not None and is_type_path(p) != t]
    ctx.oblige("tie B0: python path classifier (README pattern + Rust lexical rules) = syn::parse_str::<TypePath> "
               "where it is definite (%d distinct paths)" % len(set(paths)), not cls_bad, json.dumps(cls_bad[:5]))
    exprs, infos = [], []
    for c, q, qc, q2, tpv in zip(cases, rq_res, rq_cases, ver_res, tp_res):
        info = {"req": q["comparators"] if q["r"] == "ok" else None, "cfgver": {}, "matches": {}, "type_path": tpv}
        for s, v in zip(qc["versions"], q2["versions"]):
            info["cfgver"][s] = v
        if q["r"] == "ok":
            for s, v in zip(qc["versions"], q["versions"]):
                info["matches"][s] = v["matches"]
        infos.append(info)
        exprs.append(coq_pipe_expr(c, info))
    model = vlib.coq_eval_strings("c13p", HDR, exprs, shard=max(20, len(exprs) // (2 * vlib.NCPU) + 1))
    mism, viol, unspecified, n_render_panic, regress = [], [], 0, 0, []
    dist = {}
    if MUT == "real-deny-allows":       # emulates `UnknownPolicy::Deny => path`
        key = lambda c, pol: json.dumps([c["ext"], c["defname"], c["crates"], pol, c["params"]], sort_keys=True)
        by = {key(c, c["policy"]): r for c, r in zip(cases, res)}
        res = [by.get(key(c, "allow"), r) if c["policy"] == "deny" else r for c, r in zip(cases, res)]
    if MUT == "real-rename-keeps-dash":  # emulates a rename used without '-' -> '_'
        res = [json.loads(json.dumps(r).replace("other_name", "other-name")) for r in res]
    for c, r, m, info in zip(cases, res, model, infos):
        obs = observe(c, r)
        dec, dfn = m.split(" / ")
        kd, _, td = dfn.partition(" ")
        ki, _, ti = dec.partition(" ")
        exp = expected_from(kd, td, ki, ti, c)
        if MUT == "real-lookup-underscore" and isinstance(c["ext"], dict) and c["ext"].get("crate") == "my-crate" \
                and any(x["name"] == "my_crate" for x in c["crates"]) and obs.get("t") == "Thing":
            obs = dict(obs, t="::my_crate::m::Thing")     # emulates a lookup by crate_ident
        if MUT == "real-rename-replace-all" and readme_wellformed(c["ext"]) and "fail" not in obs:
            # emulates `path.replace(&crate_ident, &new_crate.replace('-', "_"))` (seeded change C13-s2)
            idn = c["ext"]["crate"].replace("-", "_")
            cf = [x for x in c["crates"] if x["name"] == c["ext"]["crate"] and x.get("rename")]
            if cf and c["ext"]["path"].startswith(idn + "::"):
                hd = cf[-1]["rename"].replace("-", "_")
                good = norm_ty("::" + hd + c["ext"]["path"][len(idn):])
                badp = norm_ty("::" + c["ext"]["path"].replace(idn, hd))
                obs = {k2: (v2.replace(good, badp) if isinstance(v2, str) else v2) for k2, v2 in obs.items()}
        if MUT == "real-no-path-check" and not info["type_path"] and readme_wellformed(c["ext"]) \
                and c["ext"]["path"].startswith(c["ext"]["crate"].replace("-", "_") + "::"):
            obs = {"fail": "emulated: type path wasn't valid (to_stream panic)"}   # 31fad76 reverted
        irv = ir_view(c, r)
        bad = {"ir." + k: (irv.get(k), exp[k]) for k in ("t", "def", "i", "inline_item") if irv.get(k) != exp[k]}
        render_panic = r.get("render") == "render-panic" and r.get("all_ok")
        if render_panic:
            n_render_panic += 1
        elif "fail" in obs:
            bad["fail"] = obs["fail"]
        else:
            bad.update({k: (obs.get(k), exp[k]) for k in exp if obs.get(k) != exp[k]})
        key = "%s|%s|%s" % (dec.split(" ")[0], kd, c["stream"])
        dist[key] = dist.get(key, 0) + 1
        if bad:
            mism.append({"case": c, "model": m, "diff": bad})
        # the property text
        cfgv = [x["version"] for x in c["crates"] if isinstance(c["ext"], dict) and x["name"] == c["ext"].get("crate")]
        rm = info["matches"].get(cfgv[-1]) if cfgv and cfgv[-1] not in ("*", "!") else None
        o = oracle(c, rm)
        if c["stream"] == "corpus" and not info["type_path"]:
            # regression C13-F1 (fixed 31fad76): must generate, must not panic
            if "fail" in obs or obs.get("def") != "structural" or obs.get("i") != "UserI":
                regress.append({"case": c, "observed": obs})
        if o is None:
            unspecified += 1
        elif "fail" in obs:
            viol.append({"kind": "pipeline-failure", "case": c, "observed": obs, "type_space": irv,
                         "expected": "generated from the schema" if o[0] == "generate" else "substituted by " + o[1]})
        else:
            dn = pascal(c["defname"])
            if o[0] == "use":
                ty = o[1]
                # generic arguments written inside `path`: which text is "the name" is not fixed by the
                # property; both the direct use and the newtype are accepted there
                names_differ = "<" in c["ext"]["path"] or ty.split("<")[0].split("::")[-1] != c["defname"]
                ok_t = obs["t"] == ty or (names_differ and obs["t"] == dn and obs["def"] == "newtype " + ty)
                ok = ok_t and obs["i"] == ty and obs["inline_item"] == "none" and obs["def"] != "structural" \
                    and obs.get("api_i") == ty and obs.get("api_t") == obs["t"] \
                    and (names_differ or obs["def"] == "none")
                want = "substituted by " + ty
            else:
                ok = obs["t"] == dn and obs["def"] == "structural" and obs["i"] == "UserI" \
                    and obs["inline_item"] == "structural"
                want = "generated from the schema"
            if not ok:
                viol.append({"kind": "decision", "case": c, "expected": want, "observed": obs})
        ctx.nontrivial.add("pipe|" + json.dumps([c["ext"], c["defname"], c["crates"], c["policy"]], sort_keys=True))
    ctx.evaluations += len(cases)
    ctx.oblige("tie B: Coq decide/convert_ref_def = real pipeline (field types, items, Type::ident) on %d cases"
               % len(cases), not mism, json.dumps(mism[:3]))
    ctx.oblige("regression C13-F1 (fixed 31fad76): corpus paths that are not type paths are generated from the "
               "schema and render", not regress, json.dumps(regress[:3]))
    ctx.coverage["pipeline"] = {
        "cases": len(cases), "decision_by_stream": dist,
        "paths_rejected_by_syn": sorted(set(p for p, t in zip(paths, tp_res) if not t and p))[:40],
        "paths_accepted_by_syn_outside_README_pattern (oracle abstains)": sorted(
            set(p for p, t in zip(paths, tp_res) if t and is_type_path(p) is None)), "render_panics (compared on the type space only)": n_render_panic, "property_text_undetermined (unconvertible parameter, or path needing a Rust parser)": unspecified,
        "rule": "product {util, my-crate} x policy x (definition name, last segment) x 7 parameter lists x "
                "{absent,*,!,match,mismatch} x rename {none, plain, hyphenated}; recur: 6 crate names x 13 paths in which "
                "the crate identifier occurs again (whole segment, prefix/suffix/infix, other case, generic arguments) x 8 "
                "renames + seeded segments over the crate's own alphabet; 49 malformed/edge extension values x 8 "
                "crate tables x policy; operator-boundary (requirement, configured version) pairs",
    }
    k = max(1, len(cases) // 6)
    for j in range(0, len(cases), k):
        ctx.samples.append({"case": {x: cases[j][x] for x in ("ext", "defname", "crates", "policy")},
                            "model": model[j], "observed": observe(cases[j], res[j])})
    return viol, mism


SITES = {
    "optional": {"type": "object", "properties": {"x": {"$ref": "#/definitions/Thing"}}},
    "array": {"type": "object", "required": ["x"], "properties": {"x": {"type": "array", "items": {"$ref": "#/definitions/Thing"}}}},
    "map": {"type": "object", "additionalProperties": {"$ref": "#/definitions/Thing"}},
    "allOf1": {"type": "object", "required": ["x"], "properties": {"x": {"allOf": [{"$ref": "#/definitions/Thing"}]}}},
    "oneOf": {"oneOf": [{"$ref": "#/definitions/Thing"}, {"type": "integer"}]},
    "nullable": {"type": "object", "required": ["x"], "properties": {"x": {"oneOf": [{"$ref": "#/definitions/Thing"}, {"type": "null"}]}}},
    "tuple": {"type": "object", "required": ["x"], "properties": {"x": {
        "type": "array", "items": [{"$ref": "#/definitions/Thing"}, {"type": "integer"}], "minItems": 2, "maxItems": 2}}},
    "alias": {"$ref": "#/definitions/Thing"},
    "annotated": {"type": "object", "required": ["x"], "properties": {"x": {"description": "d", "$ref": "#/definitions/Thing"}}},
    "default": {"type": "object", "properties": {"x": {"$ref": "#/definitions/Thing", "default": {"own_a": "q"}}}},
}


# ---- several occurrences in one type space ---------------------------------

def _mext(path, params):
    d = dict(OWN)
    d["x-rust-type"] = {"crate": "coll", "version": "1.0.0", "path": path, "parameters": params}
    return d


# parameter descriptor -> (schema, text as a function of the crate's head segment)
MPARAMS = {
    "str": ({"type": "string"}, lambda h: "::std::string::String"),
    "int": ({"type": "integer"}, lambda h: "i64"),
    "bool": ({"type": "boolean"}, lambda h: "bool"),
    "plain": ({"$ref": "#/definitions/Plain"}, lambda h: "Plain"),
    "gizmo": ({"$ref": "#/definitions/Gizmo"}, lambda h: "::gz::Gizmo"),
    "nest_s": (_mext("coll::Inner", [{"type": "string"}]), lambda h: "::%s::Inner<::std::string::String>" % h),
    "nest_i": (_mext("coll::Inner", [{"type": "integer"}]), lambda h: "::%s::Inner<i64>" % h),
    "nest_0": (_mext("coll::Inner", []), lambda h: "::%s::Inner" % h),
    "nest_n": (_mext("coll::Inner", [_mext("coll::Inner", [{"type": "boolean"}]), {"type": "string"}]),
               lambda h: "::%s::Inner<::%s::Inner<bool>,::std::string::String>" % (h, h)),
}
MPATHS = ["coll::Deque", "coll::Other", "coll::m::Deque"]
# (crates, policy, used per the property text, head segment)
MCONFIGS = [
    ([{"name": "coll", "version": "*"}], "generate", True, "coll"),
    ([{"name": "coll", "version": "1.2.3"}], "deny", True, "coll"),
    ([], "allow", True, "coll"),
    ([{"name": "coll", "version": "*", "rename": "c-2"}], "generate", True, "c_2"),
    ([{"name": "coll", "version": "1.0.0", "rename": "coll"}], "allow", True, "coll"),
    ([], "generate", False, None),
    ([{"name": "coll", "version": "!"}], "allow", False, None),
    ([{"name": "coll", "version": "2.0.0"}], "deny", False, None),
]


def multi_layouts(ctx):
    rnd = random.Random(ctx.seed * 31337 + 17)
    O = lambda pos, path, ps: {"pos": pos, "path": path, "params": ps}
    D = "coll::Deque"
    fixed = [
        [O("direct", D, ["str"]), O("direct", D, ["bool"])],                       # names / counts
        [O("direct", D, ["bool"]), O("direct", D, ["str"])],
        [O("direct", D, []), O("direct", D, ["str"]), O("direct", D, ["str", "int"]), O("direct", D, ["int", "str"])],
        [O("direct", D, ["int"]), O("direct", D, ["int"]), O("direct", "coll::Other", ["int"]), O("array", D, ["int"])],
        [O("direct", D, ["nest_s"]), O("direct", D, ["nest_i"]), O("direct", D, ["nest_0"]), O("direct", D, ["nest_n"])],
        [O("direct", D, ["plain"]), O("direct", D, ["gizmo"]), O("direct", D, ["str"]), O("direct", D, ["plain", "gizmo"])],
        [O("array", D, ["str"]), O("map", D, ["int"]), O("variant", D, ["bool"]), O("direct", D, ["plain"])],
        [O("variant", D, ["str"]), O("variant", D, ["int"]), O("map", D, ["str"]), O("map", D, ["bool"])],
        [O("def", D, ["str"]), O("def", D, ["int"]), O("direct", D, ["bool"]), O("direct", D, ["int"]), O("def", D, [])],
        [O("array", "coll::m::Deque", ["nest_i", "str"]), O("direct", "coll::m::Deque", ["nest_s", "str"]),
         O("map", "coll::m::Deque", ["str", "nest_i"])],
    ]
    out = [(lay, cfg) for lay in fixed for cfg in MCONFIGS]
    n = 40 if ctx.tier == "quick" else 400
    for _ in range(n):
        lay = []
        paths = rnd.sample(MPATHS, rnd.choice([1, 1, 2]))
        for _o in range(rnd.choice([2, 3, 4, 6])):
            ps = [rnd.choice(sorted(MPARAMS)) for _p in range(rnd.choice([0, 1, 1, 2, 2, 3]))]
            lay.append(O(rnd.choice(["direct", "direct", "array", "map", "variant", "def"]), rnd.choice(paths), ps))
        rnd.shuffle(lay)
        out.append((lay, MCONFIGS[rnd.choice([0, 1, 2, 3, 4, 0, 1, 2, 5, 6, 7])]))
    return out


def multi_doc(lay):
    props, defs = {}, {"Plain": {"type": "object", "properties": {"p": {"type": "integer"}}}}
    gz = dict(OWN)
    gz["x-rust-type"] = {"crate": "gz", "version": "*", "path": "gz::Gizmo"}
    defs["Gizmo"] = gz
    for k, o in enumerate(lay):
        key = "f%d" % k
        e = _mext(o["path"], [MPARAMS[p][0] for p in o["params"]])
        if o["pos"] == "direct":
            props[key] = e
        elif o["pos"] == "array":
            props[key] = {"type": "array", "items": e}
        elif o["pos"] == "map":
            props[key] = {"type": "object", "additionalProperties": e}
        elif o["pos"] == "variant":
            props[key] = {"oneOf": [e, {"type": "integer"}]}
        else:
            defs["D%d" % k] = e
            props[key] = {"$ref": "#/definitions/D%d" % k}
    defs["Holder"] = {"type": "object", "required": sorted(props), "properties": props}
    return {"definitions": defs}


VEC_PRE, MAP_PRE = "::std::vec::Vec<", "::std::collections::HashMap<::std::string::String,"


def multi_observe(lay, r):
    """Per occurrence: the emitted type text (syn scan) and Type::ident() (API view)."""
    if r.get("r") != "done" or not r.get("all_ok") or r.get("render") != "ok":
        return None, json.dumps({k: r.get(k) for k in ("r", "steps", "render", "msg")})[:300]
    items = {i["name"]: i for i in r["items"]}
    fields = {x["name"]: norm_ty(x["ty"]) for x in items["Holder"]["fields"]["fields"]}
    types = {t["id"]: t for t in r["types"]}
    holder = [t for t in r["types"] if t["name"] == "Holder"][0]
    pid = {p["name"]: p["type_id"] for p in holder["details"]["props"]}
    out = []
    for k, o in enumerate(lay):
        key = "f%d" % k
        ft = fields[key]
        t = types[pid[key]]
        wrapper = None
        if o["pos"] == "array":
            scan = ft[len(VEC_PRE):-1] if ft.startswith(VEC_PRE) else "?" + ft
            t = types[t["details"]["id"]] if t["details"]["k"] == "vec" else t
        elif o["pos"] == "map":
            scan = ft[len(MAP_PRE):-1] if ft.startswith(MAP_PRE) else "?" + ft
            t = types[t["details"]["value"]] if t["details"]["k"] == "map" else t
        elif o["pos"] == "variant":
            en = items.get(ft)
            v0 = en["variants"][0]["fields"] if en and en["kind"] == "enum" else None
            scan = norm_ty(v0["fields"][0]["ty"]) if v0 and v0["k"] == "tuple" else "?" + ft
            if t["details"]["k"] == "enum" and t["details"]["variants"][0]["details"]["k"] == "tuple":
                t = types[t["details"]["variants"][0]["details"]["ids"][0]]
        else:
            scan = ft
            d = items.get(ft)
            if o["pos"] == "def" and d is not None and d["kind"] == "struct" and d["fields"]["k"] == "tuple" \
                    and ["transparent"] in d["serde"]:
                wrapper = ft
                scan = norm_ty(d["fields"]["fields"][0]["ty"])
                if t["details"]["k"] == "newtype":
                    t = types[t["details"]["inner"]]
        out.append({"scan": scan, "api": norm_ty(t["ident"]), "wrapper": wrapper})
    return out, None


def run_multi(ctx):
    """Several x-rust-type occurrences in ONE type space (inline positions go
    through assign_type's de-duplication of unnamed types): every occurrence's
    emitted type must be the model's `path<its own converted parameters>`."""
    lays = multi_layouts(ctx)
    cases = [{"op": "pipe", "settings": {"unknown_crates": pol, "crates": [{"name": "gz", "version": "*"}] + cr},
              "steps": [{"op": "root", "doc": multi_doc(lay)}]} for lay, (cr, pol, _, _) in lays]
    res = vlib.run_bin("c13", cases)
    vs = sorted({c["version"] for cr, _, _, _ in MCONFIGS for c in cr if c["version"] not in ("*", "!")})
    rq = vlib.run_bin("c13", [{"op": "req", "req": "1.0.0", "versions": vs}])[0]
    tpm = dict(zip(MPATHS, vlib.run_bin("c13", [{"op": "paths", "paths": MPATHS}])[0]["type_path"]))
    exprs, meta = [], []
    for si, (lay, (cr, pol, used, head)) in enumerate(lays):
        for k, o in enumerate(lay):
            pc = {"ext": {"crate": "coll", "version": "1.0.0", "path": o["path"]}, "crates": cr, "policy": pol,
                  "defname": "D%d" % k if o["pos"] == "def" else "Zz", "params": [],
                  "params_text": [MPARAMS[p][1](head or "coll") for p in o["params"]]}
            info = {"req": rq["comparators"], "cfgver": dict(zip(vs, rq["versions"])), "type_path": tpm[o["path"]]}
            exprs.append(coq_pipe_expr(pc, info))
            meta.append((si, k))
    model = vlib.coq_eval_strings("c13m", HDR, exprs, shard=max(20, len(exprs) // (2 * vlib.NCPU) + 1))
    by = {mk: m for mk, m in zip(meta, model)}
    mism, viol, n_occ, n_shared = [], [], 0, 0
    for si, ((lay, (cr, pol, used, head)), r) in enumerate(zip(lays, res)):
        obs, fail = multi_observe(lay, r)
        if obs is None:
            mism.append({"layout": lay, "crates": cr, "policy": pol, "fail": fail})
            viol.append({"kind": "multi-pipeline-failure", "layout": lay, "crates": cr, "policy": pol, "observed": fail})
            continue
        if MUT == "real-native-eq-by-path":
            # emulates seeded change C13-s5: unnamed native types compared by path only, so a later inline
            # occurrence (properties are converted in key order) resolves to the first one with that path
            first = {}
            for k in sorted(range(len(lay)), key=lambda k: "f%d" % k):
                if lay[k]["pos"] != "def":
                    if lay[k]["path"] in first and obs[k]["scan"].startswith("::"):
                        obs[k] = dict(obs[k], scan=first[lay[k]["path"]]["scan"], api=first[lay[k]["path"]]["api"])
                    elif obs[k]["scan"].startswith("::"):
                        first[lay[k]["path"]] = obs[k]
        texts = {}
        for k, o in enumerate(lay):
            n_occ += 1
            dec, dfn = by[(si, k)].split(" / ")
            # --- model
            if dec == "generate":
                ok_m = not any(h in obs[k][w] for h in ("::coll::", "::c_2::") for w in ("scan", "api"))
            else:
                want = norm_ty(dec[len("use "):])
                ok_m = obs[k]["scan"] == want and obs[k]["api"] == want
                if o["pos"] == "def":
                    ok_m = ok_m and (obs[k]["wrapper"] is not None) == dfn.startswith("newtype ")
                elif obs[k]["wrapper"] is not None:
                    ok_m = False
            if not ok_m:
                mism.append({"layout": lay, "occurrence": k, "crates": cr, "policy": pol, "model": by[(si, k)],
                             "observed": obs[k]})
            # --- the property text: path with the first segment replaced, ITS parameters in order
            base = oracle({"ext": {"crate": "coll", "version": "1.0.0", "path": o["path"]}, "crates": cr,
                           "policy": pol, "params": []}, rq["versions"][vs.index(cr[0]["version"])]["matches"]
                          if cr and cr[0]["version"] in vs else None)
            if base[0] == "use":
                ty = base[1]
                if o["params"]:
                    ty += "<" + ",".join(MPARAMS[p][1](ty.split("::")[1]) for p in o["params"]) + ">"
                ty = norm_ty(ty)
                if obs[k]["scan"] != ty or obs[k]["api"] != ty:
                    viol.append({"kind": "multi-occurrence", "layout": lay, "occurrence": k, "crates": cr, "policy": pol,
                                 "expected": "substituted by " + ty, "observed": obs[k]})
                texts.setdefault((o["path"], tuple(o["params"])), set()).add(obs[k]["api"])
            elif "::coll::" in obs[k]["scan"] or "::c_2::" in obs[k]["scan"]:
                viol.append({"kind": "multi-occurrence", "layout": lay, "occurrence": k, "crates": cr, "policy": pol,
                             "expected": "generated from the schema", "observed": obs[k]})
            assert base[0] == ("use" if used else "generate"), (base, used)
        n_shared += sum(1 for v in texts.values() if len(v) == 1)
        ctx.nontrivial.add("multi|" + json.dumps([lay, cr, pol], sort_keys=True))
    ctx.evaluations += n_occ
    ctx.oblige("tie B2: every x-rust-type occurrence of a multi-occurrence type space is emitted as the model's "
               "path<its own converted parameters> (%d occurrences in %d spaces; field type text and Type::ident)"
               % (n_occ, len(lays)), not mism, json.dumps(mism[:3]))
    ctx.coverage["multi_occurrence"] = {
        "spaces": len(lays), "occurrences": n_occ,
        "positions": {p: sum(1 for lay, _ in lays for o in lay if o["pos"] == p) for p in ("direct", "array", "map", "variant", "def")},
        "rule": "10 curated layouts (same path / different parameters: scalars, $refs, nested x-rust-type, arity 0-3; same "
                "path same parameters; different paths; struct property, array items, map values, variant payload, "
                "definition) x 8 configurations + seeded layouts",
    }
    ctx.samples.append({"multi_layout": lays[0][0], "config": lays[0][1][:2], "observed": multi_observe(lays[0][0], res[0])[0]})
    return viol


def run_sites(ctx):
    """'wherever it is used': the definition referenced from other positions."""
    thing = dict(OWN)
    thing["x-rust-type"] = {"crate": "util", "version": "^1.2", "path": "util::m::Thing"}
    cfgs = [([{"name": "util", "version": "1.2.3"}], "generate", True), ([{"name": "util", "version": "1.1.9"}], "allow", False),
            ([{"name": "util", "version": "!"}], "allow", False), ([], "allow", True), ([], "deny", False),
            ([{"name": "util", "version": "*", "rename": "x-y"}], "deny", True)]
    cases, meta = [], []
    for (name, site), (cr, pol, use) in itertools.product(sorted(SITES.items()), cfgs):
        doc = {"definitions": {"Thing": thing, "Site": site}}
        cases.append({"op": "pipe", "settings": {"unknown_crates": pol, "crates": cr}, "steps": [{"op": "root", "doc": doc}]})
        meta.append((name, cr, pol, use))
    res = vlib.run_bin("c13", cases)
    viol = []
    for (name, cr, pol, use), r in zip(meta, res):
        ext_ty = "::x_y::m::Thing" if any(c.get("rename") for c in cr) else "::util::m::Thing"
        ok = r.get("r") == "done" and r.get("all_ok") and r.get("render") == "ok"
        tys, names = [], []
        if ok:
            for it in r["items"]:
                names.append(it["name"])
                if it["name"] == "Site":
                    fl = [it["fields"]] if it["kind"] == "struct" else [v["fields"] for v in it.get("variants", [])]
                    # enum variants are not kept by the harness reduction; fall back to the API view
                    for f in fl:
                        if f and f.get("fields"):
                            tys += [norm_ty(x["ty"]) for x in f["fields"]]
            api = [norm_ty(t["ident"]) for t in r.get("types", [])]
            mentions_ext = any(ext_ty in t for t in tys + api)
            has_item = "Thing" in names
            good = (mentions_ext and not has_item) if use else (has_item and not mentions_ext)
        else:
            good = False
        ctx.nontrivial.add("site|%s|%s|%s" % (name, json.dumps(cr), pol))
        if not good:
            viol.append({"kind": "use-site", "site": name, "crates": cr, "policy": pol,
                         "expected": ("substituted by " + ext_ty) if use else "generated from the schema",
                         "observed": {"ok": ok, "site_types": tys, "items": names}})
    ctx.evaluations += len(cases)
    ctx.coverage["use_sites"] = {"cases": len(cases), "sites": sorted(SITES), "rule": "10 reference positions x 6 configurations"}
    return viol


# --------------------------------------------------------------------------

def run(ctx):
    ctx.level = "proof"
    ctx.trusted = [
        "Coq 8.16.1 kernel + vm_compute; no axioms (Print Assumptions: closed under the global context)",
        "hand-written models Algo/Semver.v (semver 1.0.26 eval.rs, Prerelease::cmp) and Algo/RustExt.v "
        "(convert_rust_extension, name_match, Native arm of convert_ref_type), tied by ties A2 and B on every run",
        "NOT modelled, taken from the implementation as inputs: serde's parse of the extension value (approximated in "
        "the check by the README's schema for it), semver::VersionReq::parse / Version::parse (ASTs printed field by "
        "field by harness/src/bin/c13.rs; cross-checked against a python parser of the Cargo grammar, tie A1), "
        "conversion of parameter schemas (outcome Some/None), syn::parse_str::<syn::TypePath> on the extension path "
        "(section variable path_is_type_path without hypotheses; verdicts from the real syn via `c13 paths`)",
        "pre-release tags are split into identifiers by the check (digits-only => numeric)",
        "specification sat_cargo = the Cargo book's equivalences + `semver::Op` documentation, transcribed by hand "
        "(twice: Coq and python, compared on every pair)",
    ]
    ctx.assumptions = [
        "reading: 'satisfies the requirement' = Cargo's documented interval semantics; on release versions and on "
        "requirements made of full versions it is proved equal to semver's matcher (C13_matches_is_cargo); for a "
        "pre-release version against a requirement containing a partial comparator the documentation does not "
        "determine the answer (C13_matches_is_cargo_gap) and the check defers to Cargo's own matcher",
        "reading: 'through a transparent newtype named after the definition when the names differ' permits the direct "
        "use of a parameterised external type under a differently named definition (name_match); a newtype is only "
        "ever produced when names differ, and never when they are equal",
        "reading: 'its crate is configured' = settings.crates has an entry under the extension's `crate` string verbatim "
        "(hyphens are not normalised for the lookup)",
        "a declared parameter that cannot be converted is outside the property text; the model (generate) is compared "
        "with the code there, the oracle abstains",
    ]
    ctx.checker_cmd = ("make -f Makefile.coq theories/Props/C13.vo && coqc Audit_C13.v (Print Assumptions); "
                       "thorough: coqchk -o")
    vlib.build_harness(bins=("c13",))
    coq_ok = vlib.standard_coq_obligations(ctx, "Props.C13", THEOREMS, ())
    ok_m, out_m = vlib.coq_make(["theories/Algo/RustExt.vo"])
    ctx.oblige("models Algo/Semver.v, Algo/RustExt.v compile", ok_m, out_m[-2000:])

    found, broken_ties = [], []
    try:
        v1, b1 = run_semver(ctx)
        found += v1
        broken_ties += b1
    except Exception as e:  # noqa
        ctx.oblige("semver tie ran", False, repr(e))
    try:
        v2, b2 = run_pipeline(ctx)
        found += v2
        broken_ties += b2
    except Exception as e:  # noqa
        ctx.oblige("pipeline tie ran", False, repr(e))
    try:
        found += run_multi(ctx)
    except Exception as e:  # noqa
        import traceback
        ctx.oblige("multi-occurrence tie ran", False, traceback.format_exc()[-1500:])
    try:
        found += run_sites(ctx)
    except Exception as e:  # noqa
        ctx.oblige("use-site evaluation ran", False, repr(e))

    for v in found:
        if v.get("kind", "").startswith("multi-") and "layout" in v:     # make the replay self-contained
            v["settings"] = {"unknown_crates": v["policy"], "crates": [{"name": "gz", "version": "*"}] + v["crates"]}
            v["schema"] = multi_doc(v["layout"])
    unlisted = []
    for v in found:
        f = classify_known(ctx, v)
        if f:
            ctx.known_finding(f["id"], "%s: %s" % (f["id"], f["summary"]))
        else:
            unlisted.append(v)
    ctx.oblige("direct property evaluation (oracle from the property text): no unlisted violation in %d evaluations"
               % ctx.evaluations, not unlisted, json.dumps(unlisted[:3]))
    ctx.coverage["direct_property_violations"] = len(found)
    if unlisted:
        unlisted.sort(key=lambda v: len(json.dumps(v)))
        v = dict(unlisted[0])
        v["broken_obligations"] = [o[0] for o in ctx.broken()]
        ctx.violation(v)
    elif ctx.broken():
        ctx.violation({"broken_obligations": [(o[0], o[2][:1500]) for o in ctx.broken()],
                       "note": "a theorem or a model/implementation correspondence no longer checks; the oracle "
                               "written from the property text found no failing input"}, no_input=True)

    if ctx.tier == "thorough" and coq_ok:
        rc, out, err = vlib.sh("timeout 1500 coqchk -silent -o -Q theories Typify Typify.Props.C13", cwd=vlib.COQ,
                               timeout=1600)
        ctx.oblige("coqchk re-checks Props.C13 and dependencies", rc == 0, (out + err)[-1500:])
        ctx.coverage["coqchk_output_tail"] = (out + err)[-1200:]


def classify_known(ctx, v):
    for f in ctx.findings_for():
        pred = KNOWN_CLASSES.get(f.get("class"))
        if pred and pred(v):
            return f
    return None


# no open finding classes (C13-F1 is fixed; a fixed entry suppresses nothing)
KNOWN_CLASSES = {}
