"""C16 — the type space stays consistent across any history of additions.

Deciding method: Coq theorems (Props/C16.v) over `Algo/Space.v`, an executable
model of TypeSpace's id allocation and its three de-duplication indexes in
which the converter is an arbitrary script of assign_type calls.  Tie, on every
run: (a) real histories are executed by harness/src/bin/c16.rs which dumps the
type space after EVERY call; the allocation-level trace of each call is derived
from consecutive dumps and replayed in Space.v (vm_compute); the model's state
must equal the dump's after every call.  (b) The four clauses of the property
are evaluated directly on the implementation through the public API
(get_type(..).name()/ident()/details(), item names of to_stream()) with python
oracles that do not look at the model.
"""
import copy
import json
import os
import random

import vlib

THEOREMS = [
    "C16_next_id_monotone",
    "C16_ids_stable",
    "C16_ids_stable_without_cycle_hyp_refuted",
    "C16_name_key_stable",
    "C16_finalize_local",
    "C16_finalize_skips_older_ids",
    "C16_entries_closed",
    "C16_entries_closed_after_failed_batch_refuted",
    "C16_readd_same_id",
    "C16_readd_same_id_addtype_history",
    "C16_readd_after_refs_refuted",
    "C16_readd_refs_allocates",
    "C16_readd_refs_refuted",
    "C16_names_unique",
    "C16_names_unique_readd_refuted",
    "C16_names_unique_same_batch",
    "C16_names_unique_within_call",
    "C16_names_unique_accepted_histories",
    "C16_names_unique_after_rejected_batch_refuted",
    "C16_names_unique_inner_title_rejected",
    "C16_split_permutation",
    "C16_split_renaming_bijective",
    "C16_renaming_keeps_name_and_key",
    "C16_reachable_states_consistent",
    "C16_split_independent_partial",
]

MUT = os.environ.get("C16_MUTATE", "")

# --------------------------------------------------------------------------
# schema / history generator (seeded; clean region only, see notes/C16.md)
# --------------------------------------------------------------------------
POOL = ["Alpha", "Beta", "Gamma", "Delta", "Kappa", "Lambda", "Sigma", "Omega", "Rho", "Tau", "Phi", "Chi",
        "Psi", "Zeta", "Theta", "Iota", "Mu", "Nu", "Xi", "Pi", "Omicron", "Upsilon", "Eta", "Epsilon"]
PROPS = ["a", "b", "c", "d", "e"]
LEAVES = [{"type": "string"}, {"type": "integer"}, {"type": "boolean"}, {"type": "number"},
          {"type": "string", "format": "uuid"}, {"type": "integer", "format": "uint8"}]


_S = {"type": "string"}


def _obj(req=True, **p):
    return {"type": "object", "properties": p, "required": sorted(p) if req else []}


def _variant(tag, val, body_key, body):
    return {"type": "object", "properties": {"t": {"type": "string", "enum": [val]}, body_key: body},
            "required": ["t", body_key]}


# every entry kind that carries a type NAME (type_entry.rs:587-595), by the schema shape that produces it
# (observed on the real code, see notes/C16.md): factory(rnd) -> schema
NAMED_KINDS = {
    "struct": lambda r: _obj(x=_S, **({"n": {"type": "integer"}} if r.random() < 0.5 else {})),
    "enum_external_simple": lambda r: {"type": "string", "enum": r.sample(["a", "b", "c", "d"], r.randint(2, 3))},
    "enum_external_struct": lambda r: {"oneOf": [
        dict(_obj(A=_S), additionalProperties=False),
        dict(_obj(B={"type": r.choice(["integer", "boolean"])}), additionalProperties=False)]},
    "enum_internal": lambda r: {"oneOf": [_variant("t", "a", "x", _S), _variant("t", "b", "y", {"type": "integer"})]},
    "enum_adjacent": lambda r: {"oneOf": [_variant("t", "a", "c", _S), _variant("t", "b", "c", {"type": "integer"})]},
    "enum_untagged": lambda r: {"oneOf": [_S, {"type": r.choice(["integer", "boolean"])}]},
    "newtype_string_length": lambda r: {"type": "string", "maxLength": r.randint(3, 12)},
    "newtype_string_pattern": lambda r: {"type": "string", "pattern": r.choice(["^a+$", "^[0-9]{3}$"])},
    "newtype_enum_values": lambda r: {"type": "integer", "enum": sorted(r.sample([1, 2, 3, 5, 8], 3))},
    "newtype_deny_values": lambda r: {"type": "string", "not": {"enum": [r.choice(["bad", "worse"])]}},
    # alias newtypes: only a DEFINITION of these shapes becomes a (named) newtype (lib.rs:733-748)
    "alias_scalar": lambda r: {"type": r.choice(["string", "boolean", "number"])},
    "alias_array": lambda r: {"type": "array", "items": _S},
    "alias_map": lambda r: {"type": "object", "additionalProperties": {"type": "integer"}},
    "alias_native_format": lambda r: {"type": "string", "format": r.choice(["uuid", "date"])},
    "alias_integer_format": lambda r: {"type": "integer", "format": r.choice(["uint8", "int32"])},
}
# `not` together with `title` panics inside typify at add time (a rejection, DESIGN 3.1): no titled forms
TITLE_UNSAFE = {"newtype_deny_values"}


def readd_forms(kind, name, sc, other, fresh_names):
    """later calls that add the SAME named thing again: (a) identical schema under the same hint / title,
    (b) identical titled schema inline in a new struct / array / later batch, (c) same hint, other shape"""
    o1, o2, o3 = fresh_names
    out = [("a-hint", {"op": "add", "schema": sc, "name": name})]
    if kind not in TITLE_UNSAFE:
        t = dict(sc, title=name)
        out += [("a-title", {"op": "add", "schema": t}),
                ("b-property", {"op": "add", "schema": _obj(p=t), "name": o1}),
                ("b-array-item", {"op": "add", "schema": {"type": "array", "items": t}}),
                ("b-later-batch", {"op": "refs", "defs": {o2: _obj(q=t)}}),
                ("b-root-property", {"op": "root", "doc": dict(_obj(r=t), title=o3)})]
    out.append(("c-other-shape", {"op": "add", "schema": other, "name": name}))
    return out


def coverage_histories():
    """systematic, seed independent: every named kind x every way of getting its name x every re-add form"""
    import random as _r
    hs = []
    kinds = sorted(NAMED_KINDS)
    for ki, kind in enumerate(kinds):
        r = _r.Random(1600 + ki)
        sc = NAMED_KINDS[kind](r)
        other = NAMED_KINDS["struct" if kind != "struct" else "newtype_string_length"](r)
        origins = [("definition", [{"op": "refs", "defs": {"Host": sc}}]),
                   ("hint", [{"op": "add", "schema": sc, "name": "Host"}])]
        if kind not in TITLE_UNSAFE:
            t = dict(sc, title="Host")
            origins += [("title", [{"op": "add", "schema": t}]),
                        ("titled-property-of-definition", [{"op": "refs", "defs": {"Holder": _obj(h=t)}}]),
                        ("titled-property-of-add", [{"op": "add", "schema": _obj(h=t), "name": "Holder"}]),
                        ("titled-root", [{"op": "root", "doc": dict(sc, title="Host")}])]
        for oname, first in origins:
            forms = readd_forms(kind, "Host", sc, other, ("OuterOne", "LaterTwo", "RootThree"))
            steps = list(first)
            for _, st in forms:
                steps.append(st)
            steps.append(forms[0][1])          # exact repeat at the end, after everything else
            hs.append({"steps": copy.deepcopy(steps), "coverage": "%s/%s" % (kind, oname)})
            # and each form alone, directly after the origin
            for fname, st in forms:
                # (a batch / root form is not repeated: re-adding DEFINITIONS is finding C16-1)
                hs.append({"steps": copy.deepcopy(list(first) + ([st, st] if st["op"] == "add" else [st])),
                           "coverage": "%s/%s/%s" % (kind, oname, fname)})
    return hs


# definition keys that are NOT their own Pascal-case type name -> type name typify gives them (observed on the
# real code; the first call of every key history re-checks it).  convert_ref_type registers the TYPE name in
# name_to_id (lib.rs:751-753), which is what assign_type's reuse-by-name asks for (lib.rs:942).
KEY_TYPES = {"disk-state": "DiskState", "disk_state": "DiskState", "diskState": "DiskState",
             "DISK_STATE": "DiskState", "disk state": "DiskState", "disk.state": "DiskState",
             "9lives": "X9lives", "gr\u00f6\u00dfe": "Gr\u00f6\u00dfe", "x-ray-2": "XRay2"}


def key_histories():
    """systematic, seed independent: a definition under a kebab / snake / camel / upper / spaced / dotted /
    leading-digit / unicode key, then a later call adds the same schema under the sanitized type name and under
    the raw key (hint, title, titled property, `$ref`): it must get the existing id, nothing may be defined twice"""
    import random as _r
    hs = []
    for ki, (key, tn) in enumerate(sorted(KEY_TYPES.items())):
        for shape in ("struct", "newtype_string_length", "enum_external_simple"):
            sc = NAMED_KINDS[shape](_r.Random(1700 + ki))
            origins = [("batch", {"op": "refs", "defs": {key: sc}}),
                       ("root-definitions", {"op": "root", "doc": dict(_obj(d={"$ref": "#/definitions/" + key}),
                                                                       title="TopDoc", definitions={key: sc})})]
            forms = [("hint-type-name", {"op": "add", "schema": sc, "name": tn}),
                     ("hint-raw-key", {"op": "add", "schema": sc, "name": key}),
                     ("title-type-name", {"op": "add", "schema": dict(sc, title=tn)}),
                     ("title-raw-key", {"op": "add", "schema": dict(sc, title=key)}),
                     ("titled-property", {"op": "add", "schema": _obj(p=dict(sc, title=tn)), "name": "OuterOne"}),
                     ("titled-property-in-batch", {"op": "refs", "defs": {"LaterTwo": _obj(q=dict(sc, title=key))}}),
                     ("reference", {"op": "add", "schema": {"$ref": "#/definitions/" + key}})]
            for oname, first in origins:
                hs.append({"steps": copy.deepcopy([first] + [f for _, f in forms] + [forms[0][1]]),
                           "coverage": "keys/%s/%s/%s" % (key, shape, oname), "key": key})
                for fname, st in forms:
                    hs.append({"steps": copy.deepcopy([first, st] + ([st] if st["op"] == "add" else [])),
                               "coverage": "keys/%s/%s/%s/%s" % (key, shape, oname, fname), "key": key})
    return hs


def untagged_histories():
    """systematic: an UNTAGGED enum whose variant types have higher ids (later-sorted definitions of the batch,
    or definitions of the same root document), i.e. it is finalized BEFORE them and gets no FromStr/Display;
    followed by unrelated calls of every kind, which must leave it (entry, has_impl, rendered impls) alone"""
    e1, e2 = {"type": "string", "enum": ["a", "b"]}, {"type": "string", "enum": ["c", "d"]}
    r_ = lambda k: {"$ref": "#/definitions/" + k}                     # noqa
    batches = {
        "two-enums": {"Alpha": {"oneOf": [r_("Beta"), r_("Gamma")]}, "Beta": e1, "Gamma": e2},
        "enum-and-newtype": {"Alpha": {"oneOf": [r_("Beta"), r_("Gamma")]}, "Beta": e1,
                             "Gamma": {"type": "integer", "enum": [1, 2]}},
        "nested": {"Alpha": {"oneOf": [r_("Beta"), r_("Gamma")]}, "Beta": {"oneOf": [r_("Delta"), r_("Gamma")]},
                   "Gamma": e2, "Delta": e1},
        "kebab": {"a-first": {"oneOf": [r_("b-second"), r_("c-third")]}, "b-second": e1, "c-third": e2},
    }
    later = [{"op": "add", "schema": dict(_obj(x=_S), title="Unrelated")},
             {"op": "add", "schema": {"type": "array", "items": {"type": "integer"}}},
             {"op": "refs", "defs": {"Zeta": _obj(z=_S)}},
             {"op": "root", "doc": dict(_obj(r={"type": "boolean"}), title="TopDoc")},
             {"op": "add", "schema": _obj(k=_S), "name": "Hinted"}]
    hs = []
    for bname, defs in batches.items():
        first = sorted(defs)[0]
        origins = [("batch", {"op": "refs", "defs": defs}),
                   ("root-definitions", {"op": "root", "doc": dict(_obj(u=r_(first)), title="Doc", definitions=defs)})]
        for oname, o in origins:
            hs.append({"steps": copy.deepcopy([o] + later), "coverage": "untagged/%s/%s" % (bname, oname)})
            for k, st in enumerate(later):
                hs.append({"steps": copy.deepcopy([o, st]), "coverage": "untagged/%s/%s/%d" % (bname, oname, k)})
            # the untagged enum itself is then used by a later call
            hs.append({"steps": copy.deepcopy([o, {"op": "add", "schema": _obj(w=r_(first)), "name": "User"}, later[0]]),
                       "coverage": "untagged/%s/%s/used" % (bname, oname)})
    return hs


def root_histories():
    """systematic, seed independent: several titled add_root_schema calls on ONE space (different titles,
    self references through "#", with and without definitions), interleaved with batches and reference probes"""
    def root(title, defs=None, self_ref=True, **props):
        p = dict(props)
        if self_ref:
            p["me"] = {"$ref": "#"}
        d = {"title": title, "type": "object", "properties": p, "required": sorted(k for k in p if k != "me")}
        if defs is not None:
            d["definitions"] = defs
        return {"op": "root", "doc": d}
    i_, s_, b_ = {"type": "integer"}, {"type": "string"}, {"type": "boolean"}
    dA = {"Ad": _obj(x=s_)}
    dB = {"Bd": _obj(y=i_, up={"$ref": "#"})}
    probe = lambda k: {"op": "add", "schema": {"$ref": k}}            # noqa
    hs = [
        [root("Alpha", a=s_), root("Beta", b=i_)],
        [root("Alpha", a=s_), root("Beta", b=i_), root("Gamma", c=b_), probe("#")],
        [root("Alpha", self_ref=False, a=s_), root("Beta", b=i_), probe("#")],
        [root("Alpha", defs=dA, a={"$ref": "#/definitions/Ad"}), root("Beta", defs=dB, b={"$ref": "#/definitions/Bd"}),
         probe("#/definitions/Ad"), probe("#/definitions/Bd"), probe("#")],
        [root("Alpha", a=s_), {"op": "refs", "defs": {"Xd": _obj(x=s_)}}, root("Beta", b={"$ref": "#/definitions/Xd"}),
         probe("#/definitions/Xd"), probe("#")],
        [{"op": "refs", "defs": {"Xd": _obj(x=s_)}}, root("Alpha", a={"$ref": "#/definitions/Xd"}),
         {"op": "add", "schema": _obj(r={"$ref": "#"}), "name": "Holder"}, root("Beta", b=i_),
         {"op": "add", "schema": _obj(r={"$ref": "#"}), "name": "HolderTwo"}],
        [root("Alpha", defs={}, a=s_), root("Beta", defs={}, b={"type": "array", "items": {"$ref": "#"}})],
        [{"op": "root", "doc": {"title": "Alpha", "type": "string", "maxLength": 4}}, root("Beta", b=i_), probe("#")],
    ]
    return [{"steps": copy.deepcopy(h), "coverage": "roots/%d" % k} for k, h in enumerate(hs)]


class Gen:
    def __init__(self, rnd, pool=None, tag=""):
        self.rnd = rnd
        self.free = list(pool if pool is not None else POOL)
        rnd.shuffle(self.free)
        self.round = 0
        self.tag = tag
        self.defs = {}     # def name -> schema, everything added so far (for refs from later calls)
        self.hints = []    # names used as hints/titles by add calls
        self.named = []    # (type name, schema, kind): named things added so far, candidates for re-adding

    def fresh(self):
        """a name whose TYPE name is new; a quarter of them are not written in Pascal case (kebab, snake, camel,
        upper snake): as definition key, hint or title they all sanitize to the same type name"""
        base = self.fresh_base()
        w = self.rnd.random()
        if w < 0.75:
            return base
        lo = base[0].lower() + base[1:]
        return self.rnd.choice([lo + "-node", lo + "_node", lo + "Node", base.upper() + "_NODE"])

    def fresh_base(self):
        if not self.free:
            self.round += 1
            self.free = ["%s%s%d" % (n, self.tag, self.round) for n in POOL]
            self.rnd.shuffle(self.free)
        return self.free.pop()

    def schema(self, depth, refs):
        r = self.rnd.random()
        if depth <= 0 or r < 0.35:
            if refs and self.rnd.random() < 0.5:
                return {"$ref": "#/definitions/" + self.rnd.choice(refs)}
            return copy.deepcopy(self.rnd.choice(LEAVES))
        if r < 0.50:
            return {"type": "array", "items": self.schema(depth - 1, refs)}
        if r < 0.58:
            return {"type": "object", "additionalProperties": self.schema(depth - 1, refs)}
        if r < 0.66:
            return {"type": "array", "items": [self.schema(depth - 1, refs), self.schema(depth - 1, refs)],
                    "minItems": 2, "maxItems": 2}
        if r < 0.74:
            return {"type": "array", "items": self.schema(depth - 1, refs), "uniqueItems": True} \
                if self.rnd.random() < 0.3 else {"type": ["string", "null"]}
        if r < 0.84:
            return {"type": "string", "enum": self.rnd.sample(["red", "green", "blue", "up", "down"], 2)}
        return self.obj(depth - 1, refs)

    def obj(self, depth, refs):
        n = self.rnd.randint(1, 3)
        names = self.rnd.sample(PROPS, n)
        props = {p: self.schema(depth, refs) for p in names}
        req = [p for p in names if self.rnd.random() < 0.6]
        return {"type": "object", "properties": props, "required": sorted(req)}

    def definition(self, refs):
        self.last_kind = None
        if self.rnd.random() < 0.30:
            self.last_kind = self.rnd.choice(sorted(NAMED_KINDS))
            return NAMED_KINDS[self.last_kind](self.rnd)
        r = self.rnd.random()
        if r < 0.70:
            return self.obj(2, refs)
        if r < 0.80:
            return {"type": "string", "enum": self.rnd.sample(["n", "s", "e", "w", "x"], 3)}
        if r < 0.88:
            return copy.deepcopy(self.rnd.choice(LEAVES))                 # newtype alias
        if r < 0.94 and refs:
            return {"$ref": "#/definitions/" + self.rnd.choice(refs)}      # alias of a reference
        return {"type": "array", "items": self.schema(1, refs)}

    def batch(self, n, cross=True):
        names = [self.fresh() for _ in range(n)]
        # references inside the batch (forward, backward, self => cycles) and, sometimes, to earlier batches
        old = list(self.defs)
        defs = {}
        for nm in names:
            refs = list(names)
            if cross and old and self.rnd.random() < 0.3:
                refs += self.rnd.sample(old, min(2, len(old)))
            defs[nm] = self.definition(refs)
            if self.last_kind:
                self.named.append((nm, defs[nm], self.last_kind))
        if len(names) >= 3 and self.rnd.random() < 0.35:
            # an untagged enum that is converted and finalized BEFORE its variant types (BTreeMap order = id order)
            o = sorted(names)
            defs[o[0]] = {"oneOf": [{"$ref": "#/definitions/" + o[1]}, {"$ref": "#/definitions/" + o[2]}]}
            defs[o[1]] = {"type": "string", "enum": self.rnd.sample(["a", "b", "c"], 2)}
            defs[o[2]] = {"type": "string", "enum": self.rnd.sample(["x", "y", "z"], 2)}
            self.named = [x for x in self.named if x[0] not in o[:3]]
        self.defs.update(defs)
        return defs

    def step(self, history):
        r = self.rnd.random()
        if r < 0.25:
            return {"op": "refs", "defs": self.batch(self.rnd.randint(1, 4))}
        if r < 0.45:
            defs = self.batch(self.rnd.randint(0, 3))
            doc = self.obj(2, list(defs)) if self.rnd.random() < 0.8 else {"type": "string"}
            if self.rnd.random() < 0.7:
                doc["title"] = self.fresh()
                if doc.get("type") == "object" and self.rnd.random() < 0.5:
                    # the root refers to itself: "#" is RefKey::Root, re-pointed by every titled document
                    doc = copy.deepcopy(doc)
                    doc["properties"][self.rnd.choice(["me", "again"])] = \
                        {"$ref": "#"} if self.rnd.random() < 0.6 else {"type": "array", "items": {"$ref": "#"}}
            doc = dict(doc)
            doc["definitions"] = defs
            return {"op": "root", "doc": doc}
        if r < 0.55 and self.named:
            # re-add a named thing through another call form
            nm, sc, kind = self.rnd.choice(self.named)
            other = NAMED_KINDS[self.rnd.choice(sorted(NAMED_KINDS))](self.rnd)
            forms = readd_forms(kind, nm, sc, other, (self.fresh(), self.fresh(), self.fresh()))
            return copy.deepcopy(self.rnd.choice(forms)[1])
        if r < 0.63:
            # a named kind gets its name from a hint / a title / as titled property
            kind = self.rnd.choice(sorted(NAMED_KINDS))
            sc = NAMED_KINDS[kind](self.rnd)
            nm = self.fresh()
            self.named.append((nm, sc, kind))
            w = self.rnd.random()
            if kind in TITLE_UNSAFE or w < 0.4:
                return {"op": "add", "schema": sc, "name": nm}
            t = dict(sc, title=nm)
            if w < 0.6:
                return {"op": "add", "schema": t}
            if w < 0.8:
                return {"op": "add", "schema": _obj(h=t), "name": self.fresh()}
            return {"op": "refs", "defs": {self.fresh(): _obj(h=t)}}
        adds = [s for s in history if s["op"] == "add"]
        if r < 0.70 and adds:
            return copy.deepcopy(self.rnd.choice(adds))                    # exact repeat of an earlier add
        old = list(self.defs)
        k = self.rnd.random()
        if k < 0.15 and old:
            return {"op": "add", "schema": {"$ref": "#/definitions/" + self.rnd.choice(old)}}
        if k < 0.30:
            # unnamed types: shared sub-structure with earlier calls via type_to_id
            s = self.schema(1, old)
            if s.get("type") == "object" and "properties" in s or "enum" in s:
                s = {"type": "array", "items": {"type": "string"}}
            return {"op": "add", "schema": s}
        s = self.obj(2, old) if self.rnd.random() < 0.8 else \
            {"type": "string", "enum": self.rnd.sample(["n", "s", "e", "w", "x"], 3)}
        m = self.rnd.random()
        if m < 0.30 and old:
            name = self.rnd.choice(old)             # hint coincides with an existing definition
        elif m < 0.50 and self.hints:
            name = self.rnd.choice(self.hints)      # hint coincides with an earlier hint (other schema)
        else:
            name = self.fresh()
        self.hints.append(name)
        st = {"op": "add", "schema": s}
        if self.rnd.random() < 0.25:
            st["schema"] = dict(s, title=name)
        else:
            st["name"] = name
        return st


def gen_history(rnd, maxlen):
    g = Gen(rnd)
    h = []
    for _ in range(rnd.randint(1, maxlen)):
        h.append(g.step(h))
    return h


# --------------------------------------------------------------------------
# projections of a dump
# --------------------------------------------------------------------------
def kids_of(e):
    k = e["kind"]
    if k == "struct":
        return [p["type_id"] for p in e["props"]]
    if k == "enum":
        out = []
        for v in e["variants"]:
            d = v["details"]
            if d["k"] == "item":
                out.append(d["id"])
            elif d["k"] == "tuple":
                out += d["ids"]
            elif d["k"] == "struct":
                out += [p["type_id"] for p in d["props"]]
        return out
    if k == "newtype":
        return [e["type_id"]]
    if k == "native":
        return list(e["params"])
    if k in ("option", "box", "vec", "set", "array", "reference"):
        return [e["id"]]
    if k == "map":
        return [e["key"], e["value"]]
    if k == "tuple":
        return list(e["ids"])
    return []


def mask(e):
    """structural key: the WHOLE entry (finalize-computed bespoke impls included) without its type name and
    child ids.  For an entry of a batch the key is taken from the dump at the END of the call that created it
    (children from the pre-break_cycles snapshot), so a later call that re-finalizes an older entry shows up as a
    difference between model and dump."""
    def m(x):
        if isinstance(x, dict):
            return {k: (None if k in ("type_id", "id", "ids", "key", "value", "params") else m(v))
                    for k, v in x.items()}
        if isinstance(x, list):
            return [m(v) for v in x]
        return x
    e2 = {k: v for k, v in e.items() if not (k == "name" and is_named(e))}
    return json.dumps(m(e2), sort_keys=True)


def is_named(e):
    return e["kind"] in ("struct", "enum", "newtype")


class Numbering:
    def __init__(self):
        self.names, self.keys, self.bodies = {}, {}, {}

    def name(self, s):
        return self.names.setdefault(s, len(self.names) + 1)

    def key(self, s):
        return self.keys.setdefault(s, len(self.keys) + 1)

    def body(self, e):
        if e["kind"] == "box":
            return 0
        return self.bodies.setdefault(mask(e), len(self.bodies) + 1)


def proj(dump, nb):
    ents = {}
    for i, e in dump["entries"].items():
        ents[int(i)] = (nb.name(e["name"]) if is_named(e) else None, nb.body(e), kids_of(e))
    return {
        "next": dump["next_id"],
        "ent": ents,
        "t2i": sorted(dump["type_to_id"]),
        "names": {nb.name(k): v for k, v in dump["name_to_id"].items()},
        "refs": {nb.key(k): v for k, v in dump["ref_to_id"].items()},
    }


def parse_delta(s):
    out = {}
    f = dict(p.split("=", 1) for p in s.split("|"))
    out["next"] = int(f["next"])
    ents = {}
    for it in filter(None, f["ent"].split(",")):
        i, n, k, ks = it.split(":")
        ents[int(i)] = (int(n[1:]) if n[0] == "n" else None, int(k), [int(x) for x in ks.split(".") if x])
    out["ent"] = ents
    out["t2i"] = [int(x) for x in f["t2i"].split(",") if x]
    out["names"] = {int(a): int(b) for a, b in (p.split(">") for p in f["names"].split(",") if p)}
    out["refs"] = {int(a): int(b) for a, b in (p.split(">") for p in f["refs"].split(",") if p)}
    out["sizes"] = [int(x) for x in f["sizes"].split(".")]
    out["ret"] = int(f["ret"])
    out["err"] = int(f["err"])
    return out


def apply_delta(m, d):
    """state after a call = previous model state + printed changes (sizes guard against deletions)"""
    def mg(a, b):
        c = dict(a)
        c.update(b)
        return c
    m = {"next": d["next"], "ent": mg(m["ent"], d["ent"]), "t2i": sorted(m["t2i"] + d["t2i"]),
         "names": mg(m["names"], d["names"]), "refs": mg(m["refs"], d["refs"]), "ret": d["ret"], "err": d["err"]}
    if [len(m["ent"]), len(m["t2i"]), len(m["names"]), len(m["refs"])] != d["sizes"]:
        m["next"] = -1      # the model dropped or duplicated a key: force a mismatch
    return m


# --------------------------------------------------------------------------
# allocation-level trace of a call, derived from consecutive dumps
# --------------------------------------------------------------------------
class TraceError(Exception):
    pass


def step_keys(step):
    """ref keys (as verif_dump prints them) of the definitions a refs/root call reserves ids for, in order"""
    if step["op"] == "refs":
        return ["#/" + k for k in sorted(step["defs"])]
    doc = step["doc"]
    ks = ["#/" + k for k in sorted(doc.get("definitions", {}))]
    if isinstance(doc, dict) and "title" in doc:
        ks.append("#")
    return ks


def c_abs(i):
    return "CAbs %d" % i


def tbody(nb, e, kids, cref=c_abs):
    return "(mkT %d [%s])" % (nb.body(e), "; ".join(cref(c) for c in kids))


def tentry(nb, e, kids, cref=c_abs):
    if is_named(e):
        return "TNamed %d %s" % (nb.name(e["name"]), tbody(nb, e, kids, cref))
    return "TUnnamed %s" % tbody(nb, e, kids, cref)


def derive_call(nb, step, d0, rec):
    """Coq `call` term for the observed transition d0 -> rec['dump']."""
    d1 = rec["dump"]
    base = d0["next_id"]
    res = rec["res"]
    ok = res["r"] == "ok"
    if step["op"] == "add":
        new = list(range(base, d1["next_id"]))
        ops = []
        for i in new:
            e = d1["entries"].get(str(i))
            if e is None:
                raise TraceError("add_type allocated id %d without an entry" % i)
            cref = lambda c: ("CRes %d" % (c - base)) if base <= c < i else c_abs(c)  # noqa
            ops.append(tentry(nb, e, kids_of(e), cref))
        if ok:
            r = res["id"]
            if not (new and r == new[-1]):
                e = d1["entries"].get(str(r))
                if e is not None and is_named(e):
                    ops.append(tentry(nb, e, kids_of(e)))          # reuse by name
                else:
                    ops.append("TRef (%s)" % c_abs(r))             # a reference or a structural hit
        return "AddType [%s]" % "; ".join(ops), (res["id"] if ok else None), None
    # refs / root
    if ok:
        if len(rec["pre"]) != 1:
            raise TraceError("expected one pre-cycles snapshot, got %d" % len(rec["pre"]))
        p = rec["pre"][0]["space"]
        n = rec["pre"][0]["def_len"]
        if rec["pre"][0]["base_id"] != base:
            raise TraceError("base_id differs from previous next_id")
    else:
        p = d1
        n = len([1 for v in d1["ref_to_id"].values() if v >= base])
    # the i-th reserved id belongs to the i-th definition of the call (lib.rs:629-633); definitions arrive in
    # BTreeMap (= sorted) order, the titled root last (lib.rs:800-814).  NOT read back from ref_to_id: the model
    # decides what ref_to_id has to contain afterwards.
    keys = step_keys(step)
    if ok and len(keys) != n:
        raise TraceError("call has %d definitions, def_len is %d" % (len(keys), n))
    if not ok:
        n = len(keys)
    inv = {base + j: k for j, k in enumerate(keys)}
    assigned = []
    for i in range(base + n, p["next_id"]):
        e = p["entries"].get(str(i))
        if e is None:
            raise TraceError("conversion allocated id %d without an entry" % i)
        assigned.append(tentry(nb, d1["entries"].get(str(i), e), kids_of(e)))
    defs = []
    done = 0
    for j in range(n):
        rid = base + j
        if rid not in inv:
            raise TraceError("reserved id %d has no ref key" % rid)
        e = p["entries"].get(str(rid))
        if e is None:
            if ok:
                raise TraceError("reserved id %d has no entry after a successful call" % rid)
            ins = "InsRaw (mkT 0 [])"
        else:
            if done != j:
                raise TraceError("converted definitions are not a prefix")
            done = j + 1
            ek = d1["entries"].get(str(rid), e)        # key as finalized by THIS call, children before snips
            ins = ("InsNamed %d %s" % (nb.name(e["name"]), tbody(nb, ek, kids_of(e)))) if is_named(e) \
                else "InsRaw %s" % tbody(nb, ek, kids_of(e))
        scr = assigned if (j == 0 and (ok or done >= 1)) else []
        defs.append("mkDef %d [%s] (%s)" % (nb.key(inv[rid]), "; ".join(scr), ins))
    if not ok:
        if res["r"] == "err" and "map to the same type name" in (res.get("msg") or ""):
            # fixes c22ef06 / 40183ea: the MODEL has to find the collision itself (batch_dup / created_dup)
            return "AddRefs [%s] [] None" % "; ".join(defs), None, 1
        partial = assigned if done == 0 else []
        return "AddRefsErr [%s] %d [%s]" % ("; ".join(defs), done, "; ".join(partial)), None, 1
    if n == 0 and assigned:
        raise TraceError("entries assigned by a batch without definitions")
    # break_cycles: slots re-pointed to boxes
    boxes = []
    for i_s, e0 in p["entries"].items():
        e1 = d1["entries"].get(i_s)
        if e1 is None:
            raise TraceError("entry %s vanished in break_cycles/finalize" % i_s)
        k0, k1 = kids_of(e0), kids_of(e1)
        if len(k0) != len(k1):
            raise TraceError("entry %s changed arity" % i_s)
        for slot, (a, b) in enumerate(zip(k0, k1)):
            if a != b:
                eb = d1["entries"].get(str(b))
                if eb is None or eb["kind"] != "box" or eb["id"] != a:
                    raise TraceError("entry %s slot %d re-pointed %d -> %d which is not Box(%d)" % (i_s, slot, a, b, a))
                boxes.append((b, int(i_s), slot))
    boxes.sort()
    newboxes = set(range(p["next_id"], d1["next_id"]))
    if not newboxes <= {b for b, _, _ in boxes}:
        raise TraceError("break_cycles allocated ids that no slot points to")
    ret = "None"
    if step["op"] == "root" and res["id"] is not None:
        ret = "(Some %d)" % nb.key("#")
    call = "AddRefs [%s] [%s] %s" % ("; ".join(defs), "; ".join("(%d, %d%%nat)" % (pp, s) for _, pp, s in boxes), ret)
    return call, res["id"], 0


def derive_history(steps, recs):
    nb = Numbering()
    d0 = {"next_id": 1, "entries": {}, "name_to_id": {}, "ref_to_id": {}, "type_to_id": []}
    calls, rets = [], []
    for st, rec in zip(steps, recs):
        c, r, er = derive_call(nb, st, d0, rec)
        calls.append(c)
        rets.append((r, er))
        d0 = rec["dump"]
    # projections are taken AFTER the whole history was numbered (same Numbering)
    projs = [proj(rec["dump"], nb) for rec in recs]
    return "show_trace [%s]" % "; ".join(calls), projs, rets


def compare_model(model_str, projs, rets):
    parts = model_str.split("#") if model_str else []
    if len(parts) != len(projs):
        return "model produced %d states for %d calls" % (len(parts), len(projs))
    m = {"next": 1, "ent": {}, "t2i": [], "names": {}, "refs": {}}
    for t, (ms, pj, r) in enumerate(zip(parts, projs, rets)):
        m = apply_delta(m, parse_delta(ms))
        for f in ("next", "ent", "t2i", "names", "refs"):
            if m[f] != pj[f]:
                return "call %d: %s differs: model %s impl %s" % (t, f, json.dumps(m[f], sort_keys=True)[:400],
                                                                 json.dumps(pj[f], sort_keys=True)[:400])
        r, er = r
        if r is not None and m["ret"] != r:
            return "call %d: returned id differs: model %d impl %d" % (t, m["ret"], r)
        if er is not None and m["err"] != er:
            return "call %d: outcome differs: model err=%d impl err=%d" % (t, m["err"], er)
    return None


# --------------------------------------------------------------------------
# direct oracles on the public API (independent of the model)
# --------------------------------------------------------------------------
def type_items(render):
    return sorted((m, k, n) for m, k, n in render.get("items", []) if k in ("struct", "enum"))


def reachable(views, roots):
    seen, todo = set(), list(roots)

    def kid_ids(d):
        out = []
        if isinstance(d, dict):
            for k, v in d.items():
                if k in ("id", "type_id", "inner", "key", "value") and isinstance(v, int):
                    out.append(v)
                elif k == "ids":
                    out += v
                elif k == "props" and v and isinstance(v[0], list):
                    out += [x[1] for x in v]
                else:
                    out += kid_ids(v)
        elif isinstance(d, list):
            for v in d:
                out += kid_ids(v)
        return out
    while todo:
        i = todo.pop()
        if i in seen:
            continue
        seen.add(i)
        v = views.get(str(i))
        if v:
            todo += kid_ids(v["details"])
    return seen


def _norm(nm):
    nm = KEY_TYPES.get(str(nm), str(nm))
    return "".join(c for c in nm.lower() if c.isalnum())


def _named_target(views, i, depth=0):
    """follow Option/Box/Vec/... wrappers from id i to the first struct/enum/newtype"""
    v = views.get(str(i))
    if v is None or depth > 6:
        return None
    d = v["details"]
    if d["k"] in ("struct", "enum", "newtype"):
        return v
    for k in ("id", "inner"):
        if isinstance(d.get(k), int):
            return _named_target(views, d[k], depth + 1)
    return None


def check_resolves(views, i, name, schema, latest, what):
    """the type behind id i must be the one made from `schema` under `name`: same type name, same property
    set, and every `$ref` property points at the type the referenced key currently stands for"""
    v = views.get(str(i))
    if v is None:
        return {"what": what, "expected_type": name, "observed": "id %s has no type" % i}
    if _norm(v["name"]) != _norm(name):
        return {"what": what, "expected_type": name, "observed_type": v["name"], "id": i}
    props = schema.get("properties") if isinstance(schema, dict) and schema.get("type") == "object" else None
    if props and v["details"]["k"] == "struct":
        got = sorted(_norm(pp["name"]) for pp in v["details"]["props"])
        if got != sorted(_norm(k) for k in props):
            return {"what": what, "expected_type": name, "expected_properties": sorted(props),
                    "observed_properties": got, "id": i}
        for pp in v["details"]["props"]:
            ps = [sc for k, sc in props.items() if _norm(k) == _norm(pp["name"])]
            ref = ps[0].get("$ref") if ps and isinstance(ps[0], dict) else None
            key = "#" if ref == "#" else (ref.replace("#/definitions/", "#/") if ref else None)
            if key in latest:
                tv = _named_target(views, pp["type_id"])
                if tv is not None and _norm(tv["name"]) != _norm(latest[key][0]):
                    return {"what": "%s: property `%s` with $ref %s" % (what, pp["name"], ref),
                            "expected_type": latest[key][0], "observed_type": tv["name"]}
    return None


def reference_table(steps, recs):
    """user-visible view of a history on which model and implementation part: after every call, what each
    reference key and the returned id resolve to (type name, properties), next to what the model's semantics
    (the latest call that defined the key owns it) says"""
    rows, latest = [], {}
    for t, (st, rec) in enumerate(zip(steps, recs)):
        if rec["res"]["r"] != "ok" or "panic" in rec["views"]:
            rows.append({"call": t, "result": rec["res"]["r"]})
            continue
        if st["op"] in ("refs", "root"):
            defs = st["defs"] if st["op"] == "refs" else st["doc"].get("definitions", {})
            for k in sorted(defs):
                latest["#/" + k] = (k, t)
            if st["op"] == "root" and "title" in st["doc"]:
                latest["#"] = (st["doc"]["title"], t)

        def desc(i):
            v = rec["views"].get(str(i))
            if v is None:
                return None
            d = v["details"]
            return {"id": i, "type": v["name"],
                    "properties": [pp["name"] for pp in d["props"]] if d["k"] == "struct" else d["k"]}
        row = {"call": t, "op": st["op"], "returned": desc(rec["res"].get("id")) if rec["res"].get("id") else None,
               "references": {}}
        for k, (nm, tc) in sorted(latest.items()):
            i = rec["dump"]["ref_to_id"].get(k)
            row["references"][k] = {"model": "%s as defined by call %d" % (nm, tc),
                                    "implementation": desc(i) if i is not None else "not registered"}
        rows.append(row)
    return rows


def direct_oracles(steps, recs):
    """-> list of violation dicts (kind, step, ...)."""
    out = []
    latest = {}                # ref key -> (type name, schema) of the LATEST call that defined it
    returned = set()
    first_result = {}          # canonical step json -> (step index, returned id)
    prev = None
    for t, (st, rec) in enumerate(zip(steps, recs)):
        ok = rec["res"]["r"] == "ok"
        views = rec["views"]
        rend = rec["render"]
        # clause 1: stability of everything that existed before this call
        if prev is not None and "panic" not in views and "panic" not in prev["views"]:
            reach = reachable(prev["views"], returned)
            for i, v0 in prev["views"].items():
                v1 = views.get(i)
                e0, e1 = prev["dump"]["entries"].get(i), rec["dump"]["entries"].get(i)
                if v1 != v0 or e0 != e1:
                    out.append({"kind": "entry-changed-by-later-call", "step": t, "id": int(i),
                                "returned_or_reachable": int(i) in reach, "before": v0, "after": v1})
        # clause 1 on the OUTPUT: every rendered item / impl that existed before the call is still there, token
        # for token (a call may only ADD items)
        if prev is not None and rend["r"] == "ok" and prev["render"]["r"] == "ok":
            new = {}
            for sg in rend.get("sigs", []):
                new[tuple(map(str, sg))] = new.get(tuple(map(str, sg)), 0) + 1
            gone = []
            for sg in prev["render"].get("sigs", []):
                k = tuple(map(str, sg))
                if new.get(k, 0) > 0:
                    new[k] -= 1
                else:
                    gone.append(sg[:3])
            if gone:
                after = [sg[:3] for sg in rend.get("sigs", []) if any(sg[2] == g[2] for g in gone)]
                out.append({"kind": "rendered-definition-of-existing-type-changed", "step": t, "op": st["op"],
                            "items_before_that_changed_or_vanished": gone[:8],
                            "items_after_for_those_types": after[:16]})
        if "panic" in views:
            out.append({"kind": "introspection-panics", "step": t, "msg": views["panic"]})
        # a returned id must resolve
        if ok and rec["res"].get("id") is not None:
            rid = rec["res"]["id"]
            if "panic" not in views and str(rid) not in views:
                out.append({"kind": "returned-id-does-not-resolve", "step": t, "id": rid})
            returned.add(rid)
            v = views.get(str(rid)) if "panic" not in views else None
            if v and v["details"]["k"] in ("struct", "enum", "newtype") and prev is not None \
                    and "panic" not in prev["views"]:
                same = [int(i) for i, pv in prev["views"].items()
                        if pv["name"] == v["name"] and pv["details"]["k"] in ("struct", "enum", "newtype")]
                if same and rid not in same:
                    out.append({"kind": "call-returns-new-id-for-existing-type-name", "step": t, "op": st["op"],
                                "name": v["name"], "existing_ids": same, "id": rid})
        # closedness seen through the public API
        if "panic" not in views:
            for i, v in views.items():
                for c in reachable({i: v}, [int(i)]) - {int(i)}:
                    if str(c) not in views:
                        out.append({"kind": "child-id-does-not-resolve", "step": t, "id": int(i), "child": c})
        # references: a later definition of a key re-points it (ref_to_id.insert, lib.rs:630); the id returned
        # by add_root_schema is the type of THAT document's root; `$ref` properties bind to the current target
        if ok and "panic" not in views:
            base0 = prev["dump"]["next_id"] if prev is not None else 1
            if st["op"] in ("refs", "root"):
                defs = st["defs"] if st["op"] == "refs" else st["doc"].get("definitions", {})
                mine = {}
                for k in sorted(defs):
                    mine["#/" + k] = (k, defs[k])
                if st["op"] == "root" and "title" in st["doc"]:
                    mine["#"] = (st["doc"]["title"], st["doc"])
                latest.update(mine)
                for k, (nm, sc) in mine.items():
                    i = rec["dump"]["ref_to_id"].get(k)
                    bad = None
                    if i is None:
                        bad = {"what": "reference " + k, "expected_type": nm, "observed": "key not registered"}
                    elif i < base0:
                        ov = views.get(str(i), {})
                        bad = {"what": "reference " + k, "expected_type": "%s as defined by this call" % nm,
                               "observed": "still the id %d of an EARLIER call" % i, "observed_type": ov.get("name")}
                    else:
                        bad = check_resolves(views, i, nm, sc, latest, "reference " + k)
                    if bad:
                        out.append(dict(bad, kind="reference-resolves-to-other-type", step=t, op=st["op"]))
                if st["op"] == "root" and "title" in st["doc"]:
                    rid = rec["res"].get("id")
                    bad = {"what": "id returned by add_root_schema", "expected_type": st["doc"]["title"],
                           "observed": "no id returned"} if rid is None else \
                        check_resolves(views, rid, st["doc"]["title"], st["doc"], latest, "id returned by add_root_schema")
                    if bad:
                        out.append(dict(bad, kind="root-id-names-other-type", step=t, op="root"))
            elif isinstance(st["schema"], dict) and set(st["schema"]) == {"$ref"}:
                ref = st["schema"]["$ref"]
                key2 = "#" if ref == "#" else ref.replace("#/definitions/", "#/")
                if key2 in latest:
                    bad = check_resolves(views, rec["res"].get("id"), latest[key2][0], latest[key2][1], latest,
                                         "add_type($ref %s)" % ref)
                    if bad:
                        out.append(dict(bad, kind="reference-resolves-to-other-type", step=t, op="add"))
        # clause 2: re-adding
        key = json.dumps(st, sort_keys=True)
        if ok and key in first_result:
            t0, id0 = first_result[key]
            if rec["res"].get("id") != id0:
                out.append({"kind": "readd-returns-different-id", "step": t, "first_step": t0,
                            "first_id": id0, "id": rec["res"].get("id"), "op": st["op"]})
            if prev is not None and rend["r"] == "ok" and prev["render"]["r"] == "ok":
                a, b = type_items(prev["render"]), type_items(rend)
                if a != b:
                    new = list(b)
                    for x in a:
                        if x in new:
                            new.remove(x)
                    out.append({"kind": "readd-adds-definitions", "step": t, "first_step": t0, "op": st["op"],
                                "new_items": new[:6]})
        elif ok:
            first_result[key] = (t, rec["res"].get("id"))
        # clause 3: one definition per name
        if rend["r"] == "ok":
            seen = {}
            for m, k, n in rend["items"]:
                if k in ("struct", "enum", "mod", "fn"):
                    seen.setdefault((m, "fn" if k == "fn" else "type", n), 0)
                    seen[(m, "fn" if k == "fn" else "type", n)] += 1
            for (m, ns, n), c in sorted(seen.items()):
                if c > 1:
                    out.append({"kind": "duplicate-definition", "step": t, "mod": m, "name": n, "count": c})
        elif ok:
            out.append({"kind": "render-fails", "step": t, "r": rend["r"], "msg": rend.get("msg")})
        prev = rec
    return out


def classify(steps, recs, v):
    """finding id for a direct-oracle violation, or None (unlisted)."""
    t = v["step"]
    failed_before = any(r["res"]["r"] != "ok" and s["op"] in ("refs", "root")
                        for s, r in zip(steps[:t + 1], recs[:t + 1]))
    if failed_before and v["kind"] in ("entry-changed-by-later-call", "returned-id-does-not-resolve",
                                       "child-id-does-not-resolve", "introspection-panics", "render-fails",
                                       "reference-resolves-to-other-type", "root-id-names-other-type",
                                       "rendered-definition-of-existing-type-changed"):
        return "C16-4"
    if v["kind"] in ("readd-returns-different-id", "readd-adds-definitions") and v["op"] in ("refs", "root"):
        return "C16-1"
    if v["kind"] == "call-returns-new-id-for-existing-type-name" and v["op"] == "root":
        return dup_class(steps, recs, t, v["name"])
    if v["kind"] == "readd-returns-different-id" and v["op"] == "add":
        # add; batch defining the same type name; add again
        if dup_class(steps, recs, t, None) is not None:
            return "C16-1"
    if v["kind"] == "duplicate-definition" and v["mod"] in ("", "builder"):
        return dup_class(steps, recs, t, v["name"])
    return None


def call_of_id(recs, i):
    for t, r in enumerate(recs):
        if i < r["dump"]["next_id"]:
            return t
    return None


def dup_class(steps, recs, t, name):
    """Which mechanism produced two entries with one type name (None = not a listed one)."""
    d = recs[t]["dump"]
    byname = {}
    for i, e in d["entries"].items():
        if is_named(e):
            byname.setdefault(e["name"], []).append(int(i))
    reserved = set()
    for tt in range(t + 1):
        for p in recs[tt]["pre"]:
            reserved |= set(range(p["base_id"], p["base_id"] + p["def_len"]))
        if recs[tt]["res"]["r"] != "ok" and steps[tt]["op"] in ("refs", "root"):
            b0 = recs[tt - 1]["dump"]["next_id"] if tt else 1
            reserved |= {v for v in recs[tt]["dump"]["ref_to_id"].values() if v >= b0}
    cls = None
    for n, ids in byname.items():
        if len(ids) < 2 or (name is not None and n != name):
            continue
        calls = {i: call_of_id(recs, i) for i in ids}
        first = min(calls.values())
        if len(set(calls.values())) > 1:
            # every entry of a LATER call must be a definition slot filled by convert_ref_type
            k = "C16-1" if all(i in reserved for i in ids if calls[i] > first) else None
        elif recs[first]["res"]["r"] != "ok" and steps[first]["op"] in ("refs", "root"):
            k = "C16-4"       # entries left behind by a batch that returned Err (no roll-back)
        elif all(i in reserved for i in ids):
            k = "C16-2"       # two definitions of one ACCEPTED batch with one type name (fixed by c22ef06)
        elif any(i in reserved for i in ids):
            k = "C16-3"       # a titled sub-schema of the same call took the name first
        else:
            k = None
        if k is None:
            return None
        cls = k if cls in (None, k) else "C16-1"
    return cls


# --------------------------------------------------------------------------
# split / permutation independence
# --------------------------------------------------------------------------
def gen_split_case(rnd):
    k = rnd.randint(2, 3)
    pools = [[], [], []]
    for i, n in enumerate(POOL):
        pools[i % k].append(n)
    parts = []
    for j in range(k):
        g = Gen(rnd, pools[j], tag="S%d" % j)
        kind = rnd.random()
        if kind < 0.6:
            parts.append([{"op": "refs", "defs": g.batch(rnd.randint(1, 3), cross=False)}])
        elif kind < 0.8:
            s = g.obj(2, [])
            parts.append([{"op": "add", "schema": s, "name": g.fresh()}])
        else:
            parts.append([{"op": "refs", "defs": g.batch(rnd.randint(1, 2), cross=False)},
                          {"op": "add", "schema": g.obj(1, []), "name": g.fresh()}])
    return parts


def split_variants(rnd, parts):
    """histories that must yield the same set of definitions"""
    base = [s for p in parts for s in p]
    vs = [base]
    perm = list(parts)
    rnd.shuffle(perm)
    vs.append([s for p in perm for s in p])
    vs.append([s for p in reversed(parts) for s in p])
    # merge all refs batches into one call (different NUMBER of calls)
    merged = {}
    rest = []
    for s in base:
        if s["op"] == "refs":
            merged.update(s["defs"])
        else:
            rest.append(s)
    if merged:
        vs.append([{"op": "refs", "defs": merged}] + rest)
        vs.append(rest + [{"op": "refs", "defs": merged}])
        # split every batch into single-definition calls -- only sound when a batch has no internal references;
        # done for reference-free batches only
        if all("$ref" not in json.dumps(s) for s in base if s["op"] == "refs"):
            singles = [{"op": "refs", "defs": {k: v}} for k, v in merged.items()]
            rnd.shuffle(singles)
            vs.append(singles + rest)
    return vs


def definitions_of(rec):
    sc = rec["render"].get("scan")
    if sc is None:
        return None
    items = sorted(json.dumps(i, sort_keys=True) for i in sc["items"])
    impls = sorted(json.dumps(i, sort_keys=True) for i in sc["impls"])
    return items, impls


# --------------------------------------------------------------------------
def load_corpus():
    d = os.path.join(vlib.ROOT, "corpus", "C16")
    out = []
    if os.path.isdir(d):
        for fn in sorted(os.listdir(d)):
            if fn.endswith(".json"):
                c = json.load(open(os.path.join(d, fn)))
                c["file"] = fn
                out.append(c)
    return out


def run_c16(cases):
    """the harness binary; C16_BIN substitutes another build of it (used to replay seeded
    regressions built from a scratch copy of /repo, notes/C16.md)"""
    alt = os.environ.get("C16_BIN")
    if not alt:
        return vlib.run_bin("c16", cases)
    inp = "".join(json.dumps(c) + "\n" for c in cases)
    rc, out, err = vlib.sh([alt], input=inp, timeout=1800)
    if rc != 0:
        raise RuntimeError("%s failed: %s" % (alt, err[-2000:]))
    return [json.loads(l) for l in out.splitlines() if l.strip()]


def run_histories(hists, scan="names", chunk=100):
    res = []
    for i in range(0, len(hists), chunk):
        res += run_c16([{"settings": h.get("settings", {}), "steps": h["steps"], "scan": scan}
                                    for h in hists[i:i + chunk]])
    return res


def run(ctx):
    ctx.level = "proof"
    ctx.trusted = [
        "Coq 8.16.1 kernel + vm_compute (no native_compute); no axioms (Print Assumptions: closed under the global context)",
        "hand-written model Algo/Space.v of assign/assign_type/add_ref_types_impl/convert_ref_type/add_type_with_name "
        "(lib.rs:616-788, 919-1007), tied by replaying every observed call",
        "the converter is NOT modelled: calls carry arbitrary conversion scripts; break_cycles is abstracted to the list "
        "of slots it re-points to boxes (its choice of slots is C07's model Cycles.v)",
        "hook TypeSpace::verif_dump and verif::take_pre_cycles (read-only) for the dumps; public API for the oracles",
        "python derivation of the allocation-level trace from consecutive dumps (py/props/c16.py:derive_call)",
    ]
    ctx.assumptions = [
        "reading: 'history' = finite sequence of calls on one TypeSpace; clause 1 is checked for every id that exists, not "
        "only returned ones; 'schema already added' = the same call with the same arguments; reuse of a type by NAME for "
        "a different schema (assign_type, lib.rs:942-948) is not forbidden by the text and is not reported",
        "reading: 'independent additions' share no definition names, no titles/hints and no references",
        "C16_ids_stable assumes break_cycles re-points only slots of entries created by the current call; the check "
        "validates this on every observed call (it fails only after a failed batch, finding C16-4)",
    ]
    ctx.checker_cmd = ("make -f Makefile.coq theories/Props/C16.vo && coqc Audit_C16.v (Print Assumptions); "
                       "work/target/debug/c16 < histories | coqc cases_*.v (replay in Space.v)")

    vlib.build_harness(bins=("c16",))
    coq_ok = vlib.standard_coq_obligations(ctx, "Props.C16", THEOREMS, ())

    rnd = random.Random(ctx.seed * 7919 + 16)
    quick = ctx.tier == "quick"
    n_hist = 300 if quick else 2000
    maxlen = 8 if quick else 20
    corpus = load_corpus()
    hists = [{"steps": c["steps"], "settings": c.get("settings", {}), "corpus": c["file"],
              "expect": c.get("expect", []), "must_reject": c.get("must_reject", [])} for c in corpus]
    cover = coverage_histories() + root_histories() + key_histories() + untagged_histories()
    for c in cover:
        hists.append({"steps": c["steps"], "seed_path": "coverage:" + c["coverage"], "coverage": c["coverage"],
                      "key": c.get("key")})
    for k in range(n_hist):
        hists.append({"steps": gen_history(rnd, maxlen), "seed_path": "%d/%d" % (ctx.seed, k)})
    ctx.log("histories: %d corpus + %d systematic (named kinds x origins x re-add forms; titled roots; non-Pascal definition keys; untagged enums before their variants) + %d generated (max %d calls)" % (
        len(corpus), len(cover), n_hist, maxlen))

    okm, outm = vlib.coq_make(["theories/Algo/Space.vo"])
    ctx.oblige("model Space.v compiles", okm, outm[-2000:])
    hdr = ("From Typify Require Import Algo.Space.\nFrom Coq Require Import NArith List.\nImport ListNotations.\n"
           "Open Scope N_scope.")

    unlisted, found_ids = [], {}
    n_calls = n_failed_hist = n_readd = n_box = n_old_touched = n_replayed = 0
    op_dist, len_dist, viol_kinds = {}, {}, {}
    trace_err, hyp_bad, mism, k4, model_errors = [], [], [], [], []
    flavours, readded, cover_failed, key_bad = {}, {}, [], []
    findings = {f["id"]: f for f in ctx.findings_for()}
    # histories are processed in chunks: the per-call dumps are large and are dropped after each chunk
    CH = 60
    for c0 in range(0, len(hists), CH):
        chunk = hists[c0:c0 + CH]
        results = run_histories(chunk)
        exprs, meta, rtabs = [], [], {}
        for h, r in zip(chunk, results):
            if r.get("r") != "done":
                unlisted.append({"kind": "harness", "history": h, "result": r})
                continue
            recs = r["steps"]
            steps = h["steps"]
            # ---- (a) inputs of the correspondence (taken before any emulated mutation of the records)
            try:
                e, projs, rets = derive_history(steps, recs)
                n_box += e.count("%nat")
                exprs.append(e)
                meta.append((h, projs, rets))
                rtabs[id(h)] = reference_table(steps, recs)
            except TraceError as ex:
                trace_err.append({"error": str(ex), "source": h.get("corpus", h.get("seed_path")), "history": steps,
                                  "what_the_history_resolves_to": reference_table(steps, recs)})
            # hypothesis of C16_ids_stable: break_cycles re-points only slots of entries of the current call
            for t, rc in enumerate(recs):
                for pre in rc["pre"]:
                    for i_s, e0 in pre["space"]["entries"].items():
                        if int(i_s) < pre["base_id"] and kids_of(e0) != kids_of(rc["dump"]["entries"].get(i_s, e0)):
                            n_old_touched += 1
                            if "corpus" not in h or "C16-4" not in h.get("expect", []):
                                hyp_bad.append({"history": steps, "call": t, "id": int(i_s)})
                # K4: the model's def_names is what to_stream() defines
                if rc["render"]["r"] == "ok":
                    a = sorted(n for m, k, n in rc["render"]["items"] if m == "" and k in ("struct", "enum"))
                    if MUT == "impl-duplicate-item" and "corpus" not in h and t + 1 == len(recs) and a:
                        a = sorted(a + a[:1])
                    b = sorted(en["name"] for en in rc["dump"]["entries"].values() if is_named(en))
                    if a != b:
                        k4.append({"history": steps, "call": t, "items": a, "named_entries": b})
            # ---- emulated breaking changes: falsify the recorded implementation answers (notes/C16.md)
            if MUT == "impl-entry-mutated" and "corpus" not in h and len(recs) >= 2 and recs[0]["views"] and \
                    "panic" not in recs[0]["views"]:
                i0 = sorted(recs[0]["views"])[0]
                if i0 in recs[-1]["views"]:
                    recs[-1]["views"][i0] = dict(recs[-1]["views"][i0], name="Mutated")
            if MUT == "impl-readd-new-id" and "corpus" not in h:
                seen = {}
                for st, rc in zip(steps, recs):
                    k = json.dumps(st, sort_keys=True)
                    if k in seen and rc["res"].get("id") is not None:
                        rc["res"]["id"] += 1000
                    seen[k] = 1
            if MUT == "impl-duplicate-item" and "corpus" not in h and recs[-1]["render"]["r"] == "ok":
                its = [x for x in recs[-1]["render"]["items"] if x[1] == "struct" and x[0] == ""]
                if its:
                    recs[-1]["render"]["items"].append(its[0])
            # which named entry flavours occur, and are RE-ADDED through a later call (coverage, measured)
            for t, rc in enumerate(recs):
                for i_s, en in rc["dump"]["entries"].items():
                    if is_named(en):
                        fl = en["kind"] + ":" + ((en.get("tag") or {}).get("k") or (en.get("constraints") or {}).get("k") or "")
                        flavours[fl] = flavours.get(fl, 0) + (1 if t == 0 or i_s not in recs[t - 1]["dump"]["entries"] else 0)
                        rid = rc["res"].get("id")
                        if t > 0 and rid is not None and str(rid) == i_s and i_s in recs[t - 1]["dump"]["entries"]:
                            readded[fl] = readded.get(fl, 0) + 1
            if h.get("key") and recs and recs[0]["res"]["r"] == "ok":
                got = sorted(e["name"] for e in recs[0]["dump"]["entries"].values()
                             if is_named(e) and e["name"] not in ("TopDoc",))
                if KEY_TYPES[h["key"]] not in got:
                    key_bad.append({"key": h["key"], "expected_type_name": KEY_TYPES[h["key"]], "named_entries": got})
            if "coverage" in h and any(rc["res"]["r"] != "ok" for rc in recs):
                cover_failed.append({"coverage": h["coverage"], "results": [rc["res"] for rc in recs]})
            # ---- (b) direct oracles, clauses 1-3
            n_calls += len(steps)
            len_dist[len(steps)] = len_dist.get(len(steps), 0) + 1
            for st in steps:
                op_dist[st["op"]] = op_dist.get(st["op"], 0) + 1
            if "corpus" not in h and any(rc["res"]["r"] != "ok" for rc in recs):
                n_failed_hist += 1
            keys = [json.dumps(st, sort_keys=True) for st in steps]
            n_readd += len(keys) - len(set(keys))
            got = set()
            for v in direct_oracles(steps, recs):
                viol_kinds[v["kind"]] = viol_kinds.get(v["kind"], 0) + 1
                fid = classify(steps, recs, v)
                if fid is not None and fid in findings and "corpus" in h:
                    got.add(fid)
                    found_ids.setdefault(fid, (h, v))
                else:
                    unlisted.append(dict(v, history=steps, source=h.get("corpus", h.get("seed_path")),
                                         would_be_class=fid))
            if "corpus" in h:
                for t in h.get("must_reject", []):
                    if MUT == "impl-accepts-same-batch":
                        recs[t]["res"] = {"r": "ok", "id": None}
                    if recs[t]["res"]["r"] != "err":
                        ctx.oblige("corpus %s: call %d is rejected at add time (regression case of a fix)" % (
                            h["corpus"], t), False, json.dumps(recs[t]["res"]))
                        unlisted.append({"kind": "fixed-defect-regressed", "step": t, "history": steps,
                                         "source": h["corpus"], "result": recs[t]["res"]})
                exp = set(h.get("expect", []))
                if got != exp:
                    ctx.oblige("corpus %s reproduces exactly its listed findings" % h["corpus"], False,
                               "expected %s, observed %s" % (sorted(exp), sorted(got)))
            ctx.nontrivial.add(json.dumps(steps, sort_keys=True))
            if len(ctx.samples) < 6 and (c0 == 0 or len(ctx.samples) < 1 + c0 * 6 // max(1, len(hists))):
                ctx.samples.append({"steps": steps, "results": [rc["res"] for rc in recs]})
        del results
        # ---- (a) replay of the chunk in Space.v
        if okm and exprs:
            try:
                model = vlib.coq_eval_strings("c16-%s-%d" % (ctx.tier, ctx.seed), hdr, exprs, shard=max(4, len(exprs) // vlib.NCPU + 1))
                for (h, projs, rets), ms in zip(meta, model):
                    if MUT == "impl-name-not-registered" and "corpus" not in h and projs and projs[-1]["names"]:
                        projs[-1]["names"].pop(sorted(projs[-1]["names"])[0])
                    if MUT == "impl-skips-id" and "corpus" not in h and projs:
                        projs[-1]["next"] += 1
                    d = compare_model(ms, projs, rets)
                    n_replayed += 1
                    if d:
                        mism.append({"difference": d, "source": h.get("corpus", h.get("seed_path")),
                                     "history": h["steps"], "what_the_history_resolves_to": rtabs.get(id(h))})
            except Exception as e:  # noqa
                model_errors.append(str(e)[-2000:])
    ctx.evaluations += n_calls
    for fid, (h, v) in sorted(found_ids.items()):
        f = findings[fid]
        ctx.known_finding(fid, "%s: %s (witness corpus/C16/%s, observed: %s at call %d)" % (
            fid, f["summary"], h["corpus"], v["kind"], v["step"]))
    for fid, f in findings.items():
        if fid not in found_ids:
            ctx.oblige("listed finding %s still reproduces on its witness" % fid, False,
                       "stale finding: the witness no longer violates the property")
    ctx.oblige("direct evaluation of clauses 1-3 on %d calls of %d histories: no unlisted violation" % (
        n_calls, len(hists)), not unlisted, "%d unlisted (%d in the systematic stream, %d in generated histories, %d in "
               "the corpus); first: %s" % (
                   len(unlisted), len([u for u in unlisted if str(u.get("source", "")).startswith("coverage:")]),
                   len([u for u in unlisted if "/" in str(u.get("source", "")) and not str(u.get("source")).startswith("coverage:")]),
                   len([u for u in unlisted if str(u.get("source", "")).endswith(".json")]),
                   json.dumps(unlisted[:2], default=str)[:3000]))
    ctx.oblige("generated histories stay in the accepting region (failed calls in < 10%% of histories)",
               n_failed_hist * 10 <= max(1, n_hist), "%d of %d generated histories contain a failed call" % (n_failed_hist, n_hist))
    want = ["struct:", "enum:external", "enum:internal", "enum:adjacent", "enum:untagged",
            "newtype:string", "newtype:enum", "newtype:deny", "newtype:none"]
    ctx.oblige("coverage stream: every call of the %d systematic histories is accepted" % len(cover),
               not cover_failed, json.dumps(cover_failed[:2])[:1500])
    ctx.oblige("key stream: every non-Pascal definition key gets the type name of the table KEY_TYPES", not key_bad,
               json.dumps(key_bad[:2]))
    ctx.oblige("coverage: every named entry flavour (struct, 4 enum taggings, 4 newtype flavours) is created AND "
               "returned again by a later call", all(flavours.get(w) and readded.get(w) for w in want),
               "created %s / re-returned %s" % (json.dumps(flavours, sort_keys=True), json.dumps(readded, sort_keys=True)))
    ctx.oblige("hypothesis of C16_ids_stable holds on every observed call (break_cycles touches no older entry)",
               not hyp_bad, json.dumps(hyp_bad[:1])[:2000])
    ctx.oblige("allocation-level trace derivable for every observed call (%d histories)" % len(hists),
               not trace_err, json.dumps(trace_err[:1])[:3000])
    ctx.oblige("model Space.v evaluates on every derived trace", not model_errors, "\n".join(model_errors[:2]))
    ctx.oblige("correspondence K3: Space.v replay = verif_dump after each of %d calls (%d histories): next_id, "
               "id_to_entry (name,key,children), type_to_id image, name_to_id, ref_to_id, returned id" % (
                   n_calls, n_replayed), okm and not mism and n_replayed + len(trace_err) >= len(hists) - len(
                       [u for u in unlisted if u.get("kind") == "harness"]) and not model_errors,
               json.dumps(mism[:1])[:3000])
    ctx.oblige("correspondence K4: struct/enum items of to_stream() = names of named entries (def_names), every call",
               not k4, json.dumps(k4[:1])[:2000])

    # ------------------------------------------------------------------ clause 4: split / permutation
    n_split = 60 if quick else 400
    split_viol = []
    n_variants = 0
    for c0 in range(0, n_split, 40):
        split_cases = [gen_split_case(rnd) for _ in range(min(40, n_split - c0))]
        flat, index = [], []
        for ci, parts in enumerate(split_cases):
            for vi, hv in enumerate(split_variants(rnd, parts)):
                flat.append({"steps": hv})
                index.append((ci, vi))
        sres = run_histories(flat, scan="full", chunk=40)
        n_variants += len(flat)
        ref_defs = {}
        for (ci, vi), hcase, r in zip(index, flat, sres):
            if r.get("r") != "done" or any(rc["res"]["r"] != "ok" for rc in r["steps"]):
                split_viol.append({"kind": "split-variant-fails", "history": hcase["steps"],
                                   "results": [rc["res"] for rc in r.get("steps", [])]})
                continue
            d = definitions_of(r["steps"][-1])
            if MUT == "impl-split-differs" and vi == 1 and d and d[0]:
                d = (d[0][1:], d[1])
            if vi == 0:
                ref_defs[ci] = (d, hcase["steps"])
            elif ci in ref_defs and d != ref_defs[ci][0]:
                a, b = ref_defs[ci][0], d
                diff = [x for x in (a[0] + a[1]) if x not in (b[0] + b[1])][:2] + \
                       [x for x in (b[0] + b[1]) if x not in (a[0] + a[1])][:2]
                split_viol.append({"kind": "split-changes-definitions", "history_a": ref_defs[ci][1],
                                   "history_b": hcase["steps"], "difference": diff})
        del sres
    ctx.evaluations += n_variants
    ctx.oblige("direct evaluation of clause 4: %d orders/splits of %d independent addition sets render the same "
               "definitions" % (n_variants, n_split), not split_viol, json.dumps(split_viol[:1])[:3000])
    unlisted += split_viol

    ctx.coverage.update({
        "histories": len(hists), "corpus_histories": len(corpus), "calls": n_calls,
        "history_length_distribution": {str(k): v for k, v in sorted(len_dist.items())},
        "op_distribution": op_dist, "exact_repeats_of_an_earlier_call": n_readd,
        "generated_histories_with_failed_call": n_failed_hist,
        "violation_kinds_seen_incl_corpus": viol_kinds,
        "coverage_histories": len(cover), "named_entry_flavours_created": flavours,
        "named_entry_flavours_returned_again_by_a_later_call": readded,
        "break_cycles_snips_replayed": n_box, "older_entries_touched_by_break_cycles": n_old_touched,
        "split_sets": n_split, "split_variant_histories": n_variants,
        "model_replays": n_replayed, "model_mismatches": len(mism),
        "rule": "systematic stream: 15 named-kind shapes x 6 origins (definition, hint, title, titled property of a "
                "definition / of an add, titled root) x 7 re-add forms (same hint, same title, titled property, titled "
                "array item, titled property in a later batch / root, same hint other shape), alone and in sequence; "
                "generated histories: 1..%d calls from {add_ref_types 25%%, add_root_schema 20%%, re-add of a named "
                "thing through another call form 10%%, new named kind by hint/title/titled property 8%%, exact repeat "
                "of an earlier add 7%%, add_type_with_name 30%% (hint = existing definition 30%% / earlier hint 20%% / "
                "fresh)}; 30%% of definitions are drawn from the named-kind catalogue; "
                "definition names always fresh (clean region); distinct = distinct step list JSON" % maxlen,
    })

    if unlisted:
        unlisted.sort(key=lambda v: len(json.dumps(v, default=str)))
        v = unlisted[0]
        v["broken_obligations"] = [o[0] for o in ctx.broken()]
        ctx.violation(v)
    elif mism or trace_err:
        # no clause oracle fired, but the implementation left the model's transition relation on concrete
        # histories: the shortest one IS the replay (with what it resolves to, call by call)
        div = sorted(mism + trace_err, key=lambda m: (len(m["history"]), len(json.dumps(m["history"]))))[0]
        ctx.violation({"kind": "implementation-deviates-from-allocation-model",
                       "history": div["history"], "source": div.get("source"),
                       "difference": div.get("difference", div.get("error")),
                       "what_the_history_resolves_to": div.get("what_the_history_resolves_to"),
                       "histories_diverging": len(mism) + len(trace_err),
                       "broken_obligations": [o[0] for o in ctx.broken()],
                       "note": "Space.v (proved model of next_id / id_to_entry / type_to_id / name_to_id / ref_to_id) "
                               "replayed on this history disagrees with verif_dump; the theorems of Props/C16.v no "
                               "longer describe the implementation on it"})
    elif ctx.broken():
        # search found nothing: still report
        ctx.violation({"broken_obligations": [(o[0], o[2][:1500]) for o in ctx.broken()],
                       "note": "a theorem or the model/implementation correspondence no longer checks; the direct "
                               "evaluation of the four clauses found no failing history"}, no_input=True)

    if ctx.tier == "thorough" and coq_ok:
        rc, out, err = vlib.sh("timeout 1500 coqchk -silent -o -Q theories Typify Typify.Props.C16", cwd=vlib.COQ,
                               timeout=1600)
        ctx.oblige("coqchk re-checks Props.C16 and dependencies", rc == 0, (out + err)[-1500:])
        ctx.coverage["coqchk_output_tail"] = (out + err)[-1200:]
