"""C01 - every accepted schema yields Rust that compiles.

Direct evaluation (this is where detection power comes from): five streams of
(settings, ingestion history) cases are pushed through the real typify
(`vh gen`, every case isolated against aborts), every module whose ingestion
succeeded must render (`to_stream` returns, syn parses a File) and compile
(rustc 1.80.1 is the oracle: the compiled world of py/world.py, serde /
serde_json / chrono / uuid / regress as dependencies); cases of the supported
fragment must be ingested.  Every failure is attributed to a listed finding
class (by construct AND rustc error code) or reported as a VIOLATION with a
shrunk document.

K6: `RustStatic.wf_module` (Coq, vm_compute) is evaluated on the dumped IR of
every generated module and must agree with rustc's verdict, both ways; the
failing conjuncts it names must be the finding classes of the python
attribution.
"""
import collections
import copy
import glob
import json
import os
import random
import re
import subprocess
import unicodedata
from concurrent.futures import ThreadPoolExecutor

import hostile
import schemagen
import tocoq
import vlib
import world

PROP = "C01"
CORPUS = os.path.join(vlib.ROOT, "corpus", "C01")
EXPECT = os.path.join(CORPUS, "hostile_expect.json")
MUTATE = os.environ.get("C01_MUTATE", "")

THEOREMS = [
    "C01_wf_module_sound",
    "C01_wf_report_nil",
    "C01_wf_from_parts",
    "C01_wf_module_partial",
    "C01_items_unique_sound",
    "C01_items_unique_from_C16",
    "C01_modnames_free_sound",
    "C01_defaultfns_unique_sound",
    "C01_members_unique_sound",
    "C01_variants_unique",
    "C01_fields_unique",
    "C01_idents_valid_sound",
    "C01_idents_valid",
    "C01_untagged_simple_sound",
    "C01_from_variants_coherent_sound",
    "C01_from_keys_once",
    "C01_from_tuple1_fixed",
    "C01_from_tuple1_prefix_sound",
    "C01_from_tuple1_regression",
    "C01_deref_acyclic_sound",
    "C01_tryfrom_string_sound",
    "C01_bespoke_once",
    "C01_defaults_rendered",
    "C01_defaults_ok_sound",
    "C01_default_tuple1_fixed",
    "C01_default_tuple1_prefix_sound",
    "C01_default_tuple1_regression",
    "C01_acyclic",
    "C01_acyclic_sound",
    "C01_serde_rules_sound",
    "C01_serde_default_sound",
    "C01_skip_path_sound",
    "C01_skip_path_map_coherent",
    "C01_derive_bounds",
    "C01_derive_bounds_sound",
    "C01_prelude_clean_sound",
    "C01_known_classes_fail",
    "C01_ex_wf",
    "C01_ex_parts_satisfiable",
    "C01_ex_classes_ok",
    "C01_ex_reports",
]

FIXSET = {
    "replace": {"HandGeneratedType": {"type": "String", "impls": ["Display"]}},
    "patch": {"TypeThatNeedsMoreDerives": {"rename": "TypeThatHasMoreDerives", "derives": ["Eq", "PartialEq"]}},
    "convert": [{"schema": {"enum": [1, "one"]}, "type": "serde_json::Value", "impls": ["Display"]}],
    "crates": [{"name": "std", "version": "1.0.0"}],
    "struct_builder": True,
}

# cascade codes rustc reports after a duplicate item definition
DUP_CASCADE = {"E0428", "E0119", "E0072", "E0592", "E0034", "E0283", "E0282", "E0308", "E0063", "E0560", "E0609",
               "E0599", "E0026", "E0027", "E0004", "E0023", "E0277", "E0061", "E0618", "E0532", "E0533", "E0369",
               "E0573", "E0574", "E0412", "E0423", "E0433"}

FINDING_TEXT = {
    "C01-1": "a definition named `Default` captures the unqualified `Default::default()` of the struct templates (E0599 / E0308)",
    "C01-2": "a definition named `Vec` captures the unqualified `Vec<T>` a unique-items array is rendered as (E0107)",
    "C01-3": "a newtype named `Ok` / `Err` captures the unqualified `Ok(..)` / `Err(..)` of the conversion templates (E0308)",
    "C01-4": "two property defaults get the same function name in `mod defaults` (sanitize(Type_prop) collides) (E0428)",
    "C01-5": "fixed arrays longer than 32 / tuples longer than 12 are accepted but serde / Debug do not cover them (E0277)",
    "C01-7": "a definition that is a reference cycle of aliases becomes `struct A(Box<A>)`: `From<A> for Box<A>` (E0119), Deref recursion (E0055)",
    "C01-8": "an untagged enum with an array variant and a unique-items array variant of the same items gets `From<Vec<T>>` twice (E0119)",
    "C01-9": "a newtype over a replacement / conversion type `String` declared with FromStr gets `TryFrom<String>` next to `From<String>` (E0119)",
    "C01-11": "a patch `rename` is used unchecked: a taken name, a module name, a keyword or a non-identifier (E0428 / unparsable / to_stream panic)",
    "C01-12": "a type name registered by two different calls of the history (C16-1): two items of that name (E0428)",
    "C01-13": "field identifiers that differ as scalar sequences but are NFC-equal (E0124) [= C08-F4]",
    "C01-14": "containment cycle through a native type parameter (x-rust-type Option<Self>) is not cut (E0072) [= C07-2]",
    "C01-18": "a supported document is rejected (InvalidValue): two oneOf branches define one property with different inline schemas, both named <Def><Prop>; the second silently reuses the first type and its valid default fails validation",
}


# ---------------------------------------------------------------------------
# running typify, isolated
# ---------------------------------------------------------------------------

def gen_one(case, timeout=120):
    inp = json.dumps({"settings": case["settings"], "steps": case["steps"], "code": True}) + "\n"
    try:
        p = subprocess.run([vlib.VH, "gen"], input=inp, capture_output=True, text=True, timeout=timeout, env=vlib.ENV)
    except subprocess.TimeoutExpired:
        return {"r": "timeout"}
    if p.returncode != 0:
        return {"r": "abort", "rc": p.returncode, "err": p.stderr[-300:]}
    lines = [l for l in p.stdout.splitlines() if l.strip()]
    if not lines:
        return {"r": "abort", "rc": 0, "err": "no output"}
    return json.loads(lines[-1])


def gen_all(cases, isolate):
    """vh gen on every case.  A batch run is tried first unless `isolate`; an
    abort of the batch (stack overflow in typify) falls back to one process per case."""
    if not cases:
        return []
    if not isolate:
        try:
            return vlib.run_vh("gen", [{"settings": c["settings"], "steps": c["steps"], "code": True} for c in cases],
                               timeout=1800)
        except Exception:  # noqa
            pass
    with ThreadPoolExecutor(max(2, vlib.NCPU // 2)) as ex:
        return list(ex.map(gen_one, cases))


def ingest_outcome(g):
    """-> (kind, detail) with kind in settings-rejected | rejected | abort | empty | render-panic | unparsable | generated"""
    r = g.get("r")
    if r in ("abort", "timeout"):
        return "abort", g.get("err", r)
    if r == "settings-panic":
        return "settings-rejected", g.get("msg", "")
    if r != "done":
        return "abort", json.dumps(g)[:200]
    if not g.get("all_ok"):
        bad = [s for s in g["steps"] if s.get("r") != "ok"]
        return "rejected", "%s %s %s" % (bad[0].get("r"), bad[0].get("kind", ""), (bad[0].get("msg") or "")[:160])
    rr = g.get("render", {}).get("r")
    if rr == "render-panic":
        return "render-panic", g["render"].get("msg", "")[:200]
    if rr == "unparsable":
        return "unparsable", g["render"].get("msg", "")[:200]
    if not g.get("steps"):
        return "empty", ""
    return "generated", ""


# ---------------------------------------------------------------------------
# streams
# ---------------------------------------------------------------------------

def fixture_docs():
    out = []
    for f in sorted(glob.glob(os.path.join(vlib.REPO, "typify", "tests", "schemas", "*.json"))):
        out.append((os.path.basename(f)[:-5], json.load(open(f))))
    out.append(("example", json.load(open(os.path.join(vlib.REPO, "example.json")))))
    return out


def mk(cid, stream, settings, steps, supported=False, tags=(), note=""):
    return {"id": cid, "stream": stream, "settings": settings, "steps": steps, "supported": supported,
            "tags": list(tags), "note": note}


def stream_hostile():
    return [mk("hostile:" + c["id"], "hostile", c["settings"], c["steps"], False, [c["group"]], c["note"])
            for c in hostile.cases()]


def fixture_settings(k):
    s = copy.deepcopy(FIXSET)
    if k == 1:
        s["struct_builder"] = False
        s["map_type"] = "::std::collections::BTreeMap"
    elif k == 2:
        s["type_mod"] = "types"
        s["derives"] = ["PartialEq"]
    return s


def stream_fixtures(tier):
    out = []
    for name, doc in fixture_docs():
        for k in ((0, 1, 2) if tier == "thorough" else (0, 1)):
            st = fixture_settings(k)
            if "derives" in st and name in ("x-rust-type", "types-with-more-impls", "type-with-modified-generation"):
                # PartialEq on everything needs PartialEq of the external / replacement types: the caller's business
                st.pop("derives")
            out.append(mk("fixture:%s:%d" % (name, k), "fixture", st, [{"op": "root", "doc": doc}], True, ["fixture"]))
    return out


# --- constrained-key maps in every position ------------------------------------
# every map shape of typify/tests/schemas/maps.json (propertyNames with pattern / format / $ref / enum; patternProperties)
# x value kinds x positions, under the three map-type settings x builder on/off.  Deterministic (fixed world).
MAP_KEYS = [
    ("pn-pattern", {"propertyNames": {"pattern": "^[a-z]+$"}}),
    ("pn-format", {"propertyNames": {"format": "date"}}),
    ("pn-format-unknown", {"propertyNames": {"type": "string", "format": "^a*$"}}),
    ("pn-ref", {"propertyNames": {"$ref": "#/definitions/Key"}}),
    ("pn-ref-enum", {"propertyNames": {"$ref": "#/definitions/KeyEnum"}}),
    ("pn-enum", {"propertyNames": {"type": "string", "enum": ["a", "b"]}}),
    ("pn-maxlen", {"propertyNames": {"type": "string", "maxLength": 3}}),
    ("pp-one", {"patternProperties": {"^x-": None}, "additionalProperties": False}),
    ("plain", {}),
]
MAP_VALUES = [
    ("any-absent", "absent"), ("any-true", True), ("any-empty", {}), ("typed", {"type": "integer"}),
    ("ref", {"$ref": "#/definitions/Val"}), ("ref-struct", {"$ref": "#/definitions/Leaf"}),
]
MAP_POSITIONS = ["prop-required", "prop-optional", "array-item", "map-value", "variant-external", "variant-untagged", "definition",
                 "prop-optional-default", "nullable"]
MAP_SETTINGS = [(mt, b) for mt in (None, "::std::collections::HashMap", "::std::collections::BTreeMap") for b in (False, True)]
MAP_DEFS = {"Key": {"type": "string", "pattern": "^k[0-9]+$"}, "KeyEnum": {"type": "string", "enum": ["x", "y"]},
            "Val": {"type": "string"}, "Leaf": LEAF_DEF if False else {"type": "object", "properties": {"k": {"type": "string"}}, "required": ["k"]}}


def map_schema(keys, val):
    s = {"type": "object"}
    for k, v in keys.items():
        s[k] = copy.deepcopy(v)
    if "patternProperties" in s:
        pv = {} if val in ("absent", True) else copy.deepcopy(val)
        s["patternProperties"] = {"^x-": pv}
    elif val != "absent":
        s["additionalProperties"] = copy.deepcopy(val)
    return s


def map_place(pos, m):
    if pos == "prop-required":
        return {"type": "object", "properties": {"m": m, "n": {"type": "integer"}}, "required": ["m"]}
    if pos == "prop-optional":
        return {"type": "object", "properties": {"m": m, "n": {"type": "integer"}}}
    if pos == "prop-optional-default":
        return {"type": "object", "properties": {"m": dict(m, default={}), "n": {"type": "integer"}}}
    if pos == "array-item":
        return {"type": "object", "properties": {"l": {"type": "array", "items": m}}}
    if pos == "map-value":
        return {"type": "object", "properties": {"o": {"type": "object", "additionalProperties": m}}}
    if pos == "variant-external":
        return {"oneOf": [{"type": "object", "properties": {"a": m}, "required": ["a"], "additionalProperties": False},
                          {"type": "object", "properties": {"b": {"type": "integer"}}, "required": ["b"], "additionalProperties": False}]}
    if pos == "variant-untagged":
        return {"oneOf": [m, {"type": "integer"}]}
    if pos == "nullable":
        return {"type": "object", "properties": {"m": {"oneOf": [m, {"type": "null"}]}}}
    return m


def map_combos():
    out = []
    for kn, keys in MAP_KEYS:
        for vn, val in MAP_VALUES:
            if kn == "plain" and vn.startswith("any"):
                pass
            for pos in MAP_POSITIONS:
                out.append(("%s/%s/%s" % (kn, vn, pos), map_place(pos, map_schema(keys, val))))
    return out


def map_settings(mt, b):
    st = {}
    if mt:
        st["map_type"] = mt
    if b:
        st["struct_builder"] = True
    return st


def stream_maps_single():
    """every combination alone (ingestion only); the accepted ones are packed per setting for rustc"""
    out = []
    for si, (mt, b) in enumerate(MAP_SETTINGS):
        for tag, sch in map_combos():
            out.append(mk("map:%d:%s" % (si, tag), "maps", map_settings(mt, b),
                          [{"op": "root", "doc": {"definitions": dict(MAP_DEFS, T=sch)}}], False, ["maps"]))
    return out


# --- boundary default values in every position ---------------------------------
# deterministic product (fixed world): boundary values per kind x positions that reach default_fn / output_value.
I64MIN, I64MAX, U64MAX = -2**63, 2**63 - 1, 2**64 - 1
BD_KINDS = [
    ("i64", {"type": "integer"}, [I64MIN, -1, 0, 1, I64MAX, 2**53 + 1, -(2**53) - 1, 2**53 - 1]),
    ("int64", {"type": "integer", "format": "int64"}, [I64MIN, I64MAX, 2**53 + 1]),
    ("uint64", {"type": "integer", "format": "uint64"}, [0, I64MAX, I64MAX + 1, U64MAX, 2**53 + 1]),
    ("nzu64", {"type": "integer", "format": "uint64", "minimum": 1}, [1, I64MAX + 1, U64MAX]),
    ("int32", {"type": "integer", "format": "int32"}, [-2**31, 2**31 - 1]),
    ("uint32", {"type": "integer", "format": "uint32"}, [0, 2**32 - 1]),
    ("int8", {"type": "integer", "format": "int8"}, [-128, 127]),
    ("uint8", {"type": "integer", "format": "uint8"}, [0, 255]),
    ("f64", {"type": "number"}, [1e308, -1e308, 5e-324, -0.0, 0.0, 1e3, 1.5, 0.1, 1, I64MAX + 1]),
    ("f32", {"type": "number", "format": "float"}, [1e3, 3.0e38, 1.5, -0.0]),
    ("str", {"type": "string"}, ["", "\u00e9\u65e5\u672c\U0001F600", "a\"b\\c{d}\n\t'e'", "}}{{{0}", "r#\"x\"#", "x" * 10000]),
    ("bool", {"type": "boolean"}, [True, False]),
]
BD_POSITIONS = ["bare", "vec", "tuple", "option", "map", "struct", "variant-external", "variant-untagged", "newtype-def", "array2"]


def bd_place(pos, sch, v, k):
    """definitions (named with suffix k) that put default value v of schema sch at position pos"""
    T, N = "T%d" % k, "N%d" % k
    O = lambda props: {"type": "object", "properties": props}
    if pos == "bare":
        return {T: O({"p": dict(sch, default=v)})}
    if pos == "vec":
        return {T: O({"p": {"type": "array", "items": sch, "default": [v, v]}})}
    if pos == "tuple":
        return {T: O({"p": {"type": "array", "items": [sch, sch], "minItems": 2, "maxItems": 2, "default": [v, v]}})}
    if pos == "array2":
        return {T: O({"p": {"type": "array", "items": sch, "minItems": 2, "maxItems": 2, "default": [v, v]}})}
    if pos == "option":
        t = sch["type"]
        return {T: O({"p": dict(sch, type=[t, "null"], default=v)})}
    if pos == "map":
        return {T: O({"p": {"type": "object", "additionalProperties": sch, "default": {"k": v}}})}
    if pos == "struct":
        return {T: O({"p": {"type": "object", "properties": {"a": sch, "b": {"type": "boolean"}}, "required": ["a"], "default": {"a": v}}})}
    if pos == "variant-external":
        return {T: O({"p": {"oneOf": [{"type": "object", "properties": {"a": sch}, "required": ["a"], "additionalProperties": False},
                                      {"type": "object", "properties": {"b": {"type": "boolean"}}, "required": ["b"], "additionalProperties": False}],
                            "default": {"a": v}}})}
    if pos == "variant-untagged":
        other = {"type": "array", "items": {"type": "boolean"}}
        return {T: O({"p": {"oneOf": [sch, other], "default": v}})}
    if pos == "newtype-def":
        return {N: dict(sch, default=v), T: O({"p": {"$ref": "#/definitions/" + N}})}
    raise KeyError(pos)


def bd_combos():
    out = []
    for kn, sch, vals in BD_KINDS:
        for vi, v in enumerate(vals):
            for pos in BD_POSITIONS:
                out.append(("%s/%d/%s" % (kn, vi, pos), pos, sch, v))
    return out


def stream_boundary_single():
    return [mk("bd:%s" % tag, "boundary", {}, [{"op": "root", "doc": {"definitions": bd_place(pos, sch, v, 0)}}], False,
               ["boundary", "bd:" + pos]) for tag, pos, sch, v in bd_combos()]


def boundary_defaults_into(rnd, doc):
    """grammar documents: some property defaults are replaced by a boundary value of their kind"""
    n = [0]

    def walk(s):
        if isinstance(s, dict):
            if "default" in s and isinstance(s.get("type"), str) and "enum" not in s and rnd.random() < 0.6:
                t, f = s["type"], s.get("format")
                lo, hi = s.get("minimum"), s.get("maximum")
                cand = None
                has_excl = s.get("exclusiveMinimum") is not None or s.get("exclusiveMaximum") is not None
                if t == "integer" and lo is None and hi is None and not has_excl and not s.get("multipleOf"):
                    rng = schemagen.INT_FORMATS.get(f, (I64MIN, I64MAX))
                    cand = [rng[0], rng[1]] + ([2**53 + 1] if rng[1] > 2**53 else [])
                elif t == "integer":
                    # effective bounds: the exclusive forms may be the binding ones (a default equal to a slack
                    # inclusive bound would be INVALID and rightly rejected) and multipleOf must divide the value
                    if s.get("exclusiveMinimum") is not None:
                        lo = s["exclusiveMinimum"] + 1 if lo is None else max(lo, s["exclusiveMinimum"] + 1)
                    if s.get("exclusiveMaximum") is not None:
                        hi = s["exclusiveMaximum"] - 1 if hi is None else min(hi, s["exclusiveMaximum"] - 1)
                    m = s.get("multipleOf")
                    cand = [x for x in (lo, hi) if x is not None and x != 0 and float(x).is_integer()
                            and (not m or x % m == 0)] or None
                    if cand:
                        cand = [int(x) for x in cand]
                elif t == "string" and len([k for k in s if k not in ("type", "default")]) == 0:
                    cand = ["", "\u00e9\u65e5\u672c", "a\"b\\c{d}\n", "x" * 3000]
                elif t == "boolean":
                    cand = [True, False]
                if cand:
                    s["default"] = rnd.choice(cand)
                    n[0] += 1
            for v in s.values():
                walk(v)
        elif isinstance(s, list):
            for v in s:
                walk(v)
    walk(doc)
    return n[0]


# --- name collisions in every position pattern ----------------------------------
# deterministic product (fixed world).  Every case must be rejected at add or compile.
COLL_PAIRS = [
    ("star", "read", "read*"), ("case", "read", "Read"), ("sep", "foo-bar", "foo_bar"), ("camel", "fooBar", "foo_bar"),
    ("space", "a b", "a_b"), ("digit", "1a", "x1a"), ("quote", "it's", "its"), ("xsub-ok", "a", "a_"), ("dot", "v1.0", "v1_0"),
    ("upper", "ABC", "abc"), ("trail", "read-", "read"), ("plus", "+1", "plus1"),
]
COLL_TRIPLES = [("xsub-third", "a", "a_", "A"), ("three-same", "r", "R", "r*"), ("xsub-all", "b", "b_", "b__")]
FILLERS = ["write", "exec", "list"]


def coll_lists():
    """(tag, list of names) with the colliding names at every relative position"""
    out = []
    for tag, x, y in COLL_PAIRS:
        for gap in range(0, 4):
            for lead in (0, 1):
                for tail in (0, 1):
                    for order in ((x, y), (y, x)):
                        names = FILLERS[:lead] + [order[0]] + [f + str(gap) for f in FILLERS[:gap]] + [order[1]] + (["zz"] if tail else [])
                        if len(set(names)) == len(names):
                            out.append(("%s/gap%d/lead%d/tail%d/%s" % (tag, gap, lead, tail, "xy" if order[0] == x else "yx"), names))
    for tag, x, y, z in COLL_TRIPLES:
        import itertools
        for perm in itertools.permutations((x, y, z)):
            for gap in (0, 1, 2):
                names = [perm[0]] + FILLERS[:gap] + [perm[1]] + FILLERS[gap:2 * gap] + [perm[2]]
                if len(set(names)) == len(names):
                    out.append(("%s/gap%d/%s" % (tag, gap, "".join(str((x, y, z).index(q)) for q in perm)), names))
    return out


def coll_schemas():
    out = []
    for tag, names in coll_lists():
        out.append(("enum:" + tag, {"type": "string", "enum": names}))
        out.append(("ext:" + tag, {"oneOf": [{"type": "object", "properties": {n: {"type": "integer"}}, "required": [n],
                                             "additionalProperties": False} for n in names]}))
        out.append(("int:" + tag, {"oneOf": [{"type": "object", "properties": {"tag": {"type": "string", "enum": [n]}, "v": {"type": "integer"}},
                                             "required": ["tag"]} for n in names]}))
        out.append(("props:" + tag, {"type": "object", "properties": {n: {"type": "integer"} for n in names}}))
    # the synthesised flattened `extra` against properties sorting before / after it
    for tag, props in (("only", ["extra"]), ("before", ["alpha", "extra"]), ("after", ["extra", "zone"]), ("both", ["alpha", "extra", "zone"]),
                       ("after2", ["extra", "f", "zone"]), ("upper", ["Extra", "zone"]), ("dash", ["extra-", "zone"]), ("far", ["extra", "m", "n", "o", "p"])):
        for vt, val in (("typed", {"type": "integer"}), ("any", {}), ("str", {"type": "string"})):
            out.append(("extra:%s/%s" % (tag, vt), {"type": "object", "properties": {n: {"type": "string"} for n in props},
                                                     "additionalProperties": val}))
            out.append(("extra-variant:%s/%s" % (tag, vt),
                        {"oneOf": [{"type": "object", "properties": dict({n: {"type": "string"} for n in props}, t={"type": "string", "enum": ["a"]}),
                                    "required": ["t"], "additionalProperties": val},
                                   {"type": "object", "properties": {"t": {"type": "string", "enum": ["b"]}}, "required": ["t"]}]}))
    return out


def stream_collisions_single():
    return [mk("coll:%s" % tag, "collisions", {}, [{"op": "root", "doc": {"definitions": {"T": sch}}}], False, ["collisions", "coll:" + tag.split(":")[0]])
            for tag, sch in coll_schemas()]


# --- small-scope enumeration -------------------------------------------------
S_, I_, B_, N_, NUL_ = ({"type": t} for t in ("string", "integer", "boolean", "number", "null"))
SS_LEAVES = [("str", S_), ("int", I_), ("bool", B_), ("num", N_), ("null", NUL_), ("any", {}),
             ("enum", {"type": "string", "enum": ["a", "b"]}), ("ref", {"$ref": "#/definitions/Leaf"})]
SS_UNARY = [
    ("objo", lambda s: {"type": "object", "properties": {"p": s}}),
    ("objr", lambda s: {"type": "object", "properties": {"p": s}, "required": ["p"], "additionalProperties": False}),
    ("arr", lambda s: {"type": "array", "items": s}),
    ("nul", lambda s: {"oneOf": [s, {"type": "null"}]}),
    ("map", lambda s: {"type": "object", "additionalProperties": s}),
    ("set", lambda s: {"type": "array", "items": s, "uniqueItems": True}),
    ("dfl", lambda s: {"type": "object", "properties": {"p": s, "q": {"type": "integer", "default": 3}}}),
]
SS_BINARY = [
    ("one", lambda s, t: {"oneOf": [s, t]}),
    ("any", lambda s, t: {"anyOf": [s, t]}),
    ("all", lambda s, t: {"allOf": [s, t]}),
    ("obj2", lambda s, t: {"type": "object", "properties": {"p": s, "q": t}, "required": ["q"]}),
    ("tup2", lambda s, t: {"type": "array", "items": [s, t], "minItems": 2, "maxItems": 2}),
]


def ss_enum(size, memo={}):
    """all (tag, schema) of exactly `size` nodes"""
    if size in memo:
        return memo[size]
    if size == 1:
        r = list(SS_LEAVES)
    else:
        r = []
        for nm, f in SS_UNARY:
            for t, s in ss_enum(size - 1):
                r.append((nm + "(" + t + ")", f(copy.deepcopy(s))))
        for a in range(1, size - 1):
            b = size - 1 - a
            for nm, f in SS_BINARY:
                for t1, s1 in ss_enum(a):
                    for t2, s2 in ss_enum(b):
                        r.append((nm + "(" + t1 + "," + t2 + ")", f(copy.deepcopy(s1), copy.deepcopy(s2))))
    memo[size] = r
    return r


def ss_supported(tag):
    """the part of the small-scope grammar typify documents as supported (README: built-in types, arrays,
    sets, tuples, objects, maps, oneOf; allOf / anyOf are documented as best effort and may reject)"""
    # `oneOf [null, null]` admits no instance (null matches both branches) and is rejected since aaa3535
    return "all(" not in tag and "any(" not in tag and "nul(null)" not in tag and "one(null,null)" not in tag


LEAF_DEF = {"type": "object", "properties": {"k": {"type": "string"}}, "required": ["k"]}


def ss_doc(schemas):
    defs = {"Leaf": LEAF_DEF}
    for k, s in enumerate(schemas):
        defs["T%d" % k] = s
    return {"definitions": defs}


# --- grammar x settings -------------------------------------------------------
GRAMMAR_FEATURES = set(schemagen.ALL_FEATURES)


def settings_combo(rnd, defs):
    s = {}
    tags = []
    if rnd.random() < 0.5:
        s["struct_builder"] = True
        tags.append("builder")
    x = rnd.random()
    if x < 0.3:
        s["map_type"] = "::std::collections::BTreeMap"
        tags.append("btreemap")
    elif x < 0.4:
        s["map_type"] = "::std::collections::HashMap"
        tags.append("hashmap-explicit")
    if rnd.random() < 0.25:
        s["type_mod"] = rnd.choice(["types", "my::types"])
        tags.append("type_mod")
    names = sorted(defs)
    if rnd.random() < 0.3 and names:
        n = rnd.choice(names)
        s.setdefault("patch", {})[n] = {"rename": "Renamed" + n}
        tags.append("patch-rename")
    flat = [n for n in names if is_flat(defs[n])]
    if rnd.random() < 0.4 and flat:
        # a per-type derive is the caller's promise that every field type has the trait: only flat types
        n = rnd.choice(flat)
        s.setdefault("patch", {}).setdefault(n, {})["derives"] = ["PartialEq"]
        tags.append("patch-derive")
    if rnd.random() < 0.25:
        s["derives"] = ["PartialEq"]
        tags.append("derive-PartialEq")
    if rnd.random() < 0.2 and len(names) > 1:
        n = rnd.choice(names)
        s["replace"] = {n: {"type": "::std::string::String", "impls": ["Display"]}}
        tags.append("replace")
    if rnd.random() < 0.25:
        s["convert"] = [{"schema": {"type": "number"}, "type": "f32", "impls": ["Display", "FromStr", "Default"]}]
        tags.append("convert")
    return s, tags


def is_flat(s):
    """object of scalar properties / string enum / scalar: `PartialEq` is derivable whatever the other types do"""
    if not isinstance(s, dict) or any(k in s for k in ("oneOf", "anyOf", "allOf", "$ref", "not")):
        return False
    if s.get("type") == "object":
        ap = s.get("additionalProperties")
        if isinstance(ap, dict):
            return False
        ps = s.get("properties") or {}
        return bool(ps) and all(isinstance(p, dict) and isinstance(p.get("type"), str) and p["type"] in
                                ("string", "integer", "boolean", "number") and "enum" not in p and
                                not any(k in p for k in ("maxLength", "minLength", "pattern")) for p in ps.values())
    return isinstance(s.get("type"), str) and s["type"] in ("string", "integer", "boolean") and "enum" not in s


def uses_float(doc):
    return '"number"' in json.dumps(doc)


def variant_prop_alias(doc):
    """finding C01-18 region: two branches of one oneOf / anyOf define the same property with DIFFERENT schemas that
    both need a named type; typify names both `<Def><Prop>` and silently reuses the first (lib.rs assign_type by name)"""
    def scan(s):
        if isinstance(s, dict):
            for key in ("oneOf", "anyOf"):
                subs = s.get(key)
                if isinstance(subs, list):
                    seen = {}
                    for b in subs:
                        for pn, ps in ((b.get("properties") or {}).items() if isinstance(b, dict) else ()):
                            if is_inline_named(ps):
                                if pn in seen and seen[pn] != json.dumps(ps, sort_keys=True):
                                    return True
                                seen.setdefault(pn, json.dumps(ps, sort_keys=True))
            return any(scan(v) for v in s.values())
        if isinstance(s, list):
            return any(scan(v) for v in s)
        return False
    return scan(doc)


SKIPPED_ALIAS = [0]
GEN_ERRORS = [0]


def clean_doc(seed0, **kw):
    """next grammar document outside the region of finding C01-18 (represented by corpus/C01/w18)"""
    for t in range(20):
        g = schemagen.Gen(seed0 + 7919 * 100003 * t, **kw)
        try:
            doc, tg = g.doc()
        except KeyError:          # py/schemagen.py (shared) raises on some seeds (nullable_type over a type-less scalar)
            GEN_ERRORS[0] += 1
            continue
        if not variant_prop_alias(doc):
            return doc, tg
        SKIPPED_ALIAS[0] += 1
    return doc, tg


def stream_grammar(ctx, n):
    out = []
    for k in range(n):
        doc, tg = clean_doc(ctx.seed * 1000003 + 7000 + k, features=GRAMMAR_FEATURES)
        rnd = random.Random(ctx.seed * 7919 + k)
        if boundary_defaults_into(rnd, doc):
            tg = tg + ["boundary-defaults"]
        st, stg = settings_combo(rnd, doc["definitions"])
        if uses_float(doc) or "replace" in st:
            # PartialEq needs PartialEq of every field: fine for floats, but f32-conversion + Eq-less maps are fine too;
            # a replacement type is the caller's promise - keep the derive only when nothing external is involved
            pass
        out.append(mk("grammar:%d" % k, "grammar", st, [{"op": "root", "doc": doc}], True, tg + stg))
    return out


# --- ingestion histories ------------------------------------------------------
def refs_of(s, acc):
    if isinstance(s, dict):
        r = s.get("$ref")
        if isinstance(r, str) and r.startswith("#/definitions/"):
            acc.add(r[len("#/definitions/"):])
        for v in s.values():
            refs_of(v, acc)
    elif isinstance(s, list):
        for v in s:
            refs_of(v, acc)


def components(defs):
    parent = {n: n for n in defs}

    def find(x):
        while parent[x] != x:
            parent[x] = parent[parent[x]]
            x = parent[x]
        return x
    for n, s in defs.items():
        acc = set()
        refs_of(s, acc)
        for m in acc:
            if m in parent:
                parent[find(n)] = find(m)
    comp = collections.defaultdict(list)
    for n in defs:
        comp[find(n)].append(n)
    return [sorted(v) for v in comp.values()]


def stream_histories(ctx, n):
    out = []
    for k in range(n):
        doc, tg = clean_doc(ctx.seed * 1000003 + 9000 + k, features=GRAMMAR_FEATURES, ndefs=(3, 7))
        defs = doc["definitions"]
        rnd = random.Random(ctx.seed * 104729 + k)
        comps = components(defs)
        rnd.shuffle(comps)
        batches = []
        while comps:
            take = rnd.randrange(1, 3)
            b = sum(comps[:take], [])
            comps = comps[take:]
            batches.append(b)
        steps = []
        kinds = []
        for b in batches:
            acc = set()
            for nm in b:
                refs_of(defs[nm], acc)
            x = rnd.random()
            if len(b) == 1 and not acc and x < 0.4:
                steps.append({"op": "add", "schema": defs[b[0]], "name": b[0]})
                kinds.append("add")
            elif x < 0.7:
                steps.append({"op": "refs", "defs": {nm: defs[nm] for nm in b}})
                kinds.append("refs")
            else:
                steps.append({"op": "root", "doc": {"definitions": {nm: defs[nm] for nm in b}}})
                kinds.append("root")
        st = {"struct_builder": True} if rnd.random() < 0.4 else {}
        out.append(mk("history:%d" % k, "history", st, steps, True, tg + ["hist:" + "+".join(kinds)]))
    return out


# --- fixture mutations --------------------------------------------------------
# "" and "_" are left out: a property name without an alphanumeric character over an inline sub-schema is finding
# C01-17 (represented by corpus/C01/w17 and the hostile inline-empty-suffix-* cases)
ODD_PROP_NAMES = ["type", "self", "fn", "match", "async", "r#x", "a b", "1st", "+1", "x'y", "Box", "Some", "kebab-case",
                  "camelCase", "SHOUT", "$id", "a.b"]


def objects_in(s, path, acc):
    if isinstance(s, dict):
        if isinstance(s.get("properties"), dict) and s["properties"]:
            acc.append(path)
        for k, v in s.items():
            objects_in(v, path + [k], acc)
    elif isinstance(s, list):
        for k, v in enumerate(s):
            objects_in(v, path + [k], acc)


def at(doc, path):
    for p in path:
        doc = doc[p]
    return doc


def simple_default(s):
    t = s.get("type") if isinstance(s, dict) else None
    if isinstance(s, dict) and "enum" in s and s["enum"]:
        return s["enum"][0]
    return {"string": "dflt", "integer": 1, "boolean": True, "array": [], "number": 1.5}.get(t) if isinstance(t, str) else None


def mutate_fixture(rnd, name, doc):
    doc = copy.deepcopy(doc)
    kind = rnd.choice(["prop-odd", "prop-odd", "prop-collide", "default", "default-bad", "nullable-def", "title-fresh",
                       "def-rename", "root-title-collide", "root-title-collide", "inject-map", "inject-map"])
    objs = []
    objects_in(doc, [], objs)
    defs = doc.get("definitions") or doc.get("$defs") or {}
    if kind in ("prop-odd", "prop-collide") and objs:
        o = at(doc, rnd.choice(objs))
        props = o["properties"]
        old = rnd.choice(sorted(props))
        if kind == "prop-odd":
            new = rnd.choice(ODD_PROP_NAMES)
        else:
            other = rnd.choice(sorted(props))
            new = rnd.choice([other.upper(), other + "_", other.replace("_", "-"), "x" + other, other.capitalize()])
        if new in props:
            return None
        props[new] = props.pop(old)
        if isinstance(o.get("required"), list):
            o["required"] = [new if r == old else r for r in o["required"]]
        return kind, doc
    if kind in ("default", "default-bad") and objs:
        o = at(doc, rnd.choice(objs))
        props = o["properties"]
        cands = [p for p in sorted(props) if p not in (o.get("required") or []) and isinstance(props[p], dict)
                 and "default" not in props[p] and "$ref" not in props[p]]
        if not cands:
            return None
        p = rnd.choice(cands)
        d = simple_default(props[p])
        if kind == "default-bad":
            d = rnd.choice([{"zz": 1}, [[1]], "zz", -7, None])
        elif d is None:
            return None
        props[p] = dict(props[p], default=d)
        return kind, doc
    if kind == "nullable-def" and defs:
        n = rnd.choice(sorted(defs))
        if not isinstance(defs[n], dict):
            return None
        defs[n] = {"oneOf": [defs[n], {"type": "null"}]}
        return kind, doc
    if kind == "title-fresh" and objs:
        o = at(doc, rnd.choice(objs))
        p = rnd.choice(sorted(o["properties"]))
        if not isinstance(o["properties"][p], dict) or "$ref" in o["properties"][p]:
            return None
        o["properties"][p] = dict(o["properties"][p], title="FreshTitle%d" % rnd.randrange(100))
        return kind, doc
    if kind == "inject-map" and objs:
        # a map with constrained keys (every inline key shape of maps.json) as a required / optional property of a
        # random struct of the fixture
        o = at(doc, rnd.choice(objs))
        kn, keys = rnd.choice([k for k in MAP_KEYS if "$ref" not in json.dumps(k[1])])
        vn, val = rnd.choice([v for v in MAP_VALUES if "$ref" not in json.dumps(v[1])])
        pname = rnd.choice(["injected_map", "x-map", "labels"])
        if pname in o["properties"]:
            return None
        o["properties"][pname] = map_schema(keys, val)
        req = rnd.random() < 0.4
        if req:
            o["required"] = sorted(set(list(o.get("required") or []) + [pname]))
        return "inject-map:%s:%s:%s" % (kn, vn, "required" if req else "optional"), doc
    if kind == "root-title-collide" and defs:
        # the root gets a title that names one of its own definitions: exactly, or up to case / separators.
        # Fix c22ef06 must reject the document when both map to one type name (decided by the real sanitize).
        cands = [n for n in sorted(defs) if n not in ("HandGeneratedType", "TypeThatNeedsMoreDerives")]
        if not cands:
            return None
        n = rnd.choice(cands)
        words = re.findall(r"[A-Z]?[a-z0-9]+|[A-Z]+(?![a-z])", n) or [n]
        t = rnd.choice([n, n, "-".join(w.lower() for w in words), "_".join(w.lower() for w in words),
                        " ".join(words), n[:1].lower() + n[1:], n.upper()])
        doc["title"] = t
        if "type" not in doc and "$ref" not in doc and rnd.random() < 0.5:
            doc["type"] = "object"
            doc["properties"] = {"injected": {"type": "integer"}}
        pn = pascal_names([t, n])
        return (kind + (":same" if pn[t] == pn[n] else ":distinct")), doc
    if kind == "def-rename" and defs:
        n = rnd.choice(sorted(defs))
        new = rnd.choice(["type", "self", "fn", "a b", "1st", "kebab-case", "Box", "Some", "x'y"])
        if new in defs:
            return None
        text = json.dumps(doc).replace(json.dumps("#/definitions/" + n), json.dumps("#/definitions/" + new)) \
                              .replace(json.dumps("#/$defs/" + n), json.dumps("#/$defs/" + new))
        doc = json.loads(text)
        defs = doc.get("definitions") or doc.get("$defs")
        defs[new] = defs.pop(n)
        return kind, doc
    return None


def stream_mutations(ctx, n):
    fx = fixture_docs()
    out = []
    rnd = random.Random(ctx.seed * 15485863 + 5)
    tries = 0
    while len(out) < n and tries < 20 * n:
        tries += 1
        name, doc = rnd.choice(fx)
        m = mutate_fixture(rnd, name, doc)
        if m is None:
            continue
        kind, d2 = m
        st = fixture_settings(rnd.choice([0, 1]))
        m = mk("mutation:%d:%s:%s" % (len(out), name, kind), "mutation", st, [{"op": "root", "doc": d2}], False,
               ["mut:" + kind])
        # root-title-collide:same is rejected by c22ef06 unless the definition emits no item of its own (x-rust-type /
        # replaced definitions: accepted, and then it must compile).  Either way any failing outcome is a VIOLATION by
        # the general rule for random streams; the strict must-reject cases are corpus/C01/r01, r02, r06.
        out.append(m)
    return out


# ---------------------------------------------------------------------------
# classification of failures (python side; the Coq side is K6)
# ---------------------------------------------------------------------------

def root_items(g):
    return [it for it in g["render"]["scan"]["items"] if it["mod"] == "" and it["kind"] in ("struct", "enum", "mod", "fn")]


def dups(xs):
    c = collections.Counter(xs)
    return sorted(k for k, v in c.items() if v > 1)


def entries(g):
    return {int(k): v for k, v in g["dump"]["entries"].items()}


def is_ident(s):
    return bool(re.match(r"^[A-Za-z_][A-Za-z0-9_]*$", s)) and s != "_"


RUST_KW = set("abstract as async await become box break const continue crate do dyn else enum extern false final fn for "
              "if impl in let loop macro match mod move mut override priv pub ref return Self self static struct super "
              "trait true try type typeof unsafe unsized use virtual where while yield".split())


def newtype_deref_cycle(ents):
    """a cycle through newtype -> inner and Box -> target edges only"""
    edge = {}
    for i, e in ents.items():
        if e["kind"] == "newtype":
            edge[i] = e["type_id"]
        elif e["kind"] == "box":
            edge[i] = e["id"]
    for s in edge:
        seen = set()
        x = s
        while x in edge and x not in seen:
            seen.add(x)
            x = edge[x]
        if x == s:
            return True
    return False


def rendered_vecish(ents, i):
    e = ents.get(i)
    if e and e["kind"] in ("vec", "set"):
        return ("vec", e["id"])
    return None


_PASCAL = {}


def pascal_names(raws):
    """typify's sanitize(name, Pascal) for raw definition keys / titles (asked of the real implementation)"""
    need = [r for r in raws if r not in _PASCAL]
    if need:
        out = vlib.run_bin("c01", [{"op": "pascal", "names": need}])[0]["out"]
        _PASCAL.update(zip(need, out))
    return {r: _PASCAL[r] for r in raws}


def nested_titles(sch, depth, acc, nullenum_keys=None):
    if isinstance(sch, dict):
        if depth > 0 and isinstance(sch.get("title"), str):
            acc.append(sch["title"])
        for k, v in sch.items():
            if k in ("definitions", "$defs", "default", "enum", "const", "examples"):
                continue
            nested_titles(v, depth + 1, acc)
    elif isinstance(sch, list):
        for v in sch:
            nested_titles(v, depth + 1, acc)


def step_names(step):
    """(top-level raw names registered by this call, titles of nested sub-schemas, definition keys whose schema is
    an `enum` containing null next to other values)"""
    tops, nested, nullenum = [], [], []
    op = step.get("op", "root")
    if op == "add":
        sch = step.get("schema")
        nm = step.get("name") or (sch.get("title") if isinstance(sch, dict) else None)
        if nm:
            tops.append(nm)
        nested_titles(sch, 0, nested)
        return tops, nested, nullenum
    if op == "refs":
        defs = step.get("defs") or {}
        body = None
    else:
        doc = step.get("doc") or {}
        defs = dict(doc.get("definitions") or {})
        defs.update(doc.get("$defs") or {})
        body = doc
        if isinstance(doc.get("title"), str):
            tops.append(doc["title"])
    for k, v in defs.items():
        tops.append(k)
        nested_titles(v, 0, nested)
        if isinstance(v, dict) and isinstance(v.get("enum"), list) and None in v["enum"] and len(v["enum"]) > 1:
            nullenum.append(k)
    if body is not None:
        nested_titles({k: v for k, v in body.items() if k not in ("definitions", "$defs")}, 0, nested)
    return tops, nested, nullenum


def is_inline_named(sch):
    return isinstance(sch, dict) and "$ref" not in sch and (
        isinstance(sch.get("properties"), dict) and sch["properties"] or
        (isinstance(sch.get("enum"), list) and len(sch["enum"]) > 0 and sch.get("type") == "string") or
        any(k in sch for k in ("oneOf", "anyOf", "allOf", "not")))


def empty_suffix_inline(step, top):
    """the schema registered under the top-level name `top` has a property whose name adds nothing to the derived
    type name (sanitize(top + ' ' + prop) = sanitize(top)) and whose schema needs a named type of its own"""
    op = step.get("op", "root")
    if op == "refs":
        sch = (step.get("defs") or {}).get(top)
    elif op == "add":
        sch = step.get("schema")
    else:
        doc = step.get("doc") or {}
        sch = (doc.get("definitions") or {}).get(top) or (doc.get("$defs") or {}).get(top) or (doc if doc.get("title") == top else None)
    props = sch.get("properties") if isinstance(sch, dict) else None
    if not isinstance(props, dict):
        return False
    cand = [p for p, v in props.items() if is_inline_named(v)]
    if not cand:
        return False
    pc = pascal_names([top] + [top + " " + p for p in cand])
    return any(pc[top + " " + p] == pc[top] for p in cand)


def native_param_cycle(ents):
    """a by-value path from a type parameter of a native entry back to an entry that embeds that native"""
    def kids(e):
        k = e["kind"]
        if k == "struct":
            return [p["type_id"] for p in e["props"]]
        if k == "newtype":
            return [e["type_id"]]
        if k == "option" or k == "array":
            return [e["id"]]
        if k == "tuple":
            return list(e["ids"])
        if k == "native":
            return list(e["params"])
        if k == "enum":
            out = []
            for v in e["variants"]:
                dd = v["details"]
                out += [dd["id"]] if dd["k"] == "item" else list(dd.get("ids", [])) + [p["type_id"] for p in dd.get("props", [])]
            return out
        return []
    for i, e in ents.items():
        if e["kind"] == "native" and e["params"]:
            seen, todo = set(), list(e["params"])
            while todo:
                x = todo.pop()
                if x == i:
                    return True
                if x in seen or x not in ents:
                    continue
                seen.add(x)
                todo += kids(ents[x])
    return False


def classify(case, g, kind, codes, msgs):
    """finding id for a failing case, or None.  `kind`: render-panic | unparsable | compile-error"""
    st = case["settings"]
    renames = [p.get("rename") for p in (st.get("patch") or {}).values() if p.get("rename")]
    if kind in ("render-panic", "unparsable"):
        bad = [r for r in renames if (not is_ident(r)) or r in RUST_KW]
        if bad and any(r in case.get("_detail", "") for r in bad):
            return "C01-11"
        return None
    codes = set(codes)
    ents = entries(g)
    items = root_items(g)
    names = [it["name"] for it in items]
    d = dups(names)
    msg = " | ".join(msgs)
    mod_clash = [it["name"] for it in items if it["kind"] == "mod" and it["name"] in [x["name"] for x in items if x["kind"] != "mod"]]
    if d or mod_clash:
        # two items of one name: attributed ONLY to the specific constructs below; a duplicate that arises
        # any other way (e.g. a titled root next to a definition of its own call, two definition keys of one
        # call: rejected since c22ef06) is an unlisted VIOLATION
        if not codes <= DUP_CASCADE:
            return None
        if mod_clash:
            return "C01-11" if all(n in renames and n in ("error", "builder", "defaults") for n in mod_clash) and not \
                [n for n in d if n not in mod_clash] else None
        per_step = [step_names(stp) for stp in case["steps"]]
        flat = sorted({x for tops, nested, _ in per_step for x in tops + nested})
        pc = pascal_names(flat)
        ren = {k: v["rename"] for k, v in (st.get("patch") or {}).items() if v.get("rename")}
        ty = lambda raw: ren.get(pc[raw], pc[raw])
        verdicts = set()
        for n in d:
            tops = [[x for x in t if ty(x) == n] for t, _, _ in per_step]
            nest = [[x for x in ns if ty(x) == n] for _, ns, _ in per_step]
            nullenum = any(ty(k) == n for _, _, ne in per_step for k in ne)
            if max(len(t) for t in tops) > 1:
                return None                                   # two top-level names of ONE call: c22ef06 must reject it
            if len([t for t in tops if t]) >= 2:
                verdicts.add("C01-12")                        # the name registered by two CALLS (C16-1)
            else:
                # every same-call collision is rejected at add: definition keys / root title (c22ef06), derived and
                # titled inline names, `enum: [null, ..]` wrapper vs inner (40183ea; were C01-10, C01-12 b, C01-17)
                return None
        return "C01-12" if verdicts == {"C01-12"} else None
    fns = [it["name"] for it in g["render"]["scan"]["items"] if it["mod"] == "defaults" and it["kind"] == "fn"]
    if dups(fns) and codes <= {"E0428"}:
        return "C01-4"
    if "Default" in names and codes <= {"E0599", "E0308", "E0277"} and (
            "`default`" in msg or st.get("struct_builder") or
            any(e["kind"] == "struct" and any(p["state"]["k"] == "optional" for p in e["props"]) for e in ents.values())):
        return "C01-1"
    if "Vec" in names and codes <= {"E0107", "E0599"} and any(e["kind"] == "set" for e in ents.values()):
        return "C01-2"
    nts = [e["name"] for e in ents.values() if e["kind"] == "newtype"]
    if ("Ok" in nts or "Err" in nts) and codes <= {"E0308", "E0277", "E0618", "E0532", "E0023"}:
        return "C01-3"
    big = any((e["kind"] == "array" and e["len"] > 32) or (e["kind"] == "tuple" and len(e["ids"]) > 12) for e in ents.values())
    if big and codes <= {"E0277", "E0599"} and all(any(t in m for t in ("Deserialize", "Serialize", "Debug", "Default"))
                                                   or "; " in m for m in msgs):
        return "C01-5"
    t1 = any(v["details"]["k"] == "tuple" and len(v["details"]["ids"]) == 1
             for e in ents.values() if e["kind"] == "enum" for v in e["variants"])
    has_default = any(p["state"]["k"] == "default" for e in ents.values() if e["kind"] == "struct" for p in e["props"]) or \
        any(e.get("default") is not None for e in ents.values() if e["kind"] in ("enum", "struct", "newtype"))
    if newtype_deref_cycle(ents) and codes <= {"E0119", "E0055", "E0275"}:
        return "C01-7"
    if codes <= {"E0119"} and "From<" in msg and "Vec<" in msg:
        for e in ents.values():
            if e["kind"] == "enum":
                pay = [rendered_vecish(ents, v["details"]["id"]) for v in e["variants"] if v["details"]["k"] == "item"]
                pay = [p for p in pay if p]
                if dups(pay):
                    return "C01-8"
    if codes <= {"E0119"} and "TryFrom<" in msg and "String" in msg:
        for e in ents.values():
            if e["kind"] == "newtype" and e["constraints"]["k"] == "none":
                inner = ents.get(e["type_id"], {})
                if inner.get("kind") == "native" and inner["type_name"].replace(" ", "") in ("String", "::std::string::String", "std::string::String") \
                        and "FromStr" in inner["impls"]:
                    return "C01-9"
    if codes <= {"E0124", "E0062", "E0560", "E0026", "E0027"}:
        for e in ents.values():
            props = e.get("props") or []
            nf = [unicodedata.normalize("NFC", p["name"]) for p in props]
            if dups(nf) and not dups([p["name"] for p in props]):
                return "C01-13"
    if codes <= {"E0072"} and native_param_cycle(ents):
        return "C01-14"
    return None


def skip_path_mismatches(g):
    """independent of rustc: every `#[serde(skip_serializing_if = "P::f")]` must name a function of the field's
    own rendered type (through at most one Box): `P` is the head of the field type.  Two sites decide this in typify
    (structs.rs generate_serde_attr for the path, type_entry.rs type_ident for the type); they must agree."""
    bad = []

    def fields_of(it):
        if it["kind"] == "struct" and it["fields"]["k"] == "named":
            yield it["name"], it["fields"]["fields"]
        if it["kind"] == "enum":
            for v in it["variants"]:
                if v["fields"]["k"] == "named":
                    yield it["name"] + "::" + v["name"], v["fields"]["fields"]
    for it in g["render"]["scan"]["items"]:
        if it["mod"] != "":
            continue
        for owner, fs in fields_of(it):
            for f in fs:
                for a in f["serde"]:
                    if a[0] == "skip_serializing_if" and len(a) > 1:
                        path = a[1].replace(" ", "")
                        head = path.rsplit("::", 1)[0]
                        ty = f["ty"].replace(" ", "")
                        if ty.startswith("::std::boxed::Box<"):
                            ty = ty[len("::std::boxed::Box<"):]
                        if not (ty == head or ty.startswith(head + "<")):
                            bad.append({"item": owner, "field": f["name"], "type": f["ty"].replace(" ", ""), "skip_serializing_if": path})
    return bad


# ---------------------------------------------------------------------------
# shrinking
# ---------------------------------------------------------------------------

def shrink(case, still_fails, budget=40):
    """greedy: drop steps, definitions, properties while the failure persists"""
    best = copy.deepcopy(case)
    n = [0]

    def test(c):
        n[0] += 1
        if n[0] > budget:
            return False
        try:
            return still_fails(c)
        except Exception:  # noqa
            return False
    changed = True
    while changed and n[0] <= budget:
        changed = False
        for si in range(len(best["steps"]) - 1, -1, -1):
            if len(best["steps"]) > 1:
                c = copy.deepcopy(best)
                del c["steps"][si]
                if test(c):
                    best, changed = c, True
                    continue
            st = best["steps"][si]
            defs = st.get("defs") if st.get("op") == "refs" else (st.get("doc") or {}).get("definitions")
            if isinstance(defs, dict):
                for dn in sorted(defs):
                    c = copy.deepcopy(best)
                    cd = c["steps"][si].get("defs") if st.get("op") == "refs" else c["steps"][si]["doc"]["definitions"]
                    del cd[dn]
                    if test(c):
                        best, changed = c, True
                        break
                    pr = defs[dn].get("properties") if isinstance(defs[dn], dict) else None
                    if isinstance(pr, dict) and len(pr) > 1:
                        for pn in sorted(pr):
                            c = copy.deepcopy(best)
                            cd = c["steps"][si].get("defs") if st.get("op") == "refs" else c["steps"][si]["doc"]["definitions"]
                            del cd[dn]["properties"][pn]
                            if isinstance(cd[dn].get("required"), list):
                                cd[dn]["required"] = [r for r in cd[dn]["required"] if r != pn]
                            if test(c):
                                best, changed = c, True
                                break
                        if changed:
                            break
            if changed:
                break
        if best.get("settings"):
            for k in sorted(best["settings"]):
                c = copy.deepcopy(best)
                del c["settings"][k]
                if test(c):
                    best, changed = c, True
                    break
    return best


def compile_single(ctx, case, tag):
    """(ingest kind, status, codes) of one case compiled alone (used by the shrinker)"""
    g = gen_one(case)
    kind, _ = ingest_outcome(g)
    if kind != "generated":
        return kind, None, []
    w = world.World(ctx, "c01-shrink-" + tag, [{"settings": case["settings"], "steps": case["steps"]}], nsplit=1)
    w.gen = [g]
    w.status = ["ok"]
    w.build(max_rounds=12)
    return kind, w.status[0], sorted({e[0] or "?" for e in w.compile_errors.get(0, [])})


# ---------------------------------------------------------------------------
# Coq side (K6)
# ---------------------------------------------------------------------------

COQ_HDR = (tocoq.COQ_HEADER +
           "From Typify Require Import Algo.Heck Algo.Sanitize Algo.RustStatic.\n"
           "Open Scope string_scope.\n")


def class_table(strings):
    chars = sorted({ord(c) for s in strings for c in s} | set(range(48, 58)) | set(range(65, 91)) | set(range(97, 123)) | {95, 120, 88, 962})
    res = vlib.run_bin("c01", [{"op": "classes", "chars": chars}])[0]
    rows = res["rows"]
    return "[" + "; ".join("(%d%%N, (%d%%N, %s, %s))" % (
        r[0], r[1], tocoq.clist(r[2], tocoq.cN, "N"), tocoq.clist(r[3], tocoq.cN, "N")) for r in rows) + "]"


def dump_strings(dump):
    out = []

    def walk(v):
        if isinstance(v, str):
            out.append(v)
        elif isinstance(v, dict):
            for x in v.values():
                walk(x)
        elif isinstance(v, list):
            for x in v:
                walk(x)
    for e in dump["entries"].values():
        walk({k: v for k, v in e.items() if k in ("name", "props", "variants", "type_name")})
    return out


def coq_wf(ctx, gens, idx, tag):
    """wf_report of every generated module: {i: [failing conjunct tags]}"""
    exprs = []
    for i in idx:
        d = gens[i]["dump"]
        tbl = class_table(dump_strings(d))
        exprs.append("show_report (wf_report (table_classes %s) %s)" % (tbl, tocoq.cspace(d)))
    res = vlib.coq_eval_strings(tag, COQ_HDR, exprs, shard=max(1, min(40, (len(exprs) + vlib.NCPU - 1) // vlib.NCPU)))
    out = {}
    for i, r in zip(idx, res):
        r = r.strip()
        if r.endswith("%string"):
            r = r[:-len("%string")]
        r = r.strip('"')
        out[i] = [t for t in r.split(",") if t]
    return out


# conjunct tag of RustStatic.wf_report -> finding classes it explains
TAG_FINDINGS = {
    "items": {"C01-11", "C01-12"},
    "modnames": {"C01-11"},
    "defaultfns": {"C01-4"},
    "fields": set(),
    "variants": set(),
    "idents": {"C01-11"},
    "from_variants": {"C01-8"},
    "from_tuple1": set(),          # C01-6 fixed by d9b019c: the conjunct holds for every space now
    "default_tuple1": set(),       # C01-16 fixed by 15ce314: holds for every space now
    "deref_cycle": {"C01-7"},
    "tryfrom_string": {"C01-9"},
    "acyclic": {"C01-14"},
    "derive_bounds": {"C01-5"},
    "serde_rules": set(),
    "serde_default": set(),
    "prelude_default": {"C01-1"},
    "prelude_vec": {"C01-2"},
    "prelude_result": {"C01-3"},
    "untagged_simple": set(),      # C01-15 fixed by aaa3535: such enums are rejected at add
    "defaults": set(),
    "skip_path": set(),
}
MODEL_GAPS = {"C01-13"}     # NFC normalisation of identifiers is not modelled (Props speak of scalar sequences)


# ---------------------------------------------------------------------------
def run(ctx):
    quick = ctx.tier != "thorough"
    vlib.build_harness(bins=("vh", "c01"))
    if os.environ.get("C01_SKIP_COQ"):      # development switch only: the run is then red by construction
        coq_ok, out = vlib.coq_make(["theories/Algo/RustStatic.vo"])
        ctx.oblige("Coq obligations were run", False, "C01_SKIP_COQ set " + out[-500:])
    else:
        coq_ok = vlib.standard_coq_obligations(ctx, "Props.C01", THEOREMS, allowed_axioms=())

    # ---------------- cases
    fixed = stream_hostile() + stream_fixtures(ctx.tier)
    ss = []
    for size in ((1, 2, 3) if quick else (1, 2, 3, 4)):
        pool = ss_enum(size)
        if size == 4:
            rnd = random.Random(4242)       # fixed sample of the 4-node schemas: part of the cached world
            pool = rnd.sample(pool, 800)
        ss += [(size, t, s) for t, s in pool]
    rand = (stream_grammar(ctx, 45 if quick else 150) + stream_histories(ctx, 25 if quick else 80) +
            stream_mutations(ctx, 30 if quick else 120))
    if os.path.isdir(CORPUS):
        for f in sorted(glob.glob(os.path.join(CORPUS, "*.json"))):
            if os.path.basename(f) == "hostile_expect.json":
                continue
            c = json.load(open(f))
            m = mk("corpus:" + os.path.basename(f)[:-5], "corpus", c.get("settings", {}), c["steps"],
                   c.get("supported", False), ["corpus"], c.get("note", ""))
            m["expect_finding"] = (c.get("expect") or {}).get("finding")
            m["expect_fixed"] = (c.get("expect") or {}).get("fixed")
            m["expect_rejected_finding"] = (c.get("expect") or {}).get("rejected_finding")
            fixed.insert(0, m)

    # ---------------- small scope: every schema alone through the real converter, then packed for rustc
    ss_cases = [mk("ss:%s" % t, "smallscope", {}, [{"op": "root", "doc": ss_doc([s])}], ss_supported(t), ["size%d" % n])
                for n, t, s in ss]
    ss_gen = gen_all(ss_cases, isolate=False)
    ss_kind = [ingest_outcome(g) for g in ss_gen]
    acc = [k for k in range(len(ss_cases)) if ss_kind[k][0] == "generated"]
    PACK = 16
    packs = [acc[k:k + PACK] for k in range(0, len(acc), PACK)]
    pack_cases = [mk("sspack:%d" % k, "smallscope-pack", {}, [{"op": "root", "doc": ss_doc([ss[j][2] for j in p])}], False,
                     ["pack"]) for k, p in enumerate(packs)]
    ctx.log("small scope: %d schemas, %d accepted, %d packs" % (len(ss_cases), len(acc), len(packs)))

    # constrained-key maps: every combination alone through the converter, then packed per setting
    mp_cases = stream_maps_single()
    mp_gen = gen_all(mp_cases, isolate=False)
    mp_kind = [ingest_outcome(g) for g in mp_gen]
    MPACK = 54
    mp_packs, mp_pack_cases = [], []
    for si, (mt, b) in enumerate(MAP_SETTINGS):
        accm = [k for k, c in enumerate(mp_cases) if c["id"].startswith("map:%d:" % si) and mp_kind[k][0] == "generated"]
        for k0 in range(0, len(accm), MPACK):
            grp = accm[k0:k0 + MPACK]
            defs = dict(MAP_DEFS)
            for n, k in enumerate(grp):
                defs["T%d" % n] = mp_cases[k]["steps"][0]["doc"]["definitions"]["T"]
            mp_pack_cases.append(mk("mappack:%d" % len(mp_packs), "maps-pack", map_settings(mt, b),
                                    [{"op": "root", "doc": {"definitions": defs}}], False, ["pack"]))
            mp_packs.append(grp)
    ctx.log("maps: %d combinations x settings, %d accepted, %d packs" % (
        len(mp_cases), len([k for k in mp_kind if k[0] == "generated"]), len(mp_packs)))

    # boundary defaults: every (kind, value, position) alone through the converter, accepted ones packed for rustc
    bd_cases = stream_boundary_single()
    bd_gen = gen_all(bd_cases, isolate=False)
    bd_kind = [ingest_outcome(g) for g in bd_gen]
    bd_all = bd_combos()
    BPACK = 35
    accb = [k for k in range(len(bd_cases)) if bd_kind[k][0] == "generated"]
    bd_packs = [accb[k:k + BPACK] for k in range(0, len(accb), BPACK)]
    bd_pack_cases = []
    for pi, grp in enumerate(bd_packs):
        defs = {}
        for n, k in enumerate(grp):
            _, pos, sch, v = bd_all[k]
            defs.update(bd_place(pos, sch, v, n))
        bd_pack_cases.append(mk("bdpack:%d" % pi, "boundary-pack", {"struct_builder": pi % 2 == 1},
                                [{"op": "root", "doc": {"definitions": defs}}], False, ["pack"]))
    ctx.log("boundary defaults: %d combinations, %d accepted, %d packs" % (len(bd_cases), len(accb), len(bd_packs)))

    # name collisions in every position: alone through the converter (rejected is fine), accepted ones packed
    cl_cases = stream_collisions_single()
    cl_gen = gen_all(cl_cases, isolate=False)
    cl_kind = [ingest_outcome(g) for g in cl_gen]
    CPACK = 45
    accc = [k for k in range(len(cl_cases)) if cl_kind[k][0] == "generated"]
    cl_packs = [accc[k:k + CPACK] for k in range(0, len(accc), CPACK)]
    cl_pack_cases = [mk("collpack:%d" % pi, "collisions-pack", {"struct_builder": pi % 2 == 1},
                        [{"op": "root", "doc": {"definitions": {"T%d" % n: cl_cases[k]["steps"][0]["doc"]["definitions"]["T"]
                                                                for n, k in enumerate(grp)}}}], False, ["pack"])
                     for pi, grp in enumerate(cl_packs)]
    ctx.log("collisions: %d cases, %d accepted, %d rejected at add, %d packs" % (
        len(cl_cases), len(accc), len([k for k in cl_kind if k[0] == "rejected"]), len(cl_packs)))
    ctx.coverage["collision_cases_other_outcomes"] = [cl_cases[k]["id"] for k in range(len(cl_cases))
                                                      if cl_kind[k][0] not in ("generated", "rejected")][:20]

    fixed_all = fixed + pack_cases + mp_pack_cases + bd_pack_cases + cl_pack_cases
    gens_fixed = gen_all(fixed, isolate=True) + gen_all(pack_cases, isolate=False) + gen_all(mp_pack_cases, isolate=False) + \
        gen_all(bd_pack_cases, isolate=False) + gen_all(cl_pack_cases, isolate=False)
    gens_rand = gen_all(rand, isolate=False)

    def build(name, cases, gens):
        w = world.World(ctx, name, [{"settings": c["settings"], "steps": c["steps"]} for c in cases])
        w.gen = gens
        w.status = ["ok" if ingest_outcome(g)[0] == "generated" else "not-generated" for g in gens]
        w.build(max_rounds=14)
        return w
    wf = build("c01-fixed-" + ctx.tier, fixed_all, gens_fixed)
    wr = build("c01-rand-" + ctx.tier, rand, gens_rand)

    # ---------------- evaluate
    all_cases = [(c, g, wf, i) for i, (c, g) in enumerate(zip(fixed_all, gens_fixed))] + \
                [(c, g, wr, i) for i, (c, g) in enumerate(zip(rand, gens_rand))]
    results = []
    for c, g, w, i in all_cases:
        kind, detail = ingest_outcome(g)
        codes, msgs = [], []
        if kind == "generated":
            if w.status[i] == "compile-error":
                kind = "compile-error"
                codes = sorted({e[0] or "?" for e in w.compile_errors[i]})
                msgs = [e[1] for e in w.compile_errors[i]]
            else:
                kind = "ok"
        results.append({"case": c, "g": g, "kind": kind, "detail": detail, "codes": codes, "msgs": msgs})
    if MUTATE == "impl-breaks-module":
        # emulate a typify change that makes a clean grammar module uncompilable (e.g. a template typo)
        for r in results:
            if r["case"]["stream"] == "grammar" and r["kind"] == "ok":
                r["kind"], r["codes"], r["msgs"] = "compile-error", ["E0425"], ["cannot find value `valu` in this scope"]
                break
    if MUTATE == "impl-rejects-supported":
        for r in results:
            if r["case"]["stream"] == "fixture" and r["kind"] == "ok":
                r["kind"], r["detail"] = "rejected", "panic  not yet implemented"
                break
    if MUTATE == "impl-render-panics":
        for r in results:
            if r["case"]["stream"] == "history" and r["kind"] == "ok":
                r["kind"], r["detail"] = "render-panic", "emulated"
                break

    # small-scope packs: a failing pack is split into its members
    ss_fail = []
    for r in results:
        if r["case"]["stream"] == "smallscope-pack" and r["kind"] != "ok":
            k = int(r["case"]["id"].split(":")[1])
            ss_fail += packs[k]
    if ss_fail:
        sub = [ss_cases[j] for j in ss_fail]
        sg = [ss_gen[j] for j in ss_fail]
        ws = build("c01-sssplit-" + ctx.tier, sub, sg)
        for j, (c, g) in enumerate(zip(sub, sg)):
            kind = "compile-error" if ws.status[j] == "compile-error" else "ok"
            results.append({"case": c, "g": g, "kind": kind, "detail": "",
                            "codes": sorted({e[0] or "?" for e in ws.compile_errors.get(j, [])}),
                            "msgs": [e[1] for e in ws.compile_errors.get(j, [])]})
    results = [r for r in results if not (r["case"]["stream"] == "smallscope-pack" and r["kind"] != "ok")]
    mp_fail = []
    for r in results:
        if r["case"]["stream"] == "maps-pack" and r["kind"] != "ok":
            mp_fail += mp_packs[int(r["case"]["id"].split(":")[1])]
    if mp_fail:
        sub = [mp_cases[j] for j in mp_fail]
        sg = [mp_gen[j] for j in mp_fail]
        wm = build("c01-mapsplit-" + ctx.tier, sub, sg)
        for j, (c, g) in enumerate(zip(sub, sg)):
            kind = "compile-error" if wm.status[j] == "compile-error" else "ok"
            results.append({"case": c, "g": g, "kind": kind, "detail": "",
                            "codes": sorted({e[0] or "?" for e in wm.compile_errors.get(j, [])}),
                            "msgs": [e[1] for e in wm.compile_errors.get(j, [])]})
    results = [r for r in results if not (r["case"]["stream"] == "maps-pack" and r["kind"] != "ok")]
    cl_fail = []
    for r in results:
        if r["case"]["stream"] == "collisions-pack" and r["kind"] != "ok":
            cl_fail += cl_packs[int(r["case"]["id"].split(":")[1])]
    if cl_fail:
        sub = [cl_cases[j] for j in cl_fail]
        sg = [cl_gen[j] for j in cl_fail]
        wc = build("c01-collsplit-" + ctx.tier, sub, sg)
        for j, (c, g) in enumerate(zip(sub, sg)):
            kind = "compile-error" if wc.status[j] == "compile-error" else "ok"
            results.append({"case": c, "g": g, "kind": kind, "detail": "",
                            "codes": sorted({e[0] or "?" for e in wc.compile_errors.get(j, [])}),
                            "msgs": [e[1] for e in wc.compile_errors.get(j, [])]})
    results = [r for r in results if not (r["case"]["stream"] == "collisions-pack" and r["kind"] != "ok")]
    for k, c in enumerate(cl_cases):
        if cl_kind[k][0] != "generated":
            results.append({"case": c, "g": cl_gen[k], "kind": cl_kind[k][0], "detail": cl_kind[k][1], "codes": [], "msgs": []})
    bd_fail = []
    for r in results:
        if r["case"]["stream"] == "boundary-pack" and r["kind"] != "ok":
            bd_fail += bd_packs[int(r["case"]["id"].split(":")[1])]
    if bd_fail:
        sub = [bd_cases[j] for j in bd_fail]
        sg = [bd_gen[j] for j in bd_fail]
        wb = build("c01-bdsplit-" + ctx.tier, sub, sg)
        for j, (c, g) in enumerate(zip(sub, sg)):
            kind = "compile-error" if wb.status[j] == "compile-error" else "ok"
            results.append({"case": c, "g": g, "kind": kind, "detail": "",
                            "codes": sorted({e[0] or "?" for e in wb.compile_errors.get(j, [])}),
                            "msgs": [e[1] for e in wb.compile_errors.get(j, [])]})
    results = [r for r in results if not (r["case"]["stream"] == "boundary-pack" and r["kind"] != "ok")]
    for k, c in enumerate(bd_cases):
        if bd_kind[k][0] != "generated":
            results.append({"case": c, "g": bd_gen[k], "kind": bd_kind[k][0], "detail": bd_kind[k][1], "codes": [], "msgs": []})
    for k, c in enumerate(mp_cases):
        if mp_kind[k][0] != "generated":
            results.append({"case": c, "g": mp_gen[k], "kind": mp_kind[k][0], "detail": mp_kind[k][1], "codes": [], "msgs": []})
    for k, c in enumerate(ss_cases):
        if ss_kind[k][0] != "generated":
            results.append({"case": c, "g": ss_gen[k], "kind": ss_kind[k][0], "detail": ss_kind[k][1], "codes": [], "msgs": []})

    for r in results:
        if r["case"]["stream"] != "hostile" and r["kind"] != "ok":
            ctx.log("non-ok:", r["case"]["id"], r["kind"], r["codes"], r["detail"][:120].replace("\n", " "))
    if MUTATE == "impl-unique-adjacent-only":
        # emulate util.rs unique() comparing neighbours only: a non-adjacent variant collision is accepted and the enum
        # has two variants of one name (the recorded answer of a real duplicate-item module stands in for E0428)
        for r in results:
            if r["case"]["id"] == "hostile:coll-variants-nonadjacent" and r["kind"] == "ok":
                # today: X substitution gives Read / Write / ReadX; with the broken guard the first attempt is kept
                r["kind"], r["codes"], r["msgs"], r["detail"] = "compile-error", ["E0428"], ["the name `Read` is defined multiple times"], ""
            if r["case"]["id"] in ("hostile:coll-variants-nonadjacent-2", "hostile:coll-extra-after") and r["kind"] == "rejected":
                r["kind"], r["codes"], r["msgs"], r["detail"] = "compile-error", ["E0428"], ["defined multiple times"], ""
                r["g"] = dict(r["g"], dump={"entries": {}, "settings": {}}, render={"r": "ok", "scan": {"items": [], "impls": []}})
    if MUTATE == "impl-u64-default-unrenderable":
        # emulate output_value losing integer defaults above i64::MAX while validate_value still accepts them
        for r in results:
            if r["case"]["id"] in ("hostile:default-u64max-in-vec", "bd:uint64/3/tuple") and r["kind"] == "ok":
                r["kind"], r["detail"] = "render-panic", "The default value could not be rendered for this type"
    if MUTATE == "impl-skip-path-serde-map":
        # emulate generate_serde_attr choosing `::serde_json::Map::is_empty` for every optional map with JsonValue
        # values, whatever the key type: the recorded scan and the rustc verdict of a curated case are altered
        for r in results:
            if r["case"]["id"] == "hostile:maps-pattern-any-optional" and r["kind"] == "ok":
                for it in r["g"]["render"]["scan"]["items"]:
                    if it["kind"] == "struct" and it["fields"]["k"] == "named":
                        for f in it["fields"]["fields"]:
                            for a in f["serde"]:
                                if a[0] == "skip_serializing_if" and "Map" in a[1] and "HashMap" in f["ty"]:
                                    a[1] = "::serde_json::Map::is_empty"
                r["kind"], r["codes"], r["msgs"] = "compile-error", ["E0308"], ["mismatched types"]
    if MUTATE == "impl-accepts-titled-root":
        # emulate the loss of fix c22ef06 for a titled root: the must-reject cases are accepted and the module has two
        # items of one name (the recorded answer of a real duplicate-item module is substituted)
        src = [r for r in results if r["case"]["id"] == "hostile:coll-title-def"][0]
        for r in results:
            if r["case"]["id"] in ("hostile:root-title-eq-def", "corpus:r01-root-title-equals-definition"):
                r.update({"g": src["g"], "kind": src["kind"], "codes": src["codes"], "msgs": src["msgs"], "detail": ""})
    # ---------------- verdicts
    expect = json.load(open(EXPECT)) if os.path.exists(EXPECT) else {}
    write_expect = bool(os.environ.get("C01_WRITE_EXPECT"))

    def admissible(c, fid):
        """a failure may be attributed to a listed class only on the curated case recorded for that class: a
        corpus witness of that finding, or a hostile case whose recorded outcome is that finding.  Everywhere else
        (random streams, small scope, hostile cases recorded as pass / rejected) a failure is a VIOLATION even if
        it looks like a listed class."""
        if c["stream"] == "corpus":
            return c.get("expect_finding") == fid
        if c["stream"] == "hostile":
            return write_expect or expect.get(c["id"][len("hostile:"):]) == "finding:" + fid
        return False
    viol, found = [], collections.defaultdict(list)
    dist = collections.Counter()
    outcome_by_stream = collections.defaultdict(collections.Counter)
    for r in results:
        c = r["case"]
        dist[c["stream"]] += 1
        outcome_by_stream[c["stream"]][r["kind"]] += 1
        for t in c["tags"]:
            dist["tag:" + t] += 1
        ctx.evaluations += 1
        if r["kind"] in ("ok",):
            ctx.nontrivial.add(c["id"].split(":")[0] + ":" + ",".join(sorted(set(c["tags"])))[:80])
            continue
        if r["kind"] in ("rejected", "settings-rejected", "abort", "empty"):
            if c["supported"] and c.get("expect_rejected_finding") and r["kind"] == "rejected":
                r["finding"] = c["expect_rejected_finding"]       # curated witness of a listed over-rejection
                found[r["finding"]].append(c["id"])
            elif c["supported"]:
                viol.append({"what": "a schema of the supported fragment is rejected", "id": c["id"], "outcome": r["kind"],
                             "detail": r["detail"], "settings": c["settings"], "steps": c["steps"]})
            continue
        c["_detail"] = r["detail"]
        if "caller-promise" in c["tags"] and r["kind"] == "compile-error":
            r["kind"] = "caller-promise-broken"
            continue
        fid = classify(c, r["g"], r["kind"], r["codes"], r["msgs"])
        looks_like = None
        if fid and not admissible(c, fid):
            looks_like, fid = fid, None
        r["finding"] = fid
        if fid:
            found[fid].append(c["id"])
        else:
            viol.append({"what": {"render-panic": "to_stream() panics after a successful ingestion",
                                  "unparsable": "the emitted tokens do not parse as a file",
                                  "compile-error": "rustc rejects the generated module"}[r["kind"]],
                         "id": c["id"], "codes": r["codes"], "messages": r["msgs"][:4], "detail": r["detail"],
                         "resembles_listed_class_but_not_its_recorded_case": looks_like,
                         "settings": c["settings"], "steps": c["steps"]})

    # the serde attribute and the field type are produced by two sites: they must agree (no rustc needed)
    skip_bad = []
    n_skip = 0
    for r in results:
        if r["kind"] in ("ok", "compile-error") and "render" in r["g"] and r["g"]["render"].get("scan"):
            n_skip += 1
            for b in skip_path_mismatches(r["g"]):
                skip_bad.append(dict(b, id=r["case"]["id"]))
                if not any(v.get("id") == r["case"]["id"] and "skip_serializing_if" in v["what"] for v in viol):
                    viol.append({"what": "rustc-independent oracle: skip_serializing_if names a function of another type than the field's",
                                 "id": r["case"]["id"], "field": b, "codes": r["codes"], "messages": r["msgs"][:3], "detail": "",
                                 "settings": r["case"]["settings"], "steps": r["case"]["steps"]})
    ctx.oblige("every skip_serializing_if path names a function of the field's rendered type (%d modules)" % n_skip,
               not skip_bad, json.dumps(skip_bad[:5]))

    # witnesses of FIXED findings are regression cases: they must be accepted and compile (or be rejected at add
    # when the fix is a rejection); a fixed entry suppresses nothing
    for r in results:
        fx = r["case"].get("expect_fixed")
        if fx and r["kind"] != fx.get("now", "ok"):
            viol.append({"what": "regression of a fixed finding (%s): expected outcome `%s`, observed `%s` (typify + rustc)" % (
                             fx.get("commit"), fx.get("now", "ok"), r["kind"]),
                         "id": r["case"]["id"], "codes": r["codes"], "messages": r["msgs"][:4], "detail": r["detail"],
                         "outcome": r["kind"], "settings": r["case"]["settings"], "steps": r["case"]["steps"]})
    wit_bad = [(r["case"]["id"], r["case"].get("expect_finding"), r.get("finding"), r["kind"]) for r in results
               if r["case"]["stream"] == "corpus" and r["case"].get("expect_finding") and r["kind"] not in ("ok", "rejected")
               and r.get("finding") != r["case"]["expect_finding"]]
    ctx.oblige("every curated witness that still fails is attributed to its own class", not wit_bad, json.dumps(wit_bad))
    ctx.coverage["witnesses_not_reproduced"] = [r["case"]["id"] for r in results if r["case"]["stream"] == "corpus"
                                                and r["case"].get("expect_finding") and r["kind"] in ("ok", "rejected")]
    # hostile expectations (classification recorded in the build phase)
    drift, misattributed = [], []
    new_expect = {}
    for r in results:
        c = r["case"]
        if c["stream"] != "hostile":
            continue
        hid = c["id"][len("hostile:"):]
        cls = "pass" if r["kind"] == "ok" else ("caller-promise-broken" if r["kind"] == "caller-promise-broken" else "finding:" + r["finding"] if r.get("finding") else
                                                  ("rejected" if r["kind"] in ("rejected", "settings-rejected", "abort", "empty") else "UNCLASSIFIED:" + r["kind"]))
        new_expect[hid] = cls
        e = expect.get(hid)
        if e is None:
            drift.append((hid, None, cls))
        elif e != cls:
            drift.append((hid, e, cls))
            if e.startswith("finding:") and cls.startswith("finding:"):
                misattributed.append((hid, e, cls))
    if write_expect:
        os.makedirs(CORPUS, exist_ok=True)
        json.dump(new_expect, open(EXPECT, "w"), indent=1, sort_keys=True)
        ctx.log("wrote", EXPECT)
    ctx.coverage["hostile_outcome_drift"] = drift[:40]
    ctx.oblige("every hostile case has a recorded classification and witnesses stay in their class",
               not misattributed and not [d for d in drift if d[1] is None], json.dumps(drift[:10]))

    # ---------------- K6
    k6_mis = []
    k6_n = 0
    if coq_ok:
        try:
            gi = [n for n, r in enumerate(results) if r["kind"] in ("ok", "compile-error", "render-panic", "unparsable")
                  and "dump" in r["g"] and r["case"]["stream"] not in ("smallscope-pack", "maps-pack", "boundary-pack", "collisions-pack")]
            # packs: evaluated as modules too (they are what rustc judged)
            gi += [n for n, r in enumerate(results) if r["case"]["stream"] in ("smallscope-pack", "maps-pack", "boundary-pack", "collisions-pack") and r["kind"] == "ok"]
            # siblings recompile shared models (Value.v, SettingsModel.v) while this check runs: bring the
            # dependants up to date again right before they are loaded
            vlib.coq_make(["theories/Props/C01.vo"])
            reps = coq_wf(ctx, [r["g"] for r in results], gi, "c01-" + ctx.tier)
            for n in gi:
                r = results[n]
                tags = reps[n]
                if MUTATE == "model-drops-items" and "items" in tags:
                    tags = [t for t in tags if t != "items"]
                k6_n += 1
                r["wf_tags"] = tags
                if r["kind"] == "ok" and tags:
                    k6_mis.append({"id": r["case"]["id"], "rustc": "ok", "wf_module": "false", "conjuncts": tags})
                elif r["kind"] != "ok" and not tags:
                    if r.get("finding") in MODEL_GAPS:
                        continue
                    k6_mis.append({"id": r["case"]["id"], "rustc": r["kind"], "codes": r["codes"], "wf_module": "true",
                                   "finding": r.get("finding")})
                elif r["kind"] != "ok" and r.get("finding") and r["finding"] not in MODEL_GAPS:
                    expl = set().union(*[TAG_FINDINGS.get(t, set()) for t in tags])
                    if r["finding"] not in expl:
                        k6_mis.append({"id": r["case"]["id"], "finding": r["finding"], "conjuncts": tags,
                                       "why": "failing conjuncts do not explain the finding class"})
            ctx.oblige("correspondence K6: wf_module (Coq, on the real dump) = rustc verdict on %d modules, both polarities" % k6_n,
                       not k6_mis, json.dumps(k6_mis[:40]))
            pos = len([n for n in gi if results[n]["kind"] == "ok"])
            ctx.coverage["k6"] = {"modules": k6_n, "compiling": pos, "failing": k6_n - pos}
            ctx.oblige("K6 exercises both polarities", pos > 20 and k6_n - pos > 10, "%d / %d" % (pos, k6_n - pos))
        except Exception as e:  # noqa
            ctx.oblige("model RustStatic.v evaluates on the real dumps", False, str(e)[-3000:])

    # ---------------- obligations
    n_ok = len([r for r in results if r["kind"] == "ok"])
    ctx.oblige("ingest Ok => to_stream returns and parses as a file (all streams)",
               not [v for v in viol if "to_stream" in v["what"] or "parse" in v["what"]], "")
    ctx.oblige("ingest Ok => rustc accepts the module, outside the listed classes (all streams)",
               not [v for v in viol if "rustc" in v["what"]], json.dumps(viol[:2])[:1500])
    ctx.oblige("supported fragment (grammar, histories, fixtures, small scope without allOf/anyOf) is never rejected",
               not [v for v in viol if "supported" in v["what"]], json.dumps([v for v in viol if "supported" in v["what"]][:2])[:1500])
    n_den = len([r for r in results if r["case"]["stream"] != "collisions"])     # collisions: rejection is the expected outcome
    n_ok_den = len([r for r in results if r["kind"] == "ok" and r["case"]["stream"] != "collisions"])
    ctx.oblige("the world is not degenerate (>= 60% of the cases outside the collision stream compile)", n_ok_den * 10 >= n_den * 6,
               "%d of %d" % (n_ok_den, n_den))
    listed = {f["id"] for f in ctx.findings_for()}
    ctx.oblige("every attributed class is listed in findings/C01.json", set(found) <= listed, str(sorted(set(found) - listed)))
    missing = sorted(listed - set(found))
    ctx.coverage["findings_not_reproduced"] = missing
    for fid in sorted(found, key=lambda x: int(x.split("-")[1])):
        ctx.known_finding(fid, "%s: %s (%d cases, e.g. %s)" % (fid, FINDING_TEXT.get(fid, ""), len(found[fid]), found[fid][0]))

    # ---------------- violations: shrink, report
    seen_sig = set()
    for v in viol:
        sig = (v["what"], tuple(v.get("codes", [])), v.get("detail", "")[:60])
        if sig in seen_sig and len(seen_sig) > 0 and len(ctx.violations) >= 6:
            continue
        seen_sig.add(sig)
        case = {"settings": v["settings"], "steps": v["steps"]}
        if not MUTATE:
            want = v.get("codes")

            def still(c, v=v, want=want):
                if "supported" in v["what"]:
                    k, dt = ingest_outcome(gen_one(c))
                    return k in ("rejected", "abort") and dt[:40] == v.get("detail", "")[:40]
                k, st, cd = compile_single(ctx, c, "x")
                if "rustc" in v["what"]:
                    return st == "compile-error" and set(cd) & set(want or cd)
                return k in ("render-panic", "unparsable")
            try:
                small = shrink(case, still, budget=25)
                v["minimal"] = small
            except Exception as e:  # noqa
                v["shrink_error"] = str(e)[:200]
        v["observed"] = v["what"]
        v["expected"] = "ingest Ok => render ok => rustc ok; supported fragment => ingest Ok"
        ctx.violation(v)

    # ---------------- evidence
    ctx.coverage["rule"] = ("every case: ingest Ok => render ok => module compiles (rustc 1.80.1); supported => ingest Ok; "
                            "K6 wf_module = rustc verdict")
    ctx.coverage["distribution"] = dict(sorted(dist.items()))
    ctx.coverage["outcomes_by_stream"] = {k: dict(v) for k, v in outcome_by_stream.items()}
    ctx.coverage["findings_attributed"] = {k: len(v) for k, v in found.items()}
    ctx.coverage["random_documents_redrawn_outside_C01-18_region"] = SKIPPED_ALIAS[0]
    ctx.coverage["schemagen_exceptions_skipped"] = GEN_ERRORS[0]
    ctx.samples = [{"id": r["case"]["id"], "outcome": r["kind"], "codes": r["codes"], "finding": r.get("finding"),
                    "wf": r.get("wf_tags")} for r in results[::max(1, len(results) // 12)]]
    ctx.trusted = ["Coq 8.16.1 kernel + vm_compute", "rustc 1.80.1 + serde_derive 1.0.219 as the oracle of compilability",
                   "py/world.py error attribution", "py/tocoq.py cspace + verif_dump hook", "syn scan (vh::scan_code)",
                   "RustStatic.wf_module is a MODEL of rustc's named rejection causes (validated by K6, not verified)"]
    ctx.assumptions = ["x-rust-type / replacement / conversion types and user derives are taken as declared (the caller's promise)",
                       "identifier validity uses the Unicode class table emitted by the harness for the run's strings"]
    ctx.level = "proof"
    ctx.checker_cmd = "bin/check C01 --tier %s" % ctx.tier
    print("outcomes by stream:", json.dumps(ctx.coverage["outcomes_by_stream"]))
    if not quick and coq_ok:
        vlib.coq_make(["theories/Props/C01.vo"])
        rc, out, err = vlib.sh("cd %s && timeout 900 coqchk -silent -o -Q theories Typify Typify.Props.C01" % vlib.COQ, timeout=1000)
        ctx.oblige("coqchk re-checks Props.C01 and dependencies", rc == 0, (out + err)[-1500:])
    if ctx.broken() and not ctx.violations:
        ctx.violation({"broken_obligations": [(o[0], o[2][:1500]) for o in ctx.broken()]}, no_input=True)
