"""C10 — built-in type selection can represent every value the schema admits.

Deciding method: Coq theorems over `Algo/IntSelect.v` (Flocq binary64 model of
convert_integer, format table regenerated from the Rust source), proved on the
integer-level model `Algo/IntSelectZ.v` for all bounds and transferred by the
refinement theorem C10_refine (safe bounds), tied to /repo by (a) the table
translator and (b) a correspondence run of model vs. the public API on the
boundary lattice; the same run re-evaluates the integer-level model on every
lattice point inside the refinement's domain.  A direct evaluation of the property on
the implementation (exact rational arithmetic) provides the failing input
whenever an obligation or the correspondence breaks.
"""
import itertools
import json
import random
import struct
from fractions import Fraction

import vlib

THEOREMS = [
    # tables
    "C10_string_format_table",
    "C10_string_unknown_is_String",
    "C10_number_never_narrower",
    "C10_table_ranges_exact",
    # integer-level model choose_integer_Z: all bounds / defaults / formats
    "C10_int_fits_Z",
    "C10_Known_F6_decidable",
    "C10_int_fits_Z_refuted_F6",
    "C10_F6_class_fails",
    "C10_nonzero_only_if_zero_excluded_Z",
    "C10_default_out_of_range_rejected_Z",
    "C10_default_not_admitted_rejected_Z",
    "C10_never_narrower_than_format",
    # refinement Flocq model = integer-level model on safe bounds (closed, not _partial)
    "C10_refine",
    "C10_safe_decidable",
    # composed, on the Flocq model
    "C10_int_fits",
    "C10_int_fits_refuted_F6",
    "C10_nonzero_only_if_zero_excluded",
    "C10_nonzero_refuted_F4",
    "C10_default_out_of_range_rejected",
    "C10_default_not_admitted_rejected",
    "C10_never_narrower_than_format_f",
]
FLOCQ_AXIOMS = vlib.STD_AXIOMS

INT_TYPES = {
    "i8": (-2**7, 2**7 - 1), "u8": (0, 2**8 - 1), "i16": (-2**15, 2**15 - 1), "u16": (0, 2**16 - 1),
    "i32": (-2**31, 2**31 - 1), "u32": (0, 2**32 - 1), "i64": (-2**63, 2**63 - 1), "u64": (0, 2**64 - 1),
    "::std::num::NonZeroU8": (1, 2**8 - 1), "::std::num::NonZeroU16": (1, 2**16 - 1),
    "::std::num::NonZeroU32": (1, 2**32 - 1), "::std::num::NonZeroU64": (1, 2**64 - 1),
}
# documented integer formats read as ranges (README / OpenAPI): the SPEC, independent of the code's table
FMT_BASE = {
    "int8": INT_TYPES["i8"], "uint8": INT_TYPES["u8"], "int16": INT_TYPES["i16"], "uint16": INT_TYPES["u16"],
    "int": INT_TYPES["i32"], "int32": INT_TYPES["i32"], "uint": INT_TYPES["u32"], "uint32": INT_TYPES["u32"],
    "int64": INT_TYPES["i64"], "uint64": INT_TYPES["u64"],
}
DOC_STRING_FORMATS = {
    "uuid": "::uuid::Uuid", "date": "::chrono::naive::NaiveDate",
    "date-time": "::chrono::DateTime<::chrono::offset::Utc>",
    "ip": "::std::net::IpAddr", "ipv4": "::std::net::Ipv4Addr", "ipv6": "::std::net::Ipv6Addr",
}
FORMATS = list(FMT_BASE) + ["int128", "bogus", None]
KEYS = ["minimum", "maximum", "exclusiveMinimum", "exclusiveMaximum", "multipleOf"]


def bits_to_fraction(bits):
    f = struct.unpack(">d", struct.pack(">Q", int(bits)))[0]
    return Fraction(f)


def lattice_values():
    vals = set()
    for t in ("i8", "u8", "i16", "u16", "i32", "u32", "i64", "u64"):
        lo, hi = INT_TYPES[t]
        for v in (lo, hi):
            vals.update([v - 1, v, v + 1])
    vals.update([0, 1, -1, 2, -2, 5, -7, 100, 1000, 2**53, 2**53 + 1, -2**53, 10**18, -10**18])
    ints = sorted(vals)
    floats = [0.5, -0.5, 1e-17, -1e-17, 254.5, 1e30, -1e30, 1.5, 255.00000000000003]
    return ints, floats


def base_of(fmt):
    return FMT_BASE.get(fmt, INT_TYPES["i64"])


def admitted(seen, n):
    """exact: is integer n admitted by the parsed bounds (doubles as stored by schemars)?"""
    n = Fraction(n)
    g = lambda k: None if seen.get(k) is None else bits_to_fraction(seen[k])
    m = g("minimum")
    if m is not None and n < m:
        return False
    m = g("maximum")
    if m is not None and n > m:
        return False
    m = g("exclusiveMinimum")
    if m is not None and n <= m:
        return False
    m = g("exclusiveMaximum")
    if m is not None and n >= m:
        return False
    m = g("multipleOf")
    if m is not None:
        if m == 0:
            return False
        if (n / m).denominator != 1:
            return False
    return True


def gen_cases(ctx):
    rnd = random.Random(ctx.seed)
    ints, floats = lattice_values()
    allv = ints + floats
    cases = []

    def mk(fmt, kw, default=("absent",)):
        s = {"type": "integer"}
        if fmt is not None:
            s["format"] = fmt
        s.update(kw)
        if default[0] != "absent":
            s["default"] = default[1]
        return s

    # A: every single bound keyword x every lattice value x every format
    for fmt in FORMATS:
        for k in KEYS[:4]:
            for v in allv:
                cases.append(mk(fmt, {k: v}))
    # B: (minimum, maximum) pairs around every type's limits
    for fmt in FORMATS:
        for t in ("i8", "u8", "i16", "u16", "i32", "u32", "i64", "u64"):
            lo, hi = INT_TYPES[t]
            for dl, dh in itertools.product((-1, 0, 1), repeat=2):
                cases.append(mk(fmt, {"minimum": lo + dl, "maximum": hi + dh}))
            cases.append(mk(fmt, {"exclusiveMinimum": lo - 1, "exclusiveMaximum": hi + 1}))
            cases.append(mk(fmt, {"minimum": lo, "maximum": hi, "multipleOf": 2}))
            cases.append(mk(fmt, {"minimum": 1, "maximum": hi}))
    # C: random combinations of all five keywords and a default
    n_rand = 2500 if ctx.tier == "quick" else 40000
    for _ in range(n_rand):
        fmt = rnd.choice(FORMATS)
        kw = {}
        for k in KEYS[:4]:
            if rnd.random() < 0.4:
                kw[k] = rnd.choice(allv if rnd.random() < 0.25 else ints)
        if rnd.random() < 0.15:
            kw["multipleOf"] = rnd.choice([1, 2, 3, 10, 0.5, 256])
        d = ("absent",)
        r = rnd.random()
        if r < 0.35:
            d = ("num", rnd.choice(ints))
        elif r < 0.40:
            d = ("num", rnd.choice(floats))
        elif r < 0.45:
            d = ("other", rnd.choice(["x", None, True, [1], {}]))
        cases.append(mk(fmt, kw, d))
    # D: defaults against one bound and a format
    for fmt in FORMATS:
        lo, hi = base_of(fmt)
        for dv in (lo - 1, lo, 0, 1, hi, hi + 1, 5, 2.5):
            cases.append(mk(fmt, {}, ("num", dv)))
            cases.append(mk(fmt, {"minimum": 10}, ("num", dv)))
            cases.append(mk(fmt, {"maximum": 3}, ("num", dv)))
            cases.append(mk(fmt, {"minimum": 1}, ("num", dv)))
            cases.append(mk(fmt, {"exclusiveMinimum": 4}, ("num", dv)))
    # dedupe
    seenk = set()
    out = []
    for c in cases:
        k = json.dumps(c, sort_keys=True)
        if k not in seenk:
            seenk.add(k)
            out.append(c)
    return out


def coq_case(schema, seen):
    fmt = schema.get("format")
    o = lambda k: vlib.coq_opt(None if seen.get(k) is None else int(seen[k]))
    if seen.get("has_default"):
        d = "(Some %s)" % vlib.coq_opt(None if seen.get("default") is None else int(seen["default"]))
    else:
        d = "None"
    return "run_tie %s %s %s %s %s %s %s" % (
        vlib.coq_opt(fmt, vlib.coq_str), o("minimum"), o("maximum"), o("exclusiveMinimum"),
        o("exclusiveMaximum"), o("multipleOf"), d)


def impl_str(r):
    if r["r"] == "ok":
        return "ok:" + r["ty"]
    if r["r"] == "err":
        return "err:" + r["kind"]
    return r["r"]


def is_unsafe_bound(seen):
    """Bounds outside the theorem's `safe_bounds` (non-integral doubles)."""
    for k in KEYS[:4]:
        if seen.get(k) is not None:
            fr = bits_to_fraction(seen[k])
            if fr.denominator != 1:
                return True
    return False


def direct_check(ctx, schema, res, wrapped, probes):
    """The property itself, evaluated on the implementation's answer."""
    out = []
    seen = res.get("seen", {})
    fmt = schema.get("format")
    lo_b, hi_b = base_of(fmt)
    if res["r"] == "ok" and res["ty"] in INT_TYPES:
        lo, hi = INT_TYPES[res["ty"]]
        for n in probes:
            if lo_b <= n <= hi_b and not (lo <= n <= hi) and admitted(seen, n):
                out.append({"kind": "admitted-integer-not-representable", "schema": schema, "chosen": res["ty"],
                            "n": str(n)})
                break
    elif res["r"] == "ok":
        out.append({"kind": "integer-schema-not-an-integer-type", "schema": schema, "chosen": res["ty"]})
    # defaults: judged on the property-wrapped schema (error may come from finalisation)
    if wrapped is not None and "default" in schema and isinstance(schema["default"], (int, float)) \
            and not isinstance(schema["default"], bool):
        dv = Fraction(schema["default"])
        ok_default = dv.denominator == 1 and admitted(
            {k: seen.get(k) for k in KEYS[:4]}, dv) and lo_b <= dv <= hi_b
        if not ok_default and wrapped["r"] == "ok":
            out.append({"kind": "out-of-range-default-accepted", "schema": schema, "default": str(schema["default"]),
                        "position": "property"})
        elif res["r"] == "ok" and res.get("ty") in INT_TYPES and dv.denominator == 1 and abs(dv) < 2**53 and \
                not (INT_TYPES[res["ty"]][0] <= dv <= INT_TYPES[res["ty"]][1]):
            # at the root the default of an unnamed integer is attached to nothing; what is demanded
            # there is that an accepted integral default is at least a value of the chosen type
            out.append({"kind": "out-of-range-default-accepted", "schema": schema, "default": str(schema["default"]),
                        "position": "root (add_type)", "chosen": res.get("ty")})
    return out


def classify_known(ctx, v):
    """Map a direct-check violation to a listed known finding id (or None)."""
    for f in ctx.findings_for():
        cls = f.get("class")
        s = v["schema"]
        if cls == "nonintegral-bound-rounding" and v["kind"] == "admitted-integer-not-representable":
            # exclusiveMinimum in (-2^-53, 0): `emin + 1.0` rounds to 1.0 and selects NonZero
            em = s.get("exclusiveMinimum")
            if isinstance(em, float) and -2.0**-53 <= em < 0 and v["n"] == "0" and "NonZero" in v["chosen"]:
                return f
        if cls == "uint64-format-i64-limit-rounding" and v["kind"] == "admitted-integer-not-representable":
            if s.get("format") == "uint64" and v["chosen"] == "i64" and v["n"] == str(2**63):
                return f
        if cls == "default-beyond-f64-precision" and v["kind"] == "out-of-range-default-accepted":
            if abs(Fraction(s["default"])) >= 2**53:
                return f
    return None


def run(ctx):
    ctx.level = "proof"
    ctx.trusted = [
        "Coq 8.16.1 kernel + vm_compute (no native_compute)",
        "Flocq 4.1.0 binary64 (Bplus/Bminus/Bcompare/Babs) as the meaning of Rust f64 +,-,<=,abs on finite values",
        "axioms (Print Assumptions): " + ", ".join(sorted(FLOCQ_AXIOMS)) + " (via Flocq/Reals only)",
        "translator `vh tables` (syn): formats array of convert_integer, match arms of convert_string/convert_number",
        "hand-written model Algo/IntSelect.v of convert_integer's control flow, tied by the lattice correspondence below "
        "(checked by execution, not proved equal to the Rust)",
        "Algo/IntSelectZ.v (integer-level model) is NOT trusted: C10_refine proves it equal to IntSelect.v on "
        "safe_bounds, and the run re-evaluates both on every safe lattice point",
        "schemars/serde_json number parsing is taken from the implementation (parsed doubles are echoed as bit patterns)",
    ]
    ctx.assumptions = [
        "reading DESIGN 3.4: Adm(S) ∩ Base(format) ⊆ Range(chosen); Base = i64 when no recognised format",
        "C10_int_fits / C10_nonzero_only_if_zero_excluded are proved on the Flocq model for safe_bounds (every bound an "
        "integral double with |b| <= 2^53, or -2^63, 2^63, 2^64), any default, any format, multipleOf included in "
        "`admitted`; excluded class Known_F6 (finding C10-F6, proved exact by C10_F6_class_fails)",
        "the `_Z` theorems hold for all integer bounds (no magnitude restriction) on the integer-level model",
        "not proved: bounds outside safe_bounds (non-integral doubles, integral doubles beyond 2^53 other than the three "
        "limit constants); there C10_nonzero_refuted_F4 shows the NonZero sentence false (finding C10-F4) and the lattice "
        "run explores the range sentence",
        "default theorems speak about the add-time check inside convert_integer only (not the later range check of a "
        "default against the chosen Rust type at finalisation)",
    ]
    ctx.checker_cmd = "make -f Makefile.coq theories/Props/C10.vo && coqc Audit_C10.v (Print Assumptions) ; thorough: coqchk -o"

    vlib.build_harness()
    ok, msg = vlib.regen_tables("int")
    ctx.oblige("translator T1 (format tables) runs on current source", ok, msg)
    coq_ok = vlib.standard_coq_obligations(ctx, "Props.C10", THEOREMS, FLOCQ_AXIOMS)

    cases = gen_cases(ctx)
    ctx.log("cases:", len(cases))
    res = vlib.run_vh("c10", [{"schema": c} for c in cases])
    # property-wrapped variant for default cases
    widx = [i for i, c in enumerate(cases) if "default" in c]
    wres = vlib.run_vh("c10", [{"schema": {"type": "object", "properties": {"p": cases[i]}}} for i in widx])
    wrapped = {i: r for i, r in zip(widx, wres)}

    # ---- correspondence: model vs implementation
    mism = []
    model_ok = True
    model, tie = [], []
    try:
        ok_m, out_m = vlib.coq_make(["theories/Algo/IntSelectZ.vo"])
        if not ok_m:
            raise RuntimeError(out_m[-2000:])
        exprs = [coq_case(c, r.get("seen", {})) for c, r in zip(cases, res)]
        hdr = ("From Typify Require Import Algo.IntSelect Algo.IntSelectZ.\nFrom Coq Require Import ZArith String.\n"
               "Open Scope Z_scope. Open Scope string_scope.")
        both = vlib.coq_eval_strings("c10", hdr, exprs, shard=600)
        model = [m.split("|", 1)[0] for m in both]
        tie = [m.split("|", 1)[1] if "|" in m else "?" for m in both]
        for c, r, m in zip(cases, res, model):
            if impl_str(r) != m:
                mism.append({"schema": c, "impl": impl_str(r), "model": m})
    except Exception as e:  # noqa
        model_ok = False
        model, tie = [], []
        ctx.oblige("model IntSelect.v evaluates", False, str(e))
    ctx.oblige("correspondence K1: choose_integer (Coq) = add_type (Rust) on %d lattice schemas" % len(cases),
               model_ok and not mism, json.dumps(mism[:5]))
    # the integer-level model against the Flocq model, by execution, on every lattice point inside the
    # domain of C10_refine (safe_boundsb / safe_defaultb are proved equivalent to the Prop forms)
    zdiff = [{"schema": c, "flocq_model": m, "z_model": t[5:]} for c, m, t in zip(cases, model, tie)
             if not (t == "same" or t == "unsafe")]
    n_safe = sum(1 for t in tie if t == "same")
    ctx.oblige("correspondence Z: choose_integer_Z = choose_integer (both Coq, vm_compute) on %d safe lattice schemas"
               % n_safe, model_ok and not zdiff and n_safe > 0, json.dumps(zdiff[:5]))
    ctx.coverage["z_model_safe_points"] = n_safe
    ctx.coverage["z_model_unsafe_points"] = sum(1 for t in tie if t == "unsafe")
    ctx.coverage["z_model_mismatches"] = len(zdiff)
    ctx.evaluations += len(cases)
    ctx.coverage["correspondence_cases"] = len(cases)
    ctx.coverage["correspondence_mismatches"] = len(mism)
    dist = {}
    for r in res:
        dist[impl_str(r)] = dist.get(impl_str(r), 0) + 1
    ctx.coverage["distribution_outcomes"] = dist
    for c, r in zip(cases, res):
        ctx.nontrivial.add(json.dumps(c, sort_keys=True))
    ctx.coverage["rule"] = ("boundary lattice of DESIGN C10: single keywords x all values x 13 formats, limit pairs ±1, "
                            "random 5-keyword+default combinations; distinct = distinct schema JSON")
    ctx.samples = [{"schema": cases[i], "impl": impl_str(res[i])} for i in range(0, len(cases), max(1, len(cases) // 8))]

    # ---- string / number formats: implementation vs documentation
    sf_cases = [{"type": "string", "format": f} for f in list(DOC_STRING_FORMATS) + ["bogus", "email", "uri", "ipv5", "UUID"]]
    sf_cases += [{"type": "number", "format": f} for f in ["float", "double", "bogus", "int8"]] + [{"type": "number"}]
    sres = vlib.run_vh("c10", [{"schema": c} for c in sf_cases])
    fmt_viol = []
    for c, r in zip(sf_cases, sres):
        if c["type"] == "string":
            exp = DOC_STRING_FORMATS.get(c["format"], "String")
        else:
            exp = "f32" if c.get("format") == "float" else "f64"
        if impl_str(r) != "ok:" + exp:
            fmt_viol.append({"kind": "format-table", "schema": c, "expected": exp, "impl": impl_str(r)})
    ctx.evaluations += len(sf_cases)

    # ---- the property itself on the implementation (also the failing-input search)
    ints, _ = lattice_values()
    probes = sorted(set(ints + [v + d for v in ints for d in (-1, 1)]))
    found = list(fmt_viol)
    for i, (c, r) in enumerate(zip(cases, res)):
        found.extend(direct_check(ctx, c, r, wrapped.get(i), probes))
    ctx.coverage["direct_property_evaluations"] = len(cases) * len(probes)
    unlisted = []
    for v in found:
        f = classify_known(ctx, v) if "schema" in v and v["kind"] != "format-table" else None
        if f:
            ctx.known_finding(f["id"], "%s: %s (e.g. %s)" % (f["id"], f["summary"], json.dumps(v["schema"])))
        else:
            unlisted.append(v)
    ctx.oblige("direct property evaluation: no unlisted violation on the lattice", not unlisted,
               json.dumps(unlisted[:3]))
    # listed findings must still reproduce on their witness (else they are stale: report, do not suppress)
    if unlisted:
        # shrink: prefer the schema with the fewest keywords
        unlisted.sort(key=lambda v: len(json.dumps(v.get("schema", {}))))
        v = unlisted[0]
        v["broken_obligations"] = [o[0] for o in ctx.broken()]
        ctx.violation(v)
    elif ctx.broken():
        ctx.violation({"broken_obligations": [(o[0], o[2][:1500]) for o in ctx.broken()],
                       "note": "a theorem, the translator or the model/implementation correspondence no longer "
                               "checks; the lattice search found no failing input"}, no_input=True)

    if ctx.tier == "thorough" and coq_ok:
        rc, out, err = vlib.sh("timeout 1500 coqchk -silent -o -Q theories Typify Typify.Props.C10", cwd=vlib.COQ,
                               timeout=1600)
        ctx.oblige("coqchk re-checks Props.C10 and dependencies", rc == 0, (out + err)[-1500:])
        ctx.coverage["coqchk_output_tail"] = (out + err)[-1200:]
