"""C06 helpers: schema catalogue for the K1 type spaces, type-directed JSON value
generation from an IR dump, canonical text of the real TokenStream (to compare with
Coq's show_expr), python mirror of Coq's show_json."""
import json
import re
from fractions import Fraction

# ------------------------------------------------------------------ catalogue
DEFS_A = {
    "B": {"type": "boolean"},
    "U8": {"type": "integer", "format": "uint8"},
    "I64": {"type": "integer"},
    "I32": {"type": "integer", "format": "int32"},
    "NZ": {"type": "integer", "format": "uint32", "minimum": 1},
    "F64": {"type": "number"},
    "F32": {"type": "number", "format": "float"},
    "S": {"type": "string"},
    "S3": {"type": "string", "maxLength": 3},
    "SPat": {"type": "string", "pattern": "^a+$"},
    "SMin2": {"type": "string", "minLength": 2},
    "S24": {"type": "string", "minLength": 2, "maxLength": 4},
    "IEnum": {"type": "integer", "enum": [1, 2]},
    "Uuid": {"type": "string", "format": "uuid"},
    "Ip": {"type": "string", "format": "ipv4"},
    "Any": True,
    "Nul": {"type": "null"},
    "OptS": {"type": ["string", "null"]},
    "VecI": {"type": "array", "items": {"type": "integer"}},
    "VecU8": {"type": "array", "items": {"type": "integer", "format": "uint8"}},
    "SetS": {"type": "array", "items": {"type": "string"}, "uniqueItems": True},
    "MapI": {"type": "object", "additionalProperties": {"type": "integer"}},
    "Tup1": {"type": "array", "items": [{"type": "integer"}], "minItems": 1, "maxItems": 1},
    "Tup2": {"type": "array", "items": [{"type": "integer"}, {"type": "string"}], "minItems": 2, "maxItems": 2},
    "Tup3": {"type": "array", "items": [{"type": "boolean"}, {"type": "number"}, {"type": ["integer", "null"]}],
             "minItems": 3, "maxItems": 3},
    "Arr3": {"type": "array", "items": {"type": "boolean"}, "minItems": 3, "maxItems": 3},
    "Color": {"type": "string", "enum": ["red", "green", "blue-ish"]},
    "Pt": {"type": "object", "properties": {"x": {"type": "integer"}, "y": {"type": "integer", "default": 7},
                                            "la-bel": {"type": "string"}}, "required": ["x"]},
    "Pc": {"type": "object", "properties": {"x": {"type": "integer"},
                                            "c": {"allOf": [{"$ref": "#/definitions/Color"}], "default": "green"}},
           "required": ["x"]},
    # recursive types whose member default contains the type itself (fix fd85c79)
    "RecT": {"type": "object", "properties": {
        "kids": {"type": "array", "items": {"$ref": "#/definitions/RecT"}},
        "next": {"$ref": "#/definitions/RecT", "default": {"kids": []}}}},
    "RecN": {"type": "object", "properties": {
        "left": {"$ref": "#/definitions/RecN", "default": {}},
        "right": {"$ref": "#/definitions/RecN", "default": {}},
        "v": {"type": "integer"}}},
    # renamed members (hyphen, keyword, leading digit) next to a flattened typed-additionalProperties member
    "Headers": {"type": "object", "properties": {"content-type": {"type": "string"}, "type": {"type": "string"},
                                                 "1st": {"type": "string"}, "plain": {"type": "string"}},
                "additionalProperties": {"type": "string"}},
    "HeadersI": {"type": "object", "properties": {"content-type": {"type": "string"}, "type": {"type": "string"},
                                                  "plain": {"type": "string"}},
                 "required": ["type"], "additionalProperties": {"type": "integer"}},
    # members whose own defaults sit next to the intrinsic default of their type (has_default boundary)
    "IntrS": {"type": "object", "properties": {
        "f": {"type": "number", "default": 1e-20}, "g": {"type": "number", "default": 0.0},
        "i": {"type": "integer", "default": 0}, "s": {"type": "string", "default": " "},
        "v": {"type": "array", "items": {"type": ["integer", "null"]}, "default": [None]},
        "m": {"type": "object", "additionalProperties": {"type": "string"}, "default": {"": ""}},
        "b": {"type": "boolean", "default": False}}},
    "Closed": {"type": "object", "properties": {"a": {"type": "string"}}, "additionalProperties": False},
    "WithExtra": {"type": "object", "properties": {"k": {"type": "integer"}}, "required": ["k"],
                  "additionalProperties": {"type": "string"}},
    "Outer": {"type": "object", "properties": {"pt": {"$ref": "#/definitions/Pt"},
                                               "tags": {"type": "array", "items": {"type": "string"}},
                                               "c": {"$ref": "#/definitions/Color"}}, "required": ["pt"]},
    "Node": {"type": "object", "properties": {"v": {"type": "integer"}, "next": {"$ref": "#/definitions/Node"}},
             "required": ["v"]},
    "Ext": {"oneOf": [
        {"type": "string", "enum": ["Unit"]},
        {"type": "object", "properties": {"One": {"type": "integer"}}, "required": ["One"],
         "additionalProperties": False},
        {"type": "object", "properties": {"Two": {"type": "array", "items": [{"type": "integer"}, {"type": "string"}],
                                                  "minItems": 2, "maxItems": 2}}, "required": ["Two"],
         "additionalProperties": False},
        {"type": "object", "properties": {"Rec": {"type": "object", "properties": {
            "p": {"type": "integer"}, "q": {"type": "string"}}, "required": ["p"]}}, "required": ["Rec"],
         "additionalProperties": False}]},
    "Int": {"oneOf": [
        {"type": "object", "properties": {"kind": {"type": "string", "enum": ["a"]}}, "required": ["kind"]},
        {"type": "object", "properties": {"kind": {"type": "string", "enum": ["b"]}, "n": {"type": "integer"},
                                          "s": {"type": "string"}}, "required": ["kind", "n"]}]},
    "Adj": {"oneOf": [
        {"type": "object", "properties": {"t": {"type": "string", "enum": ["u"]}}, "required": ["t"]},
        {"type": "object", "properties": {"t": {"type": "string", "enum": ["tup"]},
                                          "c": {"type": "array", "items": [{"type": "integer"}, {"type": "integer"}],
                                                "minItems": 2, "maxItems": 2}}, "required": ["t", "c"]},
        {"type": "object", "properties": {"t": {"type": "string", "enum": ["st"]},
                                          "c": {"type": "object", "properties": {"z": {"type": "boolean"}},
                                                "required": ["z"]}}, "required": ["t", "c"]},
        {"type": "object", "properties": {"t": {"type": "string", "enum": ["item"]}, "c": {"type": "integer"}},
         "required": ["t", "c"]}]},
    "Unt": {"anyOf": [
        {"type": "null"}, {"type": "integer"},
        {"type": "array", "items": [{"type": "string"}, {"type": "string"}], "minItems": 2, "maxItems": 2},
        {"type": "object", "properties": {"cc": {"type": "string"}}, "required": ["cc"]}]},
    "AnyOfFlat": {"anyOf": [
        {"type": "object", "properties": {"a": {"type": "integer"}}, "required": ["a"]},
        {"type": "object", "properties": {"b": {"type": "string"}}, "required": ["b"]}]},
}

DEFS_B = {
    "Inner": {"type": "object", "properties": {"n": {"type": "integer", "format": "int8"},
                                               "flag": {"type": "boolean", "default": True}}, "required": ["n"]},
    "Holder": {"type": "object", "properties": {
        "inner": {"$ref": "#/definitions/Inner"},
        "opt_inner": {"oneOf": [{"$ref": "#/definitions/Inner"}, {"type": "null"}]},
        "list": {"type": "array", "items": {"$ref": "#/definitions/Inner"}},
        "by_name": {"type": "object", "additionalProperties": {"$ref": "#/definitions/Inner"}},
        "pair": {"type": "array", "items": [{"$ref": "#/definitions/Inner"}, {"type": "number"}],
                 "minItems": 2, "maxItems": 2},
        "when": {"type": "string", "format": "date-time"},
        "day": {"type": "string", "format": "date"},
        "raw": {},
        "nz": {"type": "integer", "format": "uint8", "minimum": 1},
        "neg": {"type": "integer", "format": "int16"},
        "grid": {"type": "array", "items": {"type": "array", "items": {"type": "number"}, "minItems": 2,
                                            "maxItems": 2}},
    }, "required": ["inner"]},
    "Shape": {"oneOf": [
        {"type": "object", "properties": {"shape": {"type": "string", "enum": ["circle"]},
                                          "r": {"type": "number"}}, "required": ["shape", "r"]},
        {"type": "object", "properties": {"shape": {"type": "string", "enum": ["rect"]},
                                          "w": {"type": "integer"}, "h": {"type": "integer"}},
         "required": ["shape", "w", "h"]}]},
    "HeadersU": {"type": "object", "properties": {"content-type": {"type": "string"}, "\u00e9t\u00e9": {"type": "string"}},
                 "additionalProperties": {"type": "string"}},
    # map key types of every kind typify produces for propertyNames
    "MkEnum": {"type": "object", "propertyNames": {"enum": ["cpu", "memory"]}, "additionalProperties": {"type": "integer"}},
    "MkEnumS": {"type": "object", "propertyNames": {"type": "string", "enum": ["cpu", "memory"]},
                "additionalProperties": {"type": "string"}},
    "MkPat": {"type": "object", "propertyNames": {"type": "string", "pattern": "^[a-z]+$"},
              "additionalProperties": {"type": "boolean"}},
    "MkLen": {"type": "object", "propertyNames": {"type": "string", "maxLength": 3}, "additionalProperties": {"type": "integer"}},
    "MkUuid": {"type": "object", "propertyNames": {"type": "string", "format": "uuid"},
               "additionalProperties": {"type": "integer"}},
    "MkIp": {"type": "object", "propertyNames": {"type": "string", "format": "ipv4"}, "additionalProperties": {"type": "integer"}},
    "KeyE": {"type": "string", "enum": ["k1", "k2"]},
    "MkRefE": {"type": "object", "propertyNames": {"$ref": "#/definitions/KeyE"}, "additionalProperties": {"type": "integer"}},
    "KeyP": {"type": "string", "pattern": "^x"},
    "MkRefP": {"type": "object", "propertyNames": {"$ref": "#/definitions/KeyP"},
               "additionalProperties": {"type": "array", "items": {"type": "string"}}},
    "MkHolder": {"type": "object", "properties": {"limits": {"$ref": "#/definitions/MkEnum"},
                                                  "by_ref": {"$ref": "#/definitions/MkRefE"}}},
    "KeyedMap": {"type": "object", "additionalProperties": {"type": "boolean"},
                 "propertyNames": {"type": "string", "pattern": "^[a-z]+$"}},
    "Alias": {"$ref": "#/definitions/Inner"},
    "Mixed": {"type": ["integer", "string"]},
    "Deny": {"type": "string", "not": {"enum": ["bad"]}},
    "FlatOpt": {"anyOf": [{"$ref": "#/definitions/Inner"}, {"$ref": "#/definitions/Shape"}]},
}


def doc_of(defs, root=None):
    d = {"$schema": "http://json-schema.org/draft-07/schema#", "definitions": defs}
    if root:
        d.update(root)
    return d


K1_SPACES = [
    {"settings": {}, "steps": [{"op": "root", "doc": doc_of(DEFS_A)}]},
    {"settings": {}, "steps": [{"op": "root", "doc": doc_of(DEFS_B)}]},
]

# ------------------------------------------------------------------ value generation over the IR dump
INT_RANGES = {
    "u8": (0, 2**8 - 1), "u16": (0, 2**16 - 1), "u32": (0, 2**32 - 1), "u64": (0, 2**64 - 1),
    "i8": (-2**7, 2**7 - 1), "i16": (-2**15, 2**15 - 1), "i32": (-2**31, 2**31 - 1), "i64": (-2**63, 2**63 - 1),
    "::std::num::NonZeroU8": (1, 2**8 - 1), "::std::num::NonZeroU16": (1, 2**16 - 1),
    "::std::num::NonZeroU32": (1, 2**32 - 1), "::std::num::NonZeroU64": (1, 2**64 - 1),
}
JUNK = [None, True, False, 0, 1, -1, 5, 7, 300, -129, 2**63, 2**64 - 1, -2**63, 1.5, -0.25, 0.0, 1e100, "", "x",
        "red", "toolong", "aaa", "Unit", "a", "b", [], [1], [3], [1, 2], [1, "s"], ["p", "q"], [True, False, True],
        [True, 1.5, None], [[1.0, 2.5]], {}, {"a": 1}, {"b": "s"}, {"x": 1}, {"x": 1, "y": 2}, {"k": 3, "zz": "w"},
        {"k": 3, "zz": 4}, {"One": 1}, {"Two": [1, "t"]}, {"Rec": {"p": 1}}, {"Rec": {"q": "only"}},
        {"kind": "a"}, {"kind": "b", "n": 1}, {"kind": "b"}, {"kind": "c"}, {"t": "u"}, {"t": "tup", "c": [1, 2]},
        {"t": "st", "c": {"z": True}}, {"t": "item", "c": 4}, {"t": "u", "c": None}, {"cc": "s"},
        {"v": 1, "next": {"v": 2}}, {"n": 1}, {"n": 1, "flag": False}, {"n": 300},
        {"cpu": 1}, {"disk": 1}, {"cpu": 1, "disk": 2}, {"k1": 1}, {"k3": 1}, {"abc": True}, {"ABC": True}, {"abcd": 1},
        {"shape": "circle", "r": 1.5}, {"shape": "rect", "w": 1, "h": 2}, {"shape": "rect", "w": 1},
        {"pt": {"x": 1}}, {"pt": {"x": 1}, "tags": ["a"], "c": "red"}, {"inner": {"n": 1}},
        "67e55044-10b1-426f-9247-bb680e5fe0c8", "127.0.0.1", "2020-01-01T00:00:00Z", "2020-01-01"]


class ValueGen:
    def __init__(self, dump, rnd):
        self.e = {int(k): v for k, v in dump["entries"].items()}
        self.rnd = rnd

    def string(self):
        return self.rnd.choice(["", "a", "aa", "aaa", "xyz", "hello world", "q\"uote", "é", "toolong", "red",
                                "\u00e4\u00f6", "\u00e4\u00f6\u00fc", "\u4e2d\u4e2d\u4e2d", "\u4e2d",
                                "\U0001F600\U0001F600\U0001F600", "\U0001F600\U0001F600\U0001F600\U0001F600",
                                "a\u00e4\u4e2d\U0001F600", "\U0001F600"])

    def integer(self, name):
        lo, hi = INT_RANGES.get(name, (-2**63, 2**63 - 1))
        r = self.rnd.random()
        if r < 0.25:
            return self.rnd.choice([lo, hi])
        if r < 0.35:
            return self.rnd.choice([lo - 1, hi + 1, 0])
        if r < 0.45:
            return 0
        return self.rnd.randint(max(lo, -1000), min(hi, 1000))

    def props_value(self, props, depth, drop_required=False):
        o = {}
        for p in props:
            rn = p["rename"]
            ent = self.e.get(p["type_id"], {})
            if rn["k"] == "flatten":
                if ent.get("kind") == "map":
                    if self.rnd.random() < 0.6:
                        o["zz" + self.string()[:2]] = self.valid(ent["value"], depth - 1)
                else:
                    v = self.valid(p["type_id"], depth - 1)
                    if isinstance(v, dict):
                        o.update(v)
                continue
            wire = rn["s"] if rn["k"] == "rename" else p["name"]
            req = p["state"]["k"] == "required"
            if (req and not drop_required) or (depth > 0 and self.rnd.random() < 0.5):
                o[wire] = self.valid(p["type_id"], depth - 1)
        return o

    def valid(self, tid, depth=4):
        """a value meant to be accepted by validate_value for type tid (not guaranteed)"""
        rnd = self.rnd
        e = self.e.get(tid)
        if e is None:
            return None
        k = e["kind"]
        if depth <= 0 and k in ("vec", "set", "map", "option"):
            return {"vec": [], "set": [], "map": {}, "option": None}[k]
        if k == "boolean":
            return rnd.random() < 0.5
        if k == "integer":
            return self.integer(e["name"])
        if k == "float":
            return rnd.choice([0, 0.0, 1.5, -2.25, 3, 1e100, -1e-7, 0.1, 16777217])
        if k == "string":
            return self.string()
        if k == "unit":
            return None
        if k == "json":
            return rnd.choice([None, 1, "s", [1, {"a": 2.5}], {"k": [True]}])
        if k == "native":
            tn = e["type_name"]
            if "Uuid" in tn:
                return "67e55044-10b1-426f-9247-bb680e5fe0c8"
            if "Ipv4" in tn:
                return "127.0.0.1"
            if "DateTime" in tn:
                return "2020-01-01T00:00:00Z"
            if "NaiveDate" in tn:
                return "2020-01-01"
            return "x"
        if k == "option":
            return None if rnd.random() < 0.3 else self.valid(e["id"], depth - 1)
        if k in ("box", "reference"):
            return self.valid(e["id"], depth - 1)
        if k == "newtype":
            c = e["constraints"]
            if c["k"] == "enum" and rnd.random() < 0.7:
                return rnd.choice(c["values"])
            return self.valid(e["type_id"], depth - 1)
        if k in ("vec", "set"):
            n = rnd.choice([0, 1, 2, 3])
            vs = [self.valid(e["id"], depth - 1) for _ in range(n)]
            if k == "set":
                out = []
                for v in vs:
                    if v not in out:
                        out.append(v)
                vs = out
            return vs
        if k == "array":
            return [self.valid(e["id"], depth - 1) for _ in range(e["len"])]
        if k == "tuple":
            return [self.valid(i, depth - 1) for i in e["ids"]]
        if k == "map":
            n = rnd.choice([0, 1, 2])
            out = {}
            for _ in range(n):
                kv = self.valid(e["key"], depth - 1) if rnd.random() < 0.8 else rnd.choice(["a", "disk", "k3", "ABC", "zz"])
                if not isinstance(kv, str):
                    kv = rnd.choice(["a", "b", "key", "zed"])
                out[kv] = self.valid(e["value"], depth - 1)
            return out
        if k == "struct":
            return self.props_value(e["props"], depth)
        if k == "enum":
            v = rnd.choice(e["variants"])
            d = v["details"]
            t = e["tag"]
            if d["k"] == "simple":
                payload = None
            elif d["k"] == "item":
                payload = self.valid(d["id"], depth - 1)
            elif d["k"] == "tuple":
                payload = [self.valid(i, depth - 1) for i in d["ids"]]
            else:
                payload = self.props_value(d["props"], depth)
            if t["k"] == "external":
                return v["raw"] if d["k"] == "simple" else {v["raw"]: payload}
            if t["k"] == "internal":
                o = dict(payload) if isinstance(payload, dict) else {}
                o[t["tag"]] = v["raw"]
                return o
            if t["k"] == "adjacent":
                o = {t["tag"]: v["raw"]}
                if d["k"] != "simple":
                    o[t["content"]] = payload
                return o
            return payload
        return None

    def mutate(self, v):
        """a small structural mutation of a JSON value"""
        rnd = self.rnd
        if isinstance(v, dict) and v and rnd.random() < 0.8:
            k = rnd.choice(sorted(v))
            r = rnd.random()
            w = dict(v)
            if r < 0.3:
                del w[k]
            elif r < 0.6:
                w[k] = self.mutate(v[k])
            elif r < 0.8:
                w["bogus"] = rnd.choice(JUNK[:12])
            else:
                w[k] = rnd.choice(JUNK)
            return w
        if isinstance(v, list) and rnd.random() < 0.8:
            r = rnd.random()
            w = list(v)
            if r < 0.3 and w:
                w.pop()
            elif r < 0.5:
                w.append(rnd.choice(JUNK[:12]))
            elif w:
                i = rnd.randrange(len(w))
                w[i] = self.mutate(w[i])
            return w
        return rnd.choice(JUNK)


# ------------------------------------------------------------------ printing mirrors
def show_ustr(s):
    out = ['"']
    for ch in s:
        c = ord(ch)
        if c == 34:
            out.append('\\"')
        elif c == 92:
            out.append("\\\\")
        elif 32 <= c < 127:
            out.append(ch)
        elif c < 65536:
            out.append("\\u%04x" % c)
        else:
            c2 = c - 65536
            out.append("\\u%04x\\u%04x" % (55296 + (c2 >> 10), 56320 + (c2 & 1023)))
    out.append('"')
    return "".join(out)


def show_json(v):
    """python mirror of Coq's Base.Json.show_json on tocoq.cjson(v)"""
    if v is None:
        return "null"
    if isinstance(v, bool):
        return "true" if v else "false"
    if isinstance(v, int):
        if -2**63 <= v < 2**64:
            return str(v)
        v = float(v)
    if isinstance(v, float):
        v = Fraction(v)
    if isinstance(v, Fraction):
        return '{"$q":[%d,%d]}' % (v.numerator, v.denominator)
    if isinstance(v, str):
        return show_ustr(v)
    if isinstance(v, list):
        return "[" + ",".join(show_json(x) for x in v) + "]"
    if isinstance(v, dict):
        return "{" + ",".join(show_ustr(k) + ":" + show_json(x) for k, x in sorted(v.items())) + "}"
    raise TypeError(v)


NUM_RE = re.compile(r"^(?P<num>-?\d+(?:\.\d+)?(?:[eE][+-]?\d+)?)(?:_(?P<suf>[A-Za-z]\w*))?$")


def canon_num(text):
    m = NUM_RE.match(text)
    if not m:
        return None
    num, suf = m.group("num"), m.group("suf")
    if re.search(r"[.eE]", num):
        fr = Fraction(float(num))
        s = "#%d/%d" % (fr.numerator, fr.denominator)
    else:
        n = int(num)
        if -2**63 <= n < 2**64:
            s = "#%d" % n
        else:
            fr = Fraction(float(n))
            s = "#%d/%d" % (fr.numerator, fr.denominator)
    return s + ("_" + suf if suf else "")


def canon_tokens(toks):
    """real token list (from harness bin c06) -> the text Coq's show_expr prints"""
    out = []
    i = 0
    n = len(toks)
    while i < n:
        k, t = toks[i]
        if k == "s":
            if len(out) >= 2 and out[-1] == "(" and out[-2] == ">":
                try:
                    out.append("J" + show_json(json.loads(t)))
                except ValueError:
                    out.append("J?" + t)
            else:
                out.append("S" + show_ustr(t))
        elif k == "l":
            c = canon_num(t)
            out.append(c if c is not None else "L" + t)
        elif k == "p" and t == "-" and i + 1 < n and toks[i + 1][0] == "l" and canon_num("-" + toks[i + 1][1]):
            out.append(canon_num("-" + toks[i + 1][1]))
            i += 1
        elif k == "i":
            out.append(show_ustr(t)[1:-1] if any(ord(ch) > 127 for ch in t) else t)   # as Value.show_ident
        else:
            out.append(t)
        i += 1
    return " ".join(out)


TY_RE = re.compile(r"@T\{([^}]*)\}")


def expand_ty(text):
    """expand Coq's @T{type name} placeholders into the token sequence syn prints"""
    def lex(m):
        s = m.group(1)
        return " ".join(re.findall(r"[A-Za-z_][A-Za-z_0-9]*|\S", s))
    return TY_RE.sub(lex, text)


# ------------------------------------------------------------------ K1: model vs hooks
import math
import os
import random
import subprocess

import tocoq
import vlib

FUEL = 64
MUT = os.environ.get("C06_MUTATE", "")


def k1_probes(dump, rnd, per_id, n_junk):
    vg = ValueGen(dump, rnd)
    probes = []
    for tid in sorted(vg.e):
        if vg.e[tid]["kind"] == "reference":
            continue
        seen = set()

        def add(v):
            key = json.dumps(v, sort_keys=True)
            if key not in seen:
                seen.add(key)
                probes.append([tid, v])
        for _ in range(per_id):
            v = vg.valid(tid)
            add(v)
            if rnd.random() < 0.7:
                add(vg.mutate(v))
        for v in rnd.sample(JUNK, min(n_junk, len(JUNK))):
            add(v)
    return probes


def strings_in(v, acc):
    if isinstance(v, str):
        acc.add(v)
    elif isinstance(v, list):
        for x in v:
            strings_in(x, acc)
    elif isinstance(v, dict):
        for k, x in v.items():
            acc.add(k)
            strings_in(x, acc)
    return acc


def patterns_in(dumps):
    pats = set()
    for d in dumps:
        for e in d["entries"].values():
            if e.get("kind") == "newtype" and e["constraints"]["k"] == "string" and e["constraints"]["pattern"] is not None:
                pats.add(e["constraints"]["pattern"])
    return pats


def re_table(dumps, values):
    """the model's `re` parameter as a finite table computed by the REAL regress crate (harness bin c06)"""
    pats = sorted(patterns_in(dumps))
    strs = set()
    for v in values:
        strings_in(v, strs)
    pairs = [[p, s] for p in pats for s in sorted(strs)]
    if not pairs:
        return []
    r = vlib.run_bin("c06", [{"re_pairs": pairs}])[0]
    return [(p, s, b) for (p, s), b in zip(pairs, r["re"])]


def coq_header(dumps, retab=()):
    h = [tocoq.COQ_HEADER, "From Typify Require Import Algo.Defaults Algo.Value.\n"]
    h.append("Definition re_tab : list (ustring * ustring * bool) := %s.\n" % tocoq.clist(
        retab, lambda t: "(%s, %s, %s)" % (tocoq.ustr(t[0]), tocoq.ustr(t[1]), tocoq.cbool(t[2])),
        "(ustring * ustring * bool)"))
    h.append("Definition re_fn (p s : ustring) : bool := match find (fun '(a, b, _) => ustr_eqb a p && ustr_eqb b s) "
             "re_tab with Some (_, _, r) => r | None => false end.\n")
    for i, d in enumerate(dumps):
        h.append("Definition T%d : space := %s.\n" % (i, tocoq.cspace(d)))
    return "".join(h)


def impl_line(p):
    v = p["v"]
    o = p["o"]
    if o is None:
        os_ = "none"
    elif isinstance(o, str):
        os_ = o
    else:
        os_ = "ok:" + canon_tokens(o)
    return v, os_


def model_fields(line):
    parts = line.split(" | ")
    while len(parts) < 5:
        parts.append("-")
    parts[1] = expand_ty(parts[1])
    return parts


def run_k1(ctx, spaces, per_id, n_junk, tag="c06k1"):
    """returns (records, mismatches); record = dict(space, id, value, impl_v, impl_o, model=[v,o,typed,eval,approx])"""
    rnd = random.Random(ctx.seed * 7919 + 6)
    base = vlib.run_bin("c06", [dict(s, probes=[]) for s in spaces])
    dumps = [b["dump"] for b in base]
    cases = []
    for s, b in zip(spaces, base):
        if not b["all_ok"]:
            raise RuntimeError("K1 space does not ingest: %s" % json.dumps(b["steps"])[:500])
        cases.append(dict(s, probes=k1_probes(b["dump"], rnd, per_id, n_junk)))
    res = vlib.run_bin("c06", cases)
    exprs = []
    recs = []
    for si, (c, r) in enumerate(zip(cases, res)):
        for (tid, v), p in zip(c["probes"], r["probes"]):
            iv, io = impl_line(p)
            recs.append({"space": si, "id": tid, "kind": dumps[si]["entries"][str(tid)]["kind"], "value": v,
                         "impl_v": iv, "impl_o": io})
            exprs.append("probe re_fn T%d %d %d%%N %s" % (si, FUEL, tid, tocoq.cjson(v)))
    retab = re_table(dumps, [p[1] for c in cases for p in c["probes"]])
    model = vlib.coq_eval_strings(tag + ctx.tier[0], coq_header(dumps, retab), exprs, shard=120)
    mism = []
    for rec, line in zip(recs, model):
        m = model_fields(line)
        rec["model"] = m
        if MUT == "model-string-lax" and rec["kind"] == "string" and not isinstance(rec["value"], str):
            m[0] = "ok:Specific"    # the model as it was before fix 9891d21
        if m[0] != rec["impl_v"] or m[1] != rec["impl_o"]:
            mism.append(rec)
    return recs, mism, dumps


# ------------------------------------------------------------------ K5: the property on compiled generated code
import world

PYVT = "/opt/veriftools/pyvenv/bin/python"
UUID = "67e55044-10b1-426f-9247-bb680e5fe0c8"
R = lambda n: {"$ref": "#/definitions/" + n}

# kind -> (property schema, valid defaults, invalid defaults)
KINDS = {
    "bool": ({"type": "boolean"}, [True, False], [1, "x", None]),
    "i64": ({"type": "integer"}, [0, 5, -3, 2**62], [1.5, "5", True, None]),
    "u8": ({"type": "integer", "format": "uint8"}, [0, 255, 7], [256, -1, 1.5]),
    "i8": ({"type": "integer", "format": "int8"}, [-128, 127, -5], [-129, 128]),
    "u64": ({"type": "integer", "format": "uint64"}, [2**63 + 5, 1], [-1]),
    "nz32": ({"type": "integer", "format": "uint32", "minimum": 1}, [1, 42], [0, -1]),
    "int_bounded": ({"type": "integer", "minimum": 10, "maximum": 20}, [10, 15, 20], [9, 21]),
    "int_fmt_min": ({"type": "integer", "format": "uint8", "minimum": 10}, [10, 200], [5, 256]),
    "f64": ({"type": "number"}, [1.5, -2.25, 0, 3, 1e100], ["x", None]),
    "f32": ({"type": "number", "format": "float"}, [0.5, 2], [[1]]),
    "string": ({"type": "string"}, ["", "abc", "q\"uo\\te", "\u00e9\u4e2d"], [5, True, None, ["a"]]),
    "string_max": ({"type": "string", "maxLength": 3}, ["abc", ""], ["toolong"]),
    "string_min": ({"type": "string", "minLength": 2}, ["ab"], ["a"]),
    "string_pat": ({"type": "string", "pattern": "^a+$"}, ["aaa"], ["b", ""]),
    "string_enum": ({"type": "string", "enum": ["red", "green", "blue-ish"]}, ["red", "blue-ish"], ["purple", 5]),
    "int_enum": ({"type": "integer", "enum": [1, 2]}, [1, 2], [7, "1"]),
    "uuid": ({"type": "string", "format": "uuid"}, [UUID], ["zz", 5]),
    "datetime": ({"type": "string", "format": "date-time"}, ["2020-01-01T00:00:00Z"], ["nope"]),
    "ipv4": ({"type": "string", "format": "ipv4"}, ["127.0.0.1"], ["999.1.1.1"]),
    "opt_string": ({"type": ["string", "null"]}, [None, "x", ""], [5, [None]]),
    "opt_int": ({"type": ["integer", "null"], "format": "int32"}, [None, 0, -7], ["x", 2**40]),
    "vec_int": ({"type": "array", "items": {"type": "integer"}}, [[], [1, 2], [0]], [[1, "x"], "x", {}]),
    "vec_u8": ({"type": "array", "items": {"type": "integer", "format": "uint8"}}, [[1, 255]], [[300], [-1]]),
    "vec_f64": ({"type": "array", "items": {"type": "number"}}, [[1.5, 2, -0.5]], [["x"]]),
    "vec_string": ({"type": "array", "items": {"type": "string"}}, [["a", ""]], [[5], [None]]),
    "vec_nz": ({"type": "array", "items": {"type": "integer", "format": "uint8", "minimum": 1}}, [[1, 2]], [[0]]),
    "vec_vec": ({"type": "array", "items": {"type": "array", "items": {"type": "boolean"}}}, [[[True], []]],
                [[[1]]]),
    "set_string": ({"type": "array", "items": {"type": "string"}, "uniqueItems": True}, [["a", "b"], []],
                   [["a", "a"], [1]]),
    "map_int": ({"type": "object", "additionalProperties": {"type": "integer"}}, [{}, {"a": 1, "b": -2}],
                [{"a": "x"}, []]),
    "map_string": ({"type": "object", "additionalProperties": {"type": "string"}}, [{"k": "v"}], [{"k": 1}]),
    "tuple1": ({"type": "array", "items": [{"type": "integer"}], "minItems": 1, "maxItems": 1}, [[3]],
               [[], [1, 2], ["s"]]),
    "tuple2": ({"type": "array", "items": [{"type": "integer"}, {"type": "string"}], "minItems": 2, "maxItems": 2},
               [[1, "s"]], [[1], [1, "s", 3], ["s", 1]]),
    "tuple3": ({"type": "array", "items": [{"type": "boolean"}, {"type": "number"}, {"type": ["integer", "null"]}],
                "minItems": 3, "maxItems": 3}, [[True, 1.5, None], [False, 2, 3]], [[True, 1.5]]),
    "array3": ({"type": "array", "items": {"type": "boolean"}, "minItems": 3, "maxItems": 3},
               [[True, False, True]], [[True], [1, 2, 3]]),
    "unit": ({"type": "null"}, [None], [0, "x"]),
    "any": ({}, [None, 5, "s", [1, {"a": 2.5}], {"k": [True]}], []),
    "struct": (R("Pt"), [{"x": 1}, {"x": 1, "y": 2, "la-bel": "l"}], [{}, {"x": "s"}, {"y": 2}, 5]),
    "struct_closed": (R("Closed"), [{}, {"a": "s"}], [{"a": "s", "b": 1}, {"a": 5}]),
    "struct_extra": (R("WithExtra"), [{"k": 1}, {"k": 1, "zz": "s"}], [{"k": 1, "zz": 5}, {"zz": "s"}]),
    "struct_nested": (R("Outer"), [{"pt": {"x": 1}}, {"pt": {"x": 1, "y": 3}, "tags": ["a"], "c": "red"}],
                      [{"pt": {}}, {"pt": {"x": 1}, "c": "purple"}]),
    "struct_reqonly": (R("Inner"), [{"n": 1, "flag": False}, {"n": -5}], [{"n": 300}, {"flag": True}]),
    "struct_member_enum_default": (R("Pc"), [{"x": 1, "c": "red"}, {"x": 1}], [{}, {"x": 1, "c": "purple"}]),
    # recursive types whose member default contains the type (fix fd85c79): must render and compile; the realised
    # default may diverge at run time and is NOT executed (NO_EXEC)
    "rec_member_default": (R("RecT"), [{"kids": []}, {"kids": [{"kids": []}], "next": {"kids": []}}], [{"kids": 5}]),
    "rec_two_members": (R("RecN"), [{"v": 1}, {"left": {"v": 2}}], [{"v": "x"}]),
    "boxed": (R("Node"), [{"v": 1}, {"v": 1, "next": {"v": 2}}], [{"v": 1, "next": {}}, {"next": {"v": 2}}]),
    "enum_ext": (R("Ext"), ["Unit", {"One": 1}, {"Two": [1, "t"]}, {"Rec": {"p": 1}}, {"Rec": {"p": 1, "q": "s"}}],
                 ["Nope", {"One": "s"}, {"Two": [1]}, {"Rec": {}}, {"Unit": None}, "One"]),
    "enum_int": (R("Int"), [{"kind": "a"}, {"kind": "b", "n": 1}, {"kind": "b", "n": 1, "s": "t"}],
                 [{"kind": "c"}, {"kind": "b"}, {"n": 1}, "a"]),
    "enum_adj": (R("Adj"), [{"t": "u"}, {"t": "tup", "c": [1, 2]}, {"t": "st", "c": {"z": True}},
                            {"t": "item", "c": 4}],
                 [{"t": "zz"}, {"t": "tup", "c": [1]}, {"t": "st", "c": {}}, {"t": "tup"}]),
    "enum_unt": (R("Unt"), [None, 5, ["a", "b"], {"cc": "s"}], [True, ["a"], {"cc": 5}, {}]),
    "enum_ext_tuple1": ({"oneOf": [
        {"type": "string", "enum": ["U"]},
        {"type": "object", "properties": {"V": {"type": "array", "items": [{"type": "integer"}], "minItems": 1,
                                                "maxItems": 1}}, "required": ["V"], "additionalProperties": False}]},
        ["U", {"V": [3]}], [{"V": [1, 2]}, {"V": ["s"]}]),
    "enum_unt_tuple1": ({"oneOf": [{"type": "string"},
                                   {"type": "array", "items": [{"type": "integer"}], "minItems": 1, "maxItems": 1}]},
                        ["s", [3]], [[1, 2], 5]),
    "alias_u8": (R("U8"), [7, 0], [300, -1, "x"]),
    "alias_nz": (R("NZ"), [3], [0]),
    "alias_str": (R("S"), ["s"], [5]),
    "alias_vec_u8": (R("VecU8"), [[1]], [[300]]),
    "alias_tuple1": (R("Tup1"), [[3]], [[1, 2]]),
    "alias_s3": (R("S3"), ["abc"], ["toolong"]),
    "alias_ienum": (R("IEnum"), [2], [7]),
    "alias_color": (R("Color"), ["green"], ["purple"]),
}
# string-constrained newtype defaults at the exact length boundaries, written with 1-, 2-, 3- and 4-byte scalars
# (lengths are counted in scalar values by the schema, by the generated FromStr/Deserialize and -- it must -- by the
# add-time check): every tier runs ALL of them in the three default positions
W1, W2, W3, W4 = "a", "\u00e4", "\u4e2d", "\U0001F600"
WIDTHS = (W1, W2, W3, W4)
MIXED = W1 + W2 + W3 + W4
KINDS.update({
    "len_max3": ({"type": "string", "maxLength": 3}, [c * 3 for c in WIDTHS] + [MIXED[1:]],
                 [c * 4 for c in WIDTHS] + [MIXED]),
    "len_min3": ({"type": "string", "minLength": 3}, [c * 3 for c in WIDTHS] + [MIXED[:3]],
                 [c * 2 for c in WIDTHS] + [W2 + W4]),
    "len_2_4": ({"type": "string", "minLength": 2, "maxLength": 4},
                [c * 2 for c in WIDTHS] + [c * 4 for c in WIDTHS], [c for c in WIDTHS] + [c * 5 for c in WIDTHS]),
})
NO_EXEC = ("rec_",)          # kinds whose generated code is compiled but never executed
# struct-valued defaults on structs with RENAMED members and a FLATTENED typed-additionalProperties member: the leftover
# keys handed to `extra` must be exactly the keys that are not serialized names of direct members.  Defaults containing
# the renamed member, extra keys, both, neither; same / different value type of the flattened map; all tiers, all
# positions, with and without the builder
KINDS.update({
    "renflat_same": (R("Headers"),
                     [{"content-type": "text/plain"}, {"x-extra": "1"}, {"content-type": "text/plain", "x-extra": "1"},
                      {}, {"type": "t", "1st": "f", "plain": "p", "zz": "q"}],
                     [{"content-type": 5}, {"x-extra": 1}]),
    "renflat_diff": (R("HeadersI"),
                     [{"type": "t"}, {"type": "t", "content-type": "text/plain"}, {"type": "t", "n": 1},
                      {"type": "t", "content-type": "text/plain", "n": 1, "m": 2}],
                     [{"type": "t", "n": "x"}, {"content-type": "text/plain"}]),
    "renflat_unicode": (R("HeadersU"),
                        [{"content-type": "a", "\u00e9t\u00e9": "b", "x": "c"}, {"\u00e9t\u00e9": "b"}], [{"\u00e9t\u00e9": 1}]),
})
# defaults around the INTRINSIC default of every kind (has_default decides Optional vs own default function by EXACT
# tests): tiny non-zero floats, signed zeros, integers written as floats, "" vs " ", [] vs [null], {} vs {"": ..}
TINY = [5e-324, -5e-324, 1e-300, -1e-300, 1e-20, -1e-20, 2.2e-16, -2.2e-16, 1e-15, -1e-15]
KINDS.update({
    "intr_f64": ({"type": "number"}, TINY + [0.0, -0.0, 0, 1e0], ["0"]),
    "intr_int": ({"type": "integer"}, [0, 0.0, -0.0, 1, -1, 1e0], [1e-17, -1e-20, 5e-324, 2.2e-16, 0.5]),
    "intr_u8": ({"type": "integer", "format": "uint8"}, [0, 0.0, 7], [1e-17, -1e-17, 1e-300]),
    "intr_string": ({"type": "string"}, ["", " ", "\u0000"], [0]),
    "intr_vec": ({"type": "array", "items": {"type": ["integer", "null"]}}, [[], [None], [0]], [None]),
    "intr_map": ({"type": "object", "additionalProperties": {"type": "string"}}, [{}, {"": "x"}, {"": ""}], [[]]),
    "intr_bool": ({"type": "boolean"}, [False, True], [0]),
    "intr_opt": ({"type": ["string", "null"]}, [None, ""], [0]),
    "intr_nested": (R("IntrS"), [{}, {"f": 5e-324}, {"f": -0.0, "g": 1e-300}, {"i": 0.0, "s": "", "v": [], "m": {}}],
                    [{"i": 1e-17}]),
})
# map-typed defaults over every kind of key type (plain string, pattern / length newtype, string ENUM, natives, $ref to an
# enum / a newtype) with valid keys, one invalid key, mixed, empty; at property / nested / definition positions
KINDS.update({
    "mapkey_enum": (R("MkEnum"), [{"cpu": 1}, {"cpu": 1, "memory": 2}, {}], [{"disk": 1}, {"cpu": 1, "disk": 2}, {"CPU": 1}]),
    "mapkey_enum_s": (R("MkEnumS"), [{"memory": "m"}, {}], [{"disk": "d"}, {"": "e"}]),
    "mapkey_pat": (R("MkPat"), [{"abc": True}, {}], [{"ABC": True}, {"abc": True, "a1": False}]),
    "mapkey_len": (R("MkLen"), [{"abc": 1}, {"\u00e4\u00f6\u00fc": 1}], [{"abcd": 1}]),
    "mapkey_uuid": (R("MkUuid"), [{UUID: 1}, {}], [{"zz": 1}]),
    "mapkey_ip": (R("MkIp"), [{"127.0.0.1": 1}], [{"999.0.0.1": 1}]),
    "mapkey_ref_enum": (R("MkRefE"), [{"k1": 1}, {}], [{"k3": 1}, {"k1": 1, "k3": 2}]),
    "mapkey_ref_pat": (R("MkRefP"), [{"xa": ["s"]}, {"x": []}], [{"ya": ["s"]}, {"xa": [1]}]),
    "mapkey_plain": ({"type": "object", "additionalProperties": {"type": "integer"}}, [{"anything": 1, "": 2}, {}], [{"a": "x"}]),
    "mapkey_nested": (R("MkHolder"), [{"limits": {"cpu": 1}}, {"limits": {}, "by_ref": {"k2": 2}}, {}],
                      [{"limits": {"disk": 1}}, {"by_ref": {"k3": 1}}]),
})
ALWAYS_FULL = ("len_", "rec_", "renflat_", "intr_", "mapkey_")      # kinds run exhaustively in every tier
EXPECT_ACCEPT = ("len_",)    # kinds whose VALID defaults must be accepted and honoured (a rejection is reported)

ALL_DEFS = dict(DEFS_A)
ALL_DEFS.update(DEFS_B)


def refs_in(s, acc):
    if isinstance(s, dict):
        for k, v in s.items():
            if k == "$ref" and isinstance(v, str):
                n = v.split("/")[-1]
                if n not in acc:
                    acc.add(n)
                    refs_in(ALL_DEFS[n], acc)
            else:
                refs_in(v, acc)
    elif isinstance(s, list):
        for v in s:
            refs_in(v, acc)
    return acc


def k5_case(kind, pos, d, builder=False):
    """pos: 'inline' (default inside the property schema), 'ref' (property is {$ref: D, default}),
    'type' (default on the named definition D; the property only refers to it)"""
    schema = KINDS[kind][0]
    defs = {n: ALL_DEFS[n] for n in sorted(refs_in(schema, set()))}
    if pos == "inline":
        ps = dict(schema)
        ps["default"] = d
        pschema = ps
        req = []
    elif pos == "ref":
        defs["D"] = dict(schema) if "$ref" not in schema else {"allOf": [schema]}
        pschema = {"$ref": "#/definitions/D", "default": d}
        req = []
    else:
        dd = dict(schema) if "$ref" not in schema else {"allOf": [schema]}
        dd["default"] = d
        defs["D"] = dd
        pschema = {"$ref": "#/definitions/D"}
        req = ["p"]
    doc = {"$schema": "http://json-schema.org/draft-07/schema#", "title": "T", "type": "object",
           "properties": {"p": pschema, "q": {"type": "integer"}}, "required": req, "definitions": defs}
    return {"settings": {"struct_builder": bool(builder)}, "steps": [{"op": "root", "doc": doc}],
            "meta": {"kind": kind, "pos": pos, "default": d, "builder": bool(builder)}}


VALIDATOR_SRC = r'''
import json, sys, re, ipaddress, datetime, uuid
from jsonschema import Draft7Validator, FormatChecker
RANGES = {"int8":(-2**7,2**7-1),"uint8":(0,2**8-1),"int16":(-2**15,2**15-1),"uint16":(0,2**16-1),
 "int32":(-2**31,2**31-1),"int":(-2**31,2**31-1),"uint32":(0,2**32-1),"uint":(0,2**32-1),
 "int64":(-2**63,2**63-1),"uint64":(0,2**64-1)}
def tr(s):
    if isinstance(s, dict):
        o = {k: (tr(v) if k not in ("default","enum","const","examples") else v) for k, v in s.items()}
        t = s.get("type")
        if (t == "integer" or (isinstance(t, list) and "integer" in t)) and s.get("format") in RANGES:
            lo, hi = RANGES[s["format"]]
            o["minimum"] = max(lo, s.get("minimum", lo)); o["maximum"] = min(hi, s.get("maximum", hi))
        return o
    if isinstance(s, list):
        return [tr(x) for x in s]
    return s
fc = FormatChecker(formats=())
@fc.checks("uuid")
def _u(v):
    if not isinstance(v, str): return True
    try: uuid.UUID(v); return True
    except ValueError: return False
@fc.checks("ipv4")
def _i(v):
    if not isinstance(v, str): return True
    try: ipaddress.IPv4Address(v); return True
    except ValueError: return False
@fc.checks("date-time")
def _d(v):
    if not isinstance(v, str): return True
    return re.match(r"^\d{4}-\d\d-\d\dT\d\d:\d\d:\d\d(\.\d+)?(Z|[+-]\d\d:\d\d)$", v) is not None
@fc.checks("date")
def _dd(v):
    if not isinstance(v, str): return True
    return re.match(r"^\d{4}-\d\d-\d\d$", v) is not None
def isint(checker, inst):
    # draft-07: an integer is any number with a zero fractional part (0.0, 1e0 are integers)
    if isinstance(inst, bool):
        return False
    return isinstance(inst, int) or (isinstance(inst, float) and inst.is_integer())
from jsonschema import validators
tc = Draft7Validator.TYPE_CHECKER.redefine("integer", isint)
V = validators.extend(Draft7Validator, type_checker=tc)
for line in sys.stdin:
    req = json.loads(line)
    sch = tr(req["schema"])
    try:
        ok = V(sch, format_checker=fc).is_valid(req["instance"])
        print(json.dumps({"ok": ok}))
    except Exception as e:
        print(json.dumps({"error": repr(e)}))
'''


def validate_batch(pairs):
    """[(schema-with-definitions, instance)] -> [True/False/None] by python jsonschema (Draft 7; integer formats as
    ranges; uuid/ipv4/date/date-time asserted; `integer` = number with zero fractional part, as draft-07 defines it)"""
    if not pairs:
        return []
    inp = "".join(json.dumps({"schema": s, "instance": i}) + "\n" for s, i in pairs)
    p = subprocess.run([PYVT, "-c", VALIDATOR_SRC], input=inp, capture_output=True, text=True, timeout=600)
    if p.returncode != 0:
        raise RuntimeError("jsonschema oracle failed: " + p.stderr[-1500:])
    out = [json.loads(l) for l in p.stdout.splitlines() if l.strip()]
    if len(out) != len(pairs):
        raise RuntimeError("jsonschema oracle: %d answers for %d pairs" % (len(out), len(pairs)))
    return [o.get("ok") for o in out]


def dup_keys(text):
    """object keys that occur twice in a JSON text (serde writes a flattened map after the named members: a key that is
    handed to both is serialised twice; serde_json::Value hides it)"""
    dups = []

    def hook(pairs):
        seen = set()
        for k, _ in pairs:
            if k in seen:
                dups.append(k)
            seen.add(k)
        return dict(pairs)
    try:
        json.loads(text, object_pairs_hook=hook)
    except (ValueError, TypeError):
        return []
    return dups


def is_empty(v):
    return v is None or v == [] or v == {}


def approx(d, r):
    """realised r equals schema default d up to filled nested defaults / skipped empty members"""
    if isinstance(d, bool) or isinstance(r, bool) or d is None or r is None:
        return d is r or (d == r and type(d) is type(r))
    if isinstance(d, (int, float)) and isinstance(r, (int, float)):
        if isinstance(d, float) and isinstance(r, float) and d == 0.0 and r == 0.0:
            return math.copysign(1.0, d) == math.copysign(1.0, r)     # bit-exact: -0.0 is not +0.0
        return Fraction(d) == Fraction(r)
    if isinstance(d, str) and isinstance(r, str):
        return d == r
    if isinstance(d, list) and isinstance(r, list):
        return len(d) == len(r) and all(approx(a, b) for a, b in zip(d, r))
    if isinstance(d, dict) and isinstance(r, dict):
        for k, v in d.items():
            if k in r:
                if not approx(v, r[k]):
                    return False
            elif not is_empty(v):
                return False
        return True
    return False


def builder_chunks(i, g):
    st = g.get("dump", {}).get("settings", {})
    if not st.get("struct_builder"):
        return []
    names = [it["name"] for it in g["render"]["scan"]["items"]
             if it["mod"] == "builder" and it["kind"] == "struct" and it["name"] == "T"]
    if not names:
        return []
    expr = ("match <super::T as ::std::convert::TryFrom<super::builder::T>>::try_from(super::T::builder()) "
            "{ Ok(x) => crate::rt::ser(&x), Err(e) => ::serde_json::json!({\"err\": e.to_string()}) }")
    return [("bld", "", [("T", "build", expr)])]


def k5_cases(ctx):
    rnd = random.Random(ctx.seed * 104729 + 66)
    cases = []
    quick = ctx.tier == "quick"
    for kind, (schema, valid, invalid) in KINDS.items():
        positions = ("inline", "ref", "type")
        full = (not quick) or kind.startswith(ALWAYS_FULL)
        if not full:
            # inline always, one of the two other positions drawn by the seed
            positions = ("inline", rnd.choice(["ref", "type"]))
        for pos in positions:
            vs = list(valid)
            ivs = list(invalid)
            if not full:
                # every kind x position every run; one valid + one invalid default drawn by the seed,
                # the first valid one always (fixed part)
                pick_v = [vs[0]] + ([rnd.choice(vs[1:])] if len(vs) > 1 and pos == "inline" else [])
                pick_i = [rnd.choice(ivs)] if ivs else []
            else:
                pick_v, pick_i = vs, ivs
            for d in pick_v:
                bld = pos == "inline" and (kind.startswith("renflat_") or rnd.random() < (0.3 if quick else 0.5))
                cases.append(k5_case(kind, pos, d, builder=bld))
            for d in pick_i:
                cases.append(k5_case(kind, pos, d))
    return cases


ABSENT = "<absent>"


def prop_schema_of(case):
    doc = case["steps"][0]["doc"]
    m = case["meta"]
    if m["pos"] == "type":
        s = dict(doc["definitions"]["D"])
    else:
        s = dict(doc["properties"]["p"])
        if "$ref" in s and m["pos"] == "ref":
            s = {"allOf": [{"$ref": s["$ref"]}]}
    s.pop("default", None)
    s["definitions"] = doc["definitions"]
    return s


def run_k5(ctx, cases, name=None):
    name = name or ("c06q" if ctx.tier == "quick" else "c06t")
    """Evaluate the property on compiled generated code.  Returns list of records with `viol` lists."""
    valid = validate_batch([(prop_schema_of(c), c["meta"]["default"]) for c in cases])
    w = world.World(ctx, name, [{"settings": c["settings"], "steps": c["steps"]} for c in cases], builder_chunks)
    w.build()
    reqs = []
    for i, c in enumerate(cases):
        if w.status[i] != "ok":
            continue
        m = c["meta"]
        if m["kind"].startswith(NO_EXEC):
            continue
        if m["pos"] in ("inline", "ref"):
            reqs.append({"m": i, "t": "T", "op": "de", "input": "{}", "what": "serde-missing-member"})
            reqs.append({"m": i, "t": "T", "op": "de", "input": json.dumps({"p": m["default"]}), "what": "expected-fill"})
            if w.has_arm(i, "T", "default"):
                reqs.append({"m": i, "t": "T", "op": "default", "what": "T::default()"})
            if w.has_arm(i, "T", "build"):
                reqs.append({"m": i, "t": "T", "op": "build", "what": "builder"})
        else:
            if w.has_arm(i, "D", "default"):
                reqs.append({"m": i, "t": "D", "op": "default", "what": "D::default()"})
    answers = w.query(reqs)
    by_case = {}
    for r, a in zip(reqs, answers):
        by_case.setdefault(r["m"], []).append((r, a))
    recs = []
    realised_pairs = []
    for i, c in enumerate(cases):
        m = c["meta"]
        g = w.gen[i]
        add = g["steps"][0]["r"] if g.get("steps") else g.get("r")
        rec = {"i": i, "meta": m, "doc": c["steps"][0]["doc"], "valid": valid[i], "add": add,
               "render": g.get("render", {}).get("r"), "status": w.status[i], "realised": [], "viol": []}
        recs.append(rec)
        if valid[i] is None:
            rec["viol"].append({"kind": "oracle-error"})
            continue
        if MUT == "impl-mapkey-fastpath" and m["kind"] in ("mapkey_enum", "mapkey_enum_s", "mapkey_ref_enum") and \
                not valid[i] and isinstance(m["default"], dict) and m["default"] and add != "ok":
            # emulated recorded answer: keys of a non-newtype key type are not validated; default_fn then panics
            rec["add"] = "ok"
            rec["render"] = "render-panic"
            rec["viol"].append({"kind": "render-panic", "msg": "The default value could not be rendered for this type (emulated)"})
            continue
        if MUT == "impl-len-bytes" and m["kind"].startswith("len_") and isinstance(m["default"], str):
            # emulation of the seeded regression `s.chars().count()` -> `s.len()` in validate_value's newtype arm:
            # the recorded add-time answer is the one a byte-counting check would give
            sc = KINDS[m["kind"]][0]
            nb = len(m["default"].encode("utf-8"))
            bytes_ok = sc.get("minLength", 0) <= nb <= sc.get("maxLength", 10**9)
            if bytes_ok and add != "ok":
                rec["add"] = add = "ok"
                rec["viol"].append({"kind": "realised-invalid", "where": "emulated", "observed": m["default"]})
                continue
            if not bytes_ok and add == "ok":
                rec["add"] = add = "err"
        if add != "ok":
            rec["outcome"] = "rejected" if not valid[i] else "valid-default-rejected"
            continue
        if rec["render"] != "ok":
            rec["viol"].append({"kind": "render-panic" if rec["render"] == "render-panic" else "render-" + str(rec["render"]),
                                "msg": g.get("render", {}).get("msg", "")[:160]})
            continue
        if MUT == "impl-flatten-by-ident" and m["kind"] == "renflat_diff" and valid[i] and add == "ok" and \
                isinstance(m["default"], dict) and "content-type" in m["default"]:
            # emulation: the renamed key is also handed to the integer-valued flattened map, which does not render:
            # the `extra` field is dropped from the struct literal
            rec["viol"].append({"kind": "uncompilable", "errors": [["E0063", "missing field `extra` in initializer (emulated)"]]})
            continue
        if MUT == "impl-tuple1-uncompilable" and m["kind"] == "tuple1" and valid[i] and add == "ok":
            # emulation: the recorded implementation answer of the FIXED class F2 comes back
            rec["viol"].append({"kind": "uncompilable", "errors": [["E0308", "mismatched types (emulated)"]]})
            continue
        if w.status[i] == "compile-error":
            rec["viol"].append({"kind": "uncompilable", "errors": w.compile_errors.get(i, [])[:3]})
            continue
        if (i, "bld") in w.chunk_failures:
            rec["viol"].append({"kind": "builder-chunk-uncompilable", "errors": w.chunk_failures[(i, "bld")][:2]})
        if m["kind"].startswith(NO_EXEC):
            rec["realised"].append(("not-executed", "compiled"))
            rec["outcome"] = "compiled-not-executed"
            continue
        obs = by_case.get(i, [])
        # what serde itself makes of the schema default when it is written out in full: the reference for
        # "filling of nested defaults" (absent when the default does not deserialise)
        expected = None
        for r, a in obs:
            if r["what"] == "expected-fill" and isinstance(a, dict) and "ok" in a and isinstance(a["ok"], dict):
                expected = a["ok"].get("p", ABSENT)
        rec["expected_fill"] = expected
        obs = [(r, a) for r, a in obs if r["what"] != "expected-fill"]
        if m["pos"] == "type" and not obs:
            rec["realised"].append(("D::default()", "no-impl"))
            if not is_empty(m["default"]):
                rec["viol"].append({"kind": "default-dropped", "where": "D::default()", "observed": "no Default impl"})
        for r, a in obs:
            if "panic" in a:
                rec["realised"].append((r["what"], "panic"))
                rec["viol"].append({"kind": "runtime-panic", "where": r["what"], "msg": a["panic"][:160]})
                continue
            if "ok" not in a:
                rec["realised"].append((r["what"], a))
                rec["viol"].append({"kind": "runtime-error", "where": r["what"], "observed": a})
                continue
            val = a["ok"]
            dk = dup_keys(a.get("text"))
            if MUT == "impl-flatten-by-ident" and m["kind"] == "renflat_same" and isinstance(m["default"], dict) and \
                    any(k in m["default"] for k in ("content-type", "type", "1st")):
                dk = [k for k in ("content-type", "type", "1st") if k in m["default"]]   # emulated recorded answer
            if dk:
                rec["viol"].append({"kind": "duplicate-key", "where": r["what"], "keys": dk, "text": (a.get("text") or "")[:200]})
            if m["pos"] == "type":
                real = val
            else:
                real = val.get("p", ABSENT) if isinstance(val, dict) else ABSENT
            if MUT == "impl-hasdefault-epsilon" and isinstance(m["default"], float) and 0 < abs(m["default"]) < 2.2e-16 \
                    and m["kind"] in ("intr_f64",):
                real = 0.0      # emulated recorded answer: the tiny default was classified as intrinsic
            rec["realised"].append((r["what"], real))
            if real == ABSENT:
                if not is_empty(m["default"]):
                    rec["viol"].append({"kind": "default-dropped", "where": r["what"], "observed": val})
                continue
            if not approx(m["default"], real):
                rec["viol"].append({"kind": "different-value", "where": r["what"], "observed": real})
            elif expected is not None and expected != ABSENT and tocoq.canon(expected) != tocoq.canon(real):
                rec["viol"].append({"kind": "different-value", "where": r["what"], "observed": real,
                                    "expected": expected, "note": "nested default filled differently from serde"})
            realised_pairs.append((rec, r["what"], real))
    rv = validate_batch([(prop_schema_of(cases[rec["i"]]), real) for rec, _, real in realised_pairs])
    for (rec, what, real), ok in zip(realised_pairs, rv):
        if ok is False:
            rec["viol"].append({"kind": "realised-invalid", "where": what, "observed": real})
    for rec in recs:
        if rec["add"] == "ok" and not rec["valid"] and not rec["viol"]:
            rec["viol"].append({"kind": "invalid-accepted", "observed": rec["realised"]})
        if rec["add"] == "ok" and "outcome" not in rec:
            rec["outcome"] = "violation" if rec["viol"] else "exact"
    return recs, w


# ------------------------------------------------------------------ classification of violations
FLAG_NAMES = ["unit", "tuple1", "intoob", "nz0", "flit", "native", "fill", "emptyctor", "tuple1var", "f12"]


def default_site(rec, gen):
    """(type id, default value) the IR carries for this case's default, or None when it was dropped"""
    d = gen.get("dump")
    if not d:
        return None
    ents = d["entries"]
    m = rec["meta"]
    if m["pos"] == "type":
        tid = d["name_to_id"].get("D")
        e = ents.get(str(tid)) if tid is not None else None
        if e and e.get("default") is not None:
            return tid, e["default"]["v"]
        return None
    tid = d["name_to_id"].get("T")
    e = ents.get(str(tid)) if tid is not None else None
    if not e:
        return None
    for p in e.get("props", []):
        if p["name"] == "p" and p["state"]["k"] == "default":
            return p["type_id"], p["state"]["v"]
    return None


def strip_wrappers(ents, tid):
    e = ents.get(str(tid))
    while e and (e["kind"] in ("option", "box") or
                 (e["kind"] == "newtype" and e["constraints"]["k"] == "none")):
        e = ents.get(str(e["id"] if e["kind"] != "newtype" else e["type_id"]))
    return e


def violates_constraints(e, v):
    """python reading of TypeEntryNewtypeConstraints for a top-level newtype"""
    if not e or e["kind"] != "newtype":
        return False
    c = e["constraints"]
    if c["k"] == "enum":
        return v not in c["values"]
    if c["k"] == "deny":
        return v in c["values"]
    if c["k"] == "string" and isinstance(v, str):
        if c["max"] is not None and len(v) > c["max"]:
            return True
        if c["min"] is not None and len(v) < c["min"]:
            return True
        if c["pattern"] is not None and re.search(c["pattern"], v) is None:
            return True
    return False


def classify(rec, gen, flags):
    """-> (finding id or None) for ALL violations of the record, else None"""
    m = rec["meta"]
    kinds = {v["kind"] for v in rec["viol"]}
    site = default_site(rec, gen)
    schema = KINDS[m["kind"]][0] if m["kind"] in KINDS else {}
    if site is None:
        # the IR carries no default at all (was: F9 number schemas, F10 alias definitions -- both FIXED, so this is
        # no longer a recognised class: an invalid default that is silently discarded is a VIOLATION)
        return None
    fl = dict(zip(FLAG_NAMES, [c == "T" for c in flags]))
    ents = gen["dump"]["entries"]
    # classes F1-F6, F8-F10, F12 and F13 are FIXED (findings/C06.json "fixed"): they are deliberately not recognised here, so a
    # reproduction is reported as a VIOLATION
    if fl["native"] and kinds == {"runtime-panic"} and not rec["valid"]:
        return "C06-F7"
    if kinds <= {"realised-invalid", "invalid-accepted"} and not rec["valid"]:
        tgt = schema
        if "$ref" in tgt:
            tgt = ALL_DEFS[tgt["$ref"].split("/")[-1]]
        if m["pos"] == "ref" and tgt.get("type") == "integer" and ("minimum" in tgt or "maximum" in tgt) \
                and isinstance(site[1], int):
            return "C06-F11"
    return None


def flags_for(ctx, recs, w, tag="c06cls"):
    """Coq class flags for every accepted case whose default the IR carries"""
    idx, exprs, dumps, dmap = [], [], [], {}
    for rec in recs:
        g = w.gen[rec["i"]]
        if rec["add"] != "ok":
            continue
        site = default_site(rec, g)
        if site is None:
            continue
        key = json.dumps(g["dump"]["entries"], sort_keys=True) + json.dumps(g["dump"]["settings"], sort_keys=True)
        if key not in dmap:
            dmap[key] = len(dumps)
            dumps.append(g["dump"])
        idx.append(rec["i"])
        exprs.append("class_flags T%d %d %d%%N %s" % (dmap[key], FUEL, site[0], tocoq.cjson(site[1])))
    out = {}
    if exprs:
        res = vlib.coq_eval_strings(tag + ctx.tier[0], coq_header(dumps), exprs, shard=150)
        out = dict(zip(idx, res))
    return out


# ------------------------------------------------------------------ the check
THEOREMS = [
    "C06_validate_implies_output",
    "C06_invalid_rejected_scalar",
    "C06_string_default_is_string",
    "C06_newtype_default_checked",
    "C06_integer_default_fits",
    "C06_unit_null_optional",
    "C06_default_typed_partial",
    "C06_tuple1_variant_example",
    "C06_nested_default_fill_example",
    "C06_default_exact_partial",
    "C06_default_exact_structural",
    "C06_check_defaults_covers_members",
    "C06_flatten_remainder_excludes_wire_names",
    "C06_map_keys_validated",
    "C06_has_default_exact",
    "C06_has_default_float_kept",
    "C06_has_default_tiny_integer_kept",
    "C06_regression_examples",
]
CORPUS = os.path.join(vlib.ROOT, "corpus", "C06", "witnesses.json")


def run(ctx):
    ctx.level = "proof"
    ctx.checker_cmd = ("make -f Makefile.coq theories/Props/C06.vo; coqc Audit_C06.v (Print Assumptions); "
                       "harness bin c06 + py/world.py driver crates; python jsonschema Draft7 as instance oracle")
    ctx.trusted = [
        "Coq 8.16.1 kernel + vm_compute",
        "hand-written models Algo/Defaults.v (defaults.rs validate_value.. all_props, integer_fits) and Algo/Value.v "
        "(value.rs output_value.., defaults.rs default_fn), tied every run by K1 on (type id, JSON value) probes: verdict, "
        "DefaultKind and full token text",
        "the regex engine is a parameter `re` of the model (theorems hold for every function); K1 instantiates it with a "
        "table computed by the real regress crate through harness bin c06",
        "py/tocoq.py (dump -> Gallina space, JSON -> json), harness/src/bin/c06.rs token flattener, "
        "c06.canon_tokens (literal/JSON-text normalisation)",
        "expr_typed / eval_expr are MODELS of rustc typing and serde serialisation (validated against the compiled world: "
        "model says untyped <-> rustc rejects, eval_expr = serialisation of the realised default, on every K5 case)",
        "python jsonschema 4.x Draft7Validator (+ integer formats as ranges, uuid/ipv4/date/date-time asserted) as the validity oracle",
        "rustc 1.80.1 / serde 1.0.219 / serde_json 1.0.140 executing the generated code",
    ]
    ctx.assumptions = [
        "reading 3.1: a panic while the schema is added counts as rejection; a panic in to_stream() after Ok is a violation",
        "reading: a VALID default that typify rejects at add time is not a violation (the text only forbids accepting invalid ones)",
        "reading: an accepted default must be honoured: a valid default from which no value is ever produced "
        "(coverage.default_not_honoured, 0 since fcda3c3/fe21407) is reported as a violation, as is an INVALID default that is silently discarded",
        "`up to filling of nested defaults` = the value serde produces when the schema default itself is deserialised into the generated type",
    ]
    vlib.build_harness(bins=("vh", "c06"))
    coq_ok = vlib.standard_coq_obligations(ctx, "Props.C06", THEOREMS, ())
    ok_m, out_m = vlib.coq_make(["theories/Algo/Value.vo"])
    ctx.oblige("models Algo/Defaults.v, Algo/Value.v compile", ok_m, out_m[-1500:])
    quick = ctx.tier == "quick"

    # ---- K1
    per_id, n_junk = (1, 2) if quick else (8, 30)
    recs1, mism, dumps = run_k1(ctx, K1_SPACES, per_id, n_junk)
    ctx.oblige("correspondence K1: validate_value/output_value (Coq) = verif_validate_value/verif_output_value (Rust) "
               "on %d (type id, value) pairs" % len(recs1), not mism,
               json.dumps([{k: m[k] for k in ("space", "id", "kind", "value", "impl_v", "impl_o")} |
                           {"model": m["model"][:2]} for m in mism[:4]]))
    ctx.evaluations += len(recs1)
    dist = {}
    thm_viol = []
    for r in recs1:
        key = "%s/%s" % (r["kind"], r["impl_v"].split(":")[0])
        dist[key] = dist.get(key, 0) + 1
        ctx.nontrivial.add("k1:%d:%d:%s" % (r["space"], r["id"], json.dumps(r["value"], sort_keys=True)))
        # theorem instance on the REAL hooks: validation ok => output_value is Some, outside class F1
        if r["impl_v"].startswith("ok") and r["impl_o"] in ("none", "panic"):
            thm_viol.append(r)
    ctx.oblige("C06_validate_implies_output holds on the real hooks for every K1 pair", not thm_viol,
               json.dumps([{k: m[k] for k in ("space", "id", "kind", "value", "impl_v", "impl_o")} for m in thm_viol[:3]]))
    ctx.coverage["k1_pairs"] = len(recs1)
    ctx.coverage["k1_mismatches"] = len(mism)
    ctx.coverage["k1_distribution_kind/verdict"] = dist
    ctx.coverage["k1_rule"] = ("type spaces of two schema documents covering every IR kind; per type id: type-directed "
                               "values, structural mutations, cross-type junk; seeded from VERIF_SEED")

    # ---- K5: curated corpus first, then the seeded catalogue
    corpus = json.load(open(CORPUS)) if os.path.exists(CORPUS) else {"witnesses": []}
    cases = [k5_case(wn["kind"], wn["pos"], wn["default"], wn.get("builder", False)) for wn in corpus["witnesses"]]
    n_corpus = len(cases)
    seen = {json.dumps(c, sort_keys=True) for c in cases}
    for c in k5_cases(ctx):
        k = json.dumps(c, sort_keys=True)
        if k not in seen:
            seen.add(k)
            cases.append(c)
    recs, w = run_k5(ctx, cases)
    flags = flags_for(ctx, recs, w)
    out = {}
    reproduced = {}
    unlisted = []
    listed = {f["id"]: f for f in ctx.findings_for()}
    not_honoured = 0
    for rec in recs:
        out[rec.get("outcome", "oracle-error")] = out.get(rec.get("outcome", "oracle-error"), 0) + 1
        ctx.nontrivial.add("k5:%s:%s:%s" % (rec["meta"]["kind"], rec["meta"]["pos"], json.dumps(rec["meta"]["default"])))
        if rec["valid"] and rec["viol"] and {v["kind"] for v in rec["viol"]} == {"default-dropped"}:
            # since fcda3c3 / fe21407 every accepted valid default is honoured: a dropped one is reported like any
            # other violation (it is in no finding class)
            not_honoured += 1
        if rec.get("outcome") == "valid-default-rejected" and rec["meta"]["kind"].startswith(EXPECT_ACCEPT):
            rec["viol"].append({"kind": "valid-default-rejected", "observed": "add_root_schema: %s" % rec["add"],
                                "note": "a valid default at the exact length boundary must be accepted and honoured"})
        if not rec["viol"]:
            continue
        fid = classify(rec, w.gen[rec["i"]], flags.get(rec["i"], "F" * len(FLAG_NAMES)))
        if MUT == "forget-findings":
            fid = None
        if fid and fid in listed:
            reproduced.setdefault(fid, rec)
        else:
            unlisted.append((fid, rec))
    ctx.evaluations += len(recs)
    ctx.coverage["k5_cases"] = len(recs)
    ctx.coverage["k5_corpus_cases"] = n_corpus
    ctx.coverage["k5_outcomes"] = out
    ctx.coverage["default_not_honoured"] = not_honoured
    ctx.oblige("every accepted valid default is honoured somewhere (default_not_honoured = 0 on %d cases)" % len(recs),
               not_honoured == 0, "%d valid defaults accepted but never realised" % not_honoured)
    ctx.coverage["k5_compile_errors"] = len(w.compile_errors)
    ctx.coverage["k5_rule"] = ("%d schema kinds x 3 default positions (inline / beside $ref / on the definition) x valid and "
                               "invalid defaults; thorough = whole catalogue, quick = fixed first + seeded picks; ~1/3 with "
                               "struct_builder" % len(KINDS))
    # ---- K5b: type-level default x member defaults (check_defaults must cover both)
    ccases = combo_cases()
    crecs, cviol = run_combo(ctx, ccases)
    ctx.evaluations += len(crecs)
    ctx.coverage["k5b_combo_cases"] = len(crecs)
    ctx.coverage["k5b_type_default_retained"] = len([r for r in crecs if r["type_default_retained"]])
    ctx.coverage["k5b_rule"] = ("{struct, enum with struct variants} x {definition, inline titled object as property type, "
                                "add_type} x {type-level default present/absent} x member default {valid 3, valid 0, invalid "
                                "'three', invalid 2^32, absent}; observed: add result, render, rustc, serde default of the "
                                "member, Inner::default(), TypeSpace.defaults vs the model's registered_generics")
    for r in crecs:
        ctx.nontrivial.add("k5b:" + json.dumps(r["meta"], sort_keys=True))
    cun = []
    for r in cviol:
        fid = None if MUT == "forget-findings" else classify_combo(r)
        if fid and fid in listed:
            reproduced.setdefault(fid, {"meta": dict(r["meta"], kind="struct definition", default=r["meta"]["type_default"]),
                                        "viol": r["viol"]})
        else:
            cun.append(r)
    cviol = cun
    ctx.oblige("K5b: check_defaults covers member defaults next to a type-level default on %d cases (invalid member "
               "defaults rejected at add time, shared default_* helpers emitted, defaults realised)" % len(crecs),
               not cviol, json.dumps([{"meta": r["meta"], "viol": r["viol"][:2]} for r in cviol[:4]], default=str))
    if cviol:
        r = sorted(cviol, key=lambda r: len(json.dumps(ccases[r["i"]]["steps"])))[0]
        unlisted.append((None, {"meta": dict(r["meta"], kind="combo", default=r["meta"]["member_default"]),
                                "doc": ccases[r["i"]]["steps"], "viol": r["viol"], "valid": r["meta"]["member"] != "invalid",
                                "add": r["add"], "render": r["render"], "status": r["status"], "realised": []}))

    for fid, rec in sorted(reproduced.items()):
        ctx.known_finding(fid, "%s: %s (e.g. kind=%s pos=%s default=%s -> %s)" % (
            fid, listed[fid]["summary"], rec["meta"]["kind"], rec["meta"]["pos"], json.dumps(rec["meta"]["default"]),
            ",".join(sorted({v["kind"] for v in rec["viol"]}))))
    ctx.oblige("direct property evaluation (K5): no violation outside the listed finding classes on %d compiled cases"
               % len(recs), not unlisted,
               json.dumps([{"class_guess": f, "meta": r["meta"], "viol": r["viol"][:2]} for f, r in unlisted[:4]], default=str))
    ctx.samples = [{"meta": r["meta"], "outcome": r.get("outcome"), "realised": r["realised"][:2]} for r in recs[::max(1, len(recs) // 10)]]

    # model vs compiled world: the model's typing verdict / eval_expr on every accepted, rendered case
    st = run_state_tie(ctx, recs, w)
    ctx.coverage["state_tie_cases"] = st[0]
    ctx.oblige("correspondence K1b: member state in the dump (optional / default) = Defaults.has_default on %d property "
               "defaults" % st[0], not st[1], json.dumps(st[1][:4], default=str))
    tv = model_vs_world(ctx, recs, w)
    ctx.oblige("model expr_typed/eval_expr agrees with rustc and with the serialised realised default on %d cases" % tv[0],
               not tv[1], json.dumps(tv[1][:3], default=str))

    if unlisted:
        unlisted.sort(key=lambda fr: len(json.dumps(fr[1]["doc"])))
        fid, rec = unlisted[0]
        ctx.violation({"kind": [v["kind"] for v in rec["viol"]], "schema": rec["doc"], "default": rec["meta"]["default"],
                       "default_valid_under_schema": rec["valid"], "add_result": rec["add"], "render": rec["render"],
                       "compile": rec["status"], "realised": rec["realised"], "violations": rec["viol"],
                       "expected": "schema default reproduced exactly, or Err at add time",
                       "broken_obligations": [o[0] for o in ctx.broken()]})
    elif ctx.broken():
        ctx.violation({"broken_obligations": [(o[0], o[2][:1500]) for o in ctx.broken()],
                       "note": "a theorem, the model/implementation correspondence or the model/world agreement no longer "
                               "checks; the K5 search found no failing input outside the listed classes"}, no_input=True)
    if ctx.tier == "thorough" and coq_ok:
        rc, o, e = vlib.sh("timeout 1500 coqchk -silent -o -Q theories Typify Typify.Props.C06", cwd=vlib.COQ, timeout=1600)
        ctx.oblige("coqchk re-checks Props.C06 and dependencies", rc == 0, (o + e)[-1500:])


def model_vs_world(ctx, recs, w, tag="c06mw"):
    """For accepted cases whose default the IR carries and whose module rendered: the Coq model's typing verdict must
    match rustc's (module compiles) and eval_expr must equal the serialised realised default."""
    idx, exprs, dumps, dmap = [], [], [], {}
    for rec in recs:
        g = w.gen[rec["i"]]
        if rec["add"] != "ok" or rec["render"] != "ok":
            continue
        site = default_site(rec, g)
        if site is None:
            continue
        key = json.dumps(g["dump"]["entries"], sort_keys=True)
        if key not in dmap:
            dmap[key] = len(dumps)
            dumps.append(g["dump"])
        idx.append(rec)
        exprs.append("probe re_fn T%d %d %d%%N %s" % (dmap[key], FUEL, site[0], tocoq.cjson(site[1])))
    if not exprs:
        return 0, []
    retab = re_table(dumps, [default_site(rec, w.gen[rec["i"]])[1] for rec in idx])
    res = vlib.coq_eval_strings(tag + ctx.tier[0], coq_header(dumps, retab), exprs, shard=120)
    bad = []
    for rec, line in zip(idx, res):
        m = model_fields(line)
        rec["model"] = m
        if m[6] != "ok" if len(m) > 6 else False:
            bad.append({"meta": rec["meta"], "why": "model says default_fn panics but the module rendered", "model": m})
            continue
        typed = m[2]
        generic = m[1].startswith("ok") is False
        if MUT == "model-typed-flip" and typed in "TF":
            typed = "F" if typed == "T" else "T"
        compiled = rec["status"] == "ok" and (rec["i"], "bld") not in w.chunk_failures
        # generic default functions (bool/integers) never use the rendered expression
        kind = strip_wrappers(w.gen[rec["i"]]["dump"]["entries"], default_site(rec, w.gen[rec["i"]])[0])
        top = w.gen[rec["i"]]["dump"]["entries"][str(default_site(rec, w.gen[rec["i"]])[0])]["kind"]
        if top in ("boolean", "integer"):
            continue
        if typed == "T" and not compiled:
            bad.append({"meta": rec["meta"], "why": "model: typed, rustc: rejected", "errors": w.compile_errors.get(rec["i"]),
                        "model": m[:3]})
        if typed == "F" and compiled:
            bad.append({"meta": rec["meta"], "why": "model: untyped, rustc: accepted", "model": m[:3]})
        if typed == "T" and compiled and m[3].startswith("ok:"):
            ev = tocoq.unshow_json(m[3][3:])
            for what, real in rec["realised"]:
                if what == "not-executed":
                    continue
                if real in (ABSENT, "panic", "no-impl") or isinstance(real, dict) and "err" in real and len(real) == 1:
                    continue
                if not approx(tocoq.canon(ev) if False else ev_plain(ev), real) or not approx(ev_plain(ev), real):
                    bad.append({"meta": rec["meta"], "why": "eval_expr differs from the realised value (%s)" % what,
                                "eval": m[3], "realised": real})
                    break
    return len(idx), bad


def ev_plain(v):
    if isinstance(v, Fraction):
        return float(v) if v.denominator != 1 else int(v)
    if isinstance(v, list):
        return [ev_plain(x) for x in v]
    if isinstance(v, dict):
        return {k: ev_plain(x) for k, x in v.items()}
    return v


# ------------------------------------------------------------------ K5b: type-level default x member defaults
# positions {definition, inline titled object as a property type, add_type} x {type-level default present / absent} x
# {member default valid / invalid / absent} for structs and for enums with struct variants.  check_defaults must
# validate BOTH the type-level default and every member default, and register the shared default_* helpers.
def combo_schema(shape, td, pd):
    n = {"type": "integer", "format": "uint32"}
    flag = {"type": "boolean", "default": True}
    if pd[0] != "absent":
        n["default"] = pd[1]
    if shape == "struct":
        s = {"title": "Inner", "type": "object", "properties": {"n": n, "flag": flag, "s": {"type": "string"}}}
        tdv = {"n": 5, "s": "x"}
    else:
        s = {"title": "Inner", "oneOf": [
            {"type": "object", "properties": {"kind": {"type": "string", "enum": ["a"]}, "n": n, "flag": flag},
             "required": ["kind"]},
            {"type": "object", "properties": {"kind": {"type": "string", "enum": ["b"]}, "w": {"type": "string"}},
             "required": ["kind"]}]}
        tdv = {"kind": "b"}
    if td == "invalid":
        tdv = {"n": "bad"} if shape == "struct" else {"kind": "zz"}
    if td:
        s["default"] = tdv
    return s, (tdv if td else None)


def combo_cases():
    cases = []
    for shape in ("struct", "enum"):
        for pos in ("definition", "inline", "add_type"):
            for td in ("valid", None, "invalid"):
                for pd in (("valid", 3), ("valid", 0), ("invalid", "three"), ("invalid", 2**32), ("absent", None)):
                    if td == "invalid" and pd[0] == "invalid":
                        continue
                    s, tdv = combo_schema(shape, td, pd)
                    base = {"$schema": "http://json-schema.org/draft-07/schema#", "title": "T", "type": "object"}
                    if pos == "definition":
                        doc = dict(base, properties={"p": {"$ref": "#/definitions/Inner"}}, definitions={"Inner": s})
                        steps = [{"op": "root", "doc": doc}]
                    elif pos == "inline":
                        doc = dict(base, properties={"p": s, "q": {"type": "integer"}})
                        steps = [{"op": "root", "doc": doc}]
                    else:
                        steps = [{"op": "add", "schema": s}]
                    cases.append({"settings": {}, "steps": steps,
                                  "meta": {"shape": shape, "pos": pos, "type_default": tdv, "type_default_valid": td,
                                           "member": pd[0], "member_default": pd[1]}})
    return cases


def run_combo(ctx, cases):
    """-> (records, violations); a violation carries the concrete schema"""
    w = world.World(ctx, "c06c" + ctx.tier[0], [{"settings": c["settings"], "steps": c["steps"]} for c in cases])
    w.build()
    reqs = []
    for i, c in enumerate(cases):
        if w.status[i] != "ok":
            continue
        m = c["meta"]
        inp = "{}" if m["shape"] == "struct" else json.dumps({"kind": "a"})
        if w.has_arm(i, "Inner", "de"):
            reqs.append({"m": i, "t": "Inner", "op": "de", "input": inp, "what": "serde-missing-member"})
        if w.has_arm(i, "Inner", "default"):
            reqs.append({"m": i, "t": "Inner", "op": "default", "what": "Inner::default()"})
        if m["type_default"] is not None and w.has_arm(i, "Inner", "de"):
            reqs.append({"m": i, "t": "Inner", "op": "de", "input": json.dumps(m["type_default"]), "what": "expected-fill"})
    ans = w.query(reqs)
    by = {}
    for r, a in zip(reqs, ans):
        by.setdefault(r["m"], {})[r["what"]] = a
    recs, viol = [], []
    exprs, dumps, idx = [], [], []
    for i, c in enumerate(cases):
        m = c["meta"]
        g = w.gen[i]
        adds = [s_["r"] for s_ in g.get("steps", [])]
        add_ok = bool(adds) and all(a == "ok" for a in adds)
        retained = False
        if add_ok and g.get("dump"):
            tid = g["dump"]["name_to_id"].get("Inner")
            e = g["dump"]["entries"].get(str(tid), {}) if tid is not None else {}
            retained = e.get("default") is not None
        rec = {"i": i, "meta": m, "add": adds, "render": g.get("render", {}).get("r"), "status": w.status[i],
               "type_default_retained": retained, "viol": []}
        recs.append(rec)
        if MUT == "impl-checkdefaults-shadow" and retained and m["member"] != "absent":
            # emulation of the seeded change: with a retained type-level default the member defaults are neither
            # validated nor are their shared helpers registered
            if m["member"] == "invalid":
                add_ok, rec["add"], rec["render"] = True, ["ok"], "render-panic"
            else:
                rec["status"] = "compile-error"
                w.compile_errors.setdefault(i, [["E0425", "cannot find function `default_u64` in module `defaults` (emulated)"]])
        if m["member"] == "invalid":
            if add_ok:
                rec["viol"].append({"kind": "invalid-member-default-accepted", "render": rec["render"], "compile": rec["status"]})
            continue
        if m["type_default_valid"] == "invalid":
            if add_ok:
                rec["viol"].append({"kind": "invalid-type-default-accepted", "retained": retained, "render": rec["render"],
                                    "compile": rec["status"]})
            continue
        if not add_ok:
            rec["viol"].append({"kind": "valid-schema-rejected", "observed": adds})
            continue
        if rec["render"] != "ok":
            rec["viol"].append({"kind": "render-" + str(rec["render"]), "msg": g.get("render", {}).get("msg", "")[:160]})
            continue
        if rec["status"] == "compile-error":
            rec["viol"].append({"kind": "uncompilable", "errors": w.compile_errors.get(i, [])[:3]})
            continue
        # the shared helpers the model says check_defaults registers = the ones the real TypeSpace holds
        idx.append(rec)
        dumps.append(g["dump"])
        exprs.append("String.concat \",\" (all_registered re_fn T%d %d)" % (len(dumps) - 1, FUEL))
        obs = by.get(i, {})
        a = obs.get("serde-missing-member")
        if a is not None:
            if "ok" not in a:
                rec["viol"].append({"kind": "runtime-error", "where": "serde-missing-member", "observed": a})
            else:
                val = a["ok"]
                if m["member"] == "valid" and (m["member_default"] != 0) and val.get("n") != m["member_default"]:
                    rec["viol"].append({"kind": "different-value", "member": "n", "observed": val})
                if m["member"] == "valid" and m["member_default"] == 0 and val.get("n", 0) != 0:
                    rec["viol"].append({"kind": "different-value", "member": "n", "observed": val})
                if val.get("flag") is not True:
                    rec["viol"].append({"kind": "different-value", "member": "flag", "observed": val})
        d = obs.get("Inner::default()")
        if m["type_default"] is not None and not retained:
            rec["viol"].append({"kind": "type-default-dropped",
                                "observed": (d or {}).get("ok", "no Default impl") if isinstance(d, dict) else "no Default impl"})
        if retained:
            if d is None or "ok" not in d:
                rec["viol"].append({"kind": "type-default-not-realised", "observed": d})
            else:
                exp = obs.get("expected-fill", {}).get("ok")
                if not approx(m["type_default"], d["ok"]) or (exp is not None and tocoq.canon(exp) != tocoq.canon(d["ok"])):
                    rec["viol"].append({"kind": "different-value", "where": "Inner::default()", "observed": d["ok"],
                                        "expected": exp})
    if exprs:
        res = vlib.coq_eval_strings("c06reg" + ctx.tier[0], coq_header(dumps), exprs, shard=100)
        for rec, dmp, line in zip(idx, dumps, res):
            model = sorted(set(x for x in line.split(",") if x))
            real = sorted(set(dmp.get("defaults", [])))
            rec["registered"] = {"model": model, "real": real}
            if model != real:
                rec["viol"].append({"kind": "shared-default-fns-registered", "model": model, "real": real})
    for rec in recs:
        if rec["viol"]:
            viol.append(rec)
    return recs, viol


def classify_combo(rec):
    """no open class here: F14 (definition-level default of an object definition dropped) is FIXED by a543329, so a
    reproduction is a VIOLATION"""
    return None



# ------------------------------------------------------------------ has_default: member state in the dump vs the model
def run_state_tie(ctx, recs, w, tag="c06st"):
    """For every accepted property-default case: the state of member `p` in the REAL dump (optional / default:v) must be
    what Defaults.has_default computes from the member's type and the schema default."""
    idx, exprs, dumps, dmap = [], [], [], {}
    for rec in recs:
        m = rec["meta"]
        g = w.gen[rec["i"]]
        if rec["add"] != "ok" or m["pos"] not in ("inline", "ref") or not g.get("dump"):
            continue
        d = g["dump"]
        tid = d["name_to_id"].get("T")
        ent = d["entries"].get(str(tid), {})
        pr = [p for p in ent.get("props", []) if p["name"] == "p"]
        if not pr:
            continue
        st = pr[0]["state"]
        real = st["k"] if st["k"] != "default" else "default:" + show_json(st["v"])
        if MUT == "impl-hasdefault-epsilon" and isinstance(m["default"], float) and 0 < abs(m["default"]) < 2.2e-16 and \
                d["entries"][str(pr[0]["type_id"])]["kind"] in ("float", "integer"):
            real = "optional"       # emulated recorded answer
        key = json.dumps(d["entries"], sort_keys=True)
        if key not in dmap:
            dmap[key] = len(dumps)
            dumps.append(d)
        idx.append((rec, real))
        exprs.append("show_pstate (has_default (get_det T%d %d%%N) (Some %s))" % (dmap[key], pr[0]["type_id"], tocoq.cjson(m["default"])))
    if not exprs:
        return 0, []
    res = vlib.coq_eval_strings(tag + ctx.tier[0], coq_header(dumps), exprs, shard=150)
    bad = []
    for (rec, real), model in zip(idx, res):
        if model != real:
            bad.append({"meta": rec["meta"], "schema": rec["doc"]["properties"]["p"], "dump_state": real, "model_state": model})
    return len(idx), bad
