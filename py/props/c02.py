"""C02 — every schema-valid JSON instance deserialises into the generated type.

Deciding method (DESIGN 4 C02): the verified validator `Check/Covers.v` with the
soundness theorem `C02_covers_sound` (for ALL instances) is evaluated on the
type space the real typify produced for every explored document of the
supported grammar, and the theorem is instantiated per document so the kernel
accepts "forall v, valid => accepted" for that document's real IR.  The Coq
semantics of generated code (IR/Serde.v) is tied to the compiled code (K5), the
validity specification to python jsonschema (K7).  The property itself is also
evaluated directly on compiled code with the independent oracle (this is the
failing-input search and covers the constructs the validator does not).
"""
import json
import os
import re
import time

import faithful
import k7
import tocoq
import vlib
from covers_selftest import covers_eval

PROPS = os.path.join(vlib.COQ, "theories", "Props", "C02.v")


def theorem_names(path, prefix):
    if not os.path.exists(path):
        return []
    txt = vlib.strip_coq_comments(open(path).read())
    return re.findall(r"\bTheorem\s+(%s\w+)" % prefix, txt)


def _branches(s):
    return [b for b in (s.get("oneOf") or s.get("anyOf") or []) if isinstance(b, dict) and b.get("type") == "object"]


def _unions(doc, s, depth=0, seen=None):
    """every oneOf/anyOf schema reachable from s (through refs, properties, items)"""
    seen = seen if seen is not None else set()
    if not isinstance(s, dict) or depth > 12:
        return
    if "$ref" in s:
        n = s["$ref"].split("/")[-1]
        if n in seen:
            return
        seen.add(n)
        yield from _unions(doc, doc["definitions"].get(n, {}), depth + 1, seen)
        return
    if "oneOf" in s or "anyOf" in s:
        yield s
    for k in ("oneOf", "anyOf", "allOf"):
        for b in s.get(k, []) or []:
            yield from _unions(doc, b, depth + 1, seen)
    for ps in (s.get("properties") or {}).values():
        yield from _unions(doc, ps, depth + 1, seen)
    for k in ("items", "additionalProperties"):
        x = s.get(k)
        if isinstance(x, dict):
            yield from _unions(doc, x, depth + 1, seen)
        elif isinstance(x, list):
            for y in x:
                yield from _unions(doc, y, depth + 1, seen)


def _mixed_closedness(u):
    objs = list(_branches(u))
    for b in _branches(u):
        for ps in b.get("properties", {}).values():
            if isinstance(ps, dict) and ps.get("type") == "object" and "properties" in ps:
                objs.append(ps)
    closed = [b.get("additionalProperties") is False for b in objs]
    return bool(objs) and any(closed) and not all(closed)


def known_class(ctx, ex, it):
    """Map a valid-but-rejected item to a listed finding (narrow classes)."""
    doc = ex.docs[it["m"]]
    s = doc["definitions"][it["name"]]
    ent = ex.dumps[it["m"]]["entries"].get(str(it["tid"]), {})
    err = json.dumps(it["out"])
    br = _branches(s)
    for f in ctx.findings_for():
        cls = f.get("class")
        if cls == "mixed-closedness-tagged-enum":
            # a union reachable from the definition whose inline object branches (and inline object
            # payloads) mix additionalProperties:false with open ones, converted to ONE enum that
            # carries the container-level attribute
            denying = [e for e in ex.dumps[it["m"]]["entries"].values() if e.get("kind") == "enum" and e.get("deny")]
            if denying and ("unknown field" in err or "did not match any variant" in err) and \
                    any(_mixed_closedness(u) for u in _unions(doc, s)):
                return f
        if cls == "type-name-reuse":
            # an inline object property whose derived name collides with another type name of the document
            def pas(x):
                parts = re.split(r"[^0-9A-Za-z]+", x)
                return "".join(q[:1].upper() + q[1:] for q in parts if q)
            names = {}
            def walk(name, sch, depth=0):
                if not isinstance(sch, dict) or depth > 6:
                    return
                for pk, ps in (sch.get("properties") or {}).items():
                    if isinstance(ps, dict) and ps.get("type") == "object" and "properties" in ps:
                        n2 = name + pas(pk)
                        names.setdefault(n2.lower(), []).append(("inline", n2))
                        walk(n2, ps, depth + 1)
            for dn, ds in doc["definitions"].items():
                names.setdefault(pas(dn).lower(), []).append(("def", dn))
                walk(pas(dn), ds)
            if any(len(v) > 1 and any(k == "inline" for k, _ in v) for v in names.values()) and \
                    ("missing field" in err or "unknown field" in err or "invalid type" in err):
                return f
            # exact form of the class (hook `verif::take_name_reuse`): while this document was converted,
            # assign_type resolved a named type to an EXISTING type of that name although the two differ
            # (derived names of inline enums / objects under properties, tuple items, variants …)
            reuse = (ex.world.gen[it["m"]] or {}).get("name_reuse") or []
            if reuse and any(x in err for x in ("missing field", "unknown field", "invalid type", "unknown variant",
                                                "did not match any variant", "invalid value", "invalid length")):
                # the value was read with ANOTHER type's deserialiser (a struct position read as an enum gives
                # "invalid value: map, expected map with a single key", a tuple "invalid length", …)
                return f
        if cls == "internal-document-read-as-adjacent":
            if ent.get("kind") == "enum" and ent.get("tag", {}).get("k") == "adjacent":
                content = ent["tag"]["content"]
                open_without = [b for b in br if content not in b.get("properties", {})
                                and b.get("additionalProperties") is not False]
                if open_without and isinstance(it["v"], dict) and content in it["v"]:
                    return f
    return None


def instantiate(ctx, ex, doc_ids, timeout=900):
    """One generated file: per document, `covers_all = true` by vm_compute and the
    corollary obtained from C02_covers_sound.  Returns (ok, detail, n)."""
    lines = [tocoq.COQ_HEADER,
             "From Typify Require Import Spec.Valid IR.Serde IR.SerdeRun Check.Covers Props.C02.\n"]
    n = 0
    for i in doc_ids:
        d = ex.dumps[i]
        doc = ex.docs[i]
        A = [(nm, d["ref_to_id"]["#/" + nm]) for nm in sorted(doc["definitions"])]
        lines.append("Definition sp_%d : space := %s.\n" % (i, tocoq.cspace(d)))
        lines.append("Definition df_%d : defs := %s.\n" % (i, tocoq.cdefs(doc["definitions"])))
        lines.append("Definition as_%d : list (ustring * id) := %s.\n" % (
            i, tocoq.clist(A, lambda p: "(%s, %d%%N)" % (tocoq.ustr(p[0]), p[1]))))
        lines.append(
            "Section Doc_%d.\n"
            "  Variables (re_match fmt_ok native_ok : ustring -> ustring -> bool).\n"
            "  Lemma cov_%d : covers_all re_match native_ok df_%d sp_%d as_%d = true.\n"
            "  Proof. vm_compute. reflexivity. Qed.\n"
            "End Doc_%d.\n"
            "Definition all_%d := fun re_match fmt_ok native_ok H => "
            "C02_covers_sound re_match fmt_ok native_ok df_%d sp_%d as_%d H (cov_%d re_match native_ok).\n"
            % (i, i, i, i, i, i, i, i, i, i, i))
        n += 1
    p = os.path.join(vlib.WORK, "cases", "c02_inst")
    os.makedirs(p, exist_ok=True)
    f = os.path.join(p, "inst.v")
    open(f, "w").write("".join(lines))
    rc, out, err = vlib.coqc_file(f, timeout)
    return rc == 0, (out + err)[-2500:], n


def run(ctx):
    ctx.level = "proof"
    quick = ctx.tier == "quick"
    ctx.checker_cmd = "make theories/Props/C02.vo; coqc work/cases/c02_inst/inst.v (per-document instantiation of C02_covers_sound)"
    ctx.trusted = [
        "Coq 8.16.1 kernel + vm_compute",
        "IR/Serde.v as the meaning of serde on generated types (hand model, tied to compiled code by K5 each run)",
        "Spec/Valid.v as draft-07 validity (tied to python jsonschema by K7 each run)",
        "py/tocoq.py translators (schema / JSON / IR dump -> Gallina terms), verif_dump hook",
        "section variables: regex engine re_match, format recogniser fmt_ok, native parsers native_ok with the "
        "hypothesis fmt_ok f s -> native_ok (native type of f) s (sampled through the compiled code)",
    ]
    ctx.assumptions = [
        "instance domain in_dom: integer literals within i64, no integral-valued float literal (DESIGN 3.2, 3.4)",
        "the forall-schema quantifier is discharged per explored document by the proven checker; outside the "
        "checker's shapes (tagged unions with data, typed enums, allOf) only the direct evaluation applies",
    ]
    vlib.build_harness(bins=("vh",))
    ex = faithful.build(ctx, n_sup=40 if quick else 200, n_full=40 if quick else 200, n_inst=3 if quick else 6)
    ctx.coverage["distribution"] = faithful.distribution(ex)
    ctx.evaluations += len(ex.items)
    for it in ex.items:
        ctx.nontrivial.add(json.dumps([ex.docs[it["m"]]["definitions"][it["name"]], it["v"]], sort_keys=True))
    ctx.coverage["rule"] = ("documents from the seeded grammar (supported stream + full stream + curated corpus); per "
                            "definition: minimal + random valid instances, boundary variants, 8 mutator kinds; "
                            "distinct = distinct (definition schema, instance) pairs")
    ctx.samples = [{"definition": ex.docs[it["m"]]["definitions"][it["name"]], "instance": it["v"],
                    "oracle_valid": it["valid"], "accepted": it["accepted"]} for it in ex.items[:: max(1, len(ex.items) // 8)]]

    # ---- Coq obligations
    thms = theorem_names(PROPS, "C02_")
    have_props = bool(thms)
    coq_ok = False
    if have_props:
        coq_ok = vlib.standard_coq_obligations(ctx, "Props.C02", thms, vlib.STD_AXIOMS)
    else:
        ctx.oblige("Props/C02.v present", False, "property theorem file missing")

    # ---- direct evaluation of the property (also the failing-input search)
    viol = []
    skipped = 0
    for it in ex.items:
        if it["valid"] is not True:
            continue
        if "nomodule" in it["out"] or "unsupported" in it["out"]:
            skipped += 1
            continue
        if not it["accepted"]:
            if "recursion limit" in json.dumps(it["out"]):
                skipped += 1
                continue
            viol.append({"kind": "valid-instance-rejected", "document": ex.docs[it["m"]], "definition": it["name"],
                         "instance": it["v"], "compiled_answer": it["out"], "stream": ex.stream[it["m"]], "_item": it})
    n_valid = len([it for it in ex.items if it["valid"] is True])
    ctx.coverage["direct_property_evaluations"] = n_valid
    ctx.coverage["skipped_no_compiled_type"] = skipped
    n_unlisted = len([v for v in viol if not known_class(ctx, ex, v["_item"])])
    ctx.oblige("direct evaluation: every oracle-valid instance is accepted by the compiled type (%d instances; "
               "listed finding classes apart)" % n_valid, n_unlisted == 0,
               json.dumps([{k: x for k, x in v.items() if k != "_item"} for v in viol[:2]])[:1500])

    # ---- generation failures on the grammar are C01's subject, but a silently empty world would hide C02
    n_ok = len([s for s in ex.world.status if s == "ok"])
    ctx.oblige("world: at least 90%% of the documents generated and compiled (%d/%d)" % (n_ok, len(ex.docs)),
               n_ok * 10 >= len(ex.docs) * 9, json.dumps(dict(ex.world.compile_errors))[:800])

    # ---- K5: model of generated code vs compiled code
    try:
        n_sup, mism = faithful.k5_compare(ctx, ex, "c02")
        ctx.oblige("correspondence K5: IR/Serde.v de/ser = compiled from_str/to_value on %d (type, instance) pairs" % n_sup,
                   not mism, json.dumps(mism[:2])[:1500])
        if mism:
            os.makedirs(os.path.join(vlib.WORK, "model-defects"), exist_ok=True)
            json.dump(mism[:20], open(os.path.join(vlib.WORK, "model-defects", "c02-k5.json"), "w"), default=str)
        ctx.coverage["k5_pairs"] = n_sup
        ctx.coverage["k5_mismatches"] = len(mism)
    except Exception as e:  # noqa
        ctx.oblige("correspondence K5 evaluates", False, str(e)[-1500:])

    # ---- K7: validity specification vs python oracle (a disagreement is a MODEL defect: dropped from the verdict)
    try:
        step = max(1, len(ex.items) // (400 if quick else 2000))
        pairs = [(ex.docs[it["m"]]["definitions"], {"$ref": "#/definitions/" + it["name"]}, it["v"])
                 for it in ex.items[::step]]
        bad = k7.k7_check(ctx, pairs, tag="c02k7")
        ctx.coverage["spec_oracle_disagreements"] = len(bad)
        if bad:
            os.makedirs(os.path.join(vlib.ROOT, "work", "model-defects"), exist_ok=True)
            json.dump(bad[:20], open(os.path.join(vlib.ROOT, "work", "model-defects", "c02-k7.json"), "w"), default=str)
    except Exception as e:  # noqa
        ctx.coverage["k7_error"] = str(e)[-500:]

    # ---- curated documents must generate (a curated case that silently fails to convert checks nothing)
    cur_bad = [ex.stream[i] for i in range(len(ex.docs)) if ex.stream[i].startswith("curated:") and ex.world.status[i] != "ok"]
    ctx.oblige("every curated document of corpus/faithful generates and compiles (%d documents)" %
               len([1 for x in ex.stream if x.startswith("curated:")]), not cur_bad, json.dumps(cur_bad)[:800])

    # ---- the validator on the real IR of every supported-stream document
    sup_ids = [i for i, s in enumerate(ex.stream) if s == "supported" and i in ex.dumps]
    try:
        res = covers_eval("c02cov", [ex.docs[i] if i in sup_ids else None for i in range(len(ex.docs))][:0] or ex.docs,
                          [ex.dumps.get(i) if i in sup_ids else None for i in range(len(ex.docs))])
        failed = [(i, n) for (i, n), r in res.items() if not r]
        # documents in which assign_type reused a name for a DIFFERENT type (finding C02-F3, exact form via
        # the name_reuse hook): the validator rightly answers false there; reported as the known finding
        reused = [(i, n) for (i, n) in failed if (ex.world.gen[i] or {}).get("name_reuse")]
        f3 = [f for f in ctx.findings_for() if f.get("class") == "type-name-reuse"]
        if reused and f3:
            failed = [x for x in failed if x not in reused]
            sup_ids = [i for i in sup_ids if not (ex.world.gen[i] or {}).get("name_reuse")]
            ctx.known_finding(f3[0]["id"], "%s: validator false on %d definitions of documents with a name-reuse event "
                              "(e.g. type %s)" % (f3[0]["id"], len(reused),
                                                  ex.world.gen[reused[0][0]]["name_reuse"][0].get("name")))
        ctx.coverage["validator_evaluations"] = len(res)
        ctx.oblige("validator: covers = true for all %d definitions of %d supported-grammar documents" % (
            len(res), len(sup_ids)), not failed,
            json.dumps([{"definition": ex.docs[i]["definitions"][n]} for i, n in failed[:3]])[:1500])
        # full stream: informational rate
        full_ids = [i for i, s in enumerate(ex.stream) if s != "supported" and i in ex.dumps]
        resf = covers_eval("c02covf", ex.docs, [ex.dumps.get(i) if i in full_ids else None for i in range(len(ex.docs))])
        ctx.coverage["validator_rate_full_stream"] = "%d/%d" % (len([1 for r in resf.values() if r]), len(resf))
        if coq_ok and "C02_covers_sound" in thms and not failed:
            ok, detail, n = instantiate(ctx, ex, sup_ids)
            ctx.oblige("kernel accepts `forall v, valid -> accepted` for the real IR of %d documents "
                       "(C02_covers_sound instantiated)" % n, ok, detail)
    except Exception as e:  # noqa
        ctx.oblige("validator evaluates on the dumped IRs", False, str(e)[-1500:])

    # ---- the converter model (Algo/Convert.v): theorems for ALL schemas of its fragment, and its
    #      tie K3: convert_doc D = the real dump, exactly, on every fragment document of the run
    try:
        import convert_check
        # build + forbidden scan + Print Assumptions of every C02F_* theorem, the integer-table tie, K3 (exact term
        # equality), "no fragment document has a name-reuse event", and K3 of the titled-root model
        convert_check.convert_obligations(ctx, "C02")
    except Exception as e:  # noqa
        ctx.oblige("converter model correspondence K3 evaluates", False, str(e)[-1500:])

    # ---- verdict
    unlisted = []
    for v in viol:
        f = known_class(ctx, ex, v["_item"])
        v.pop("_item")
        if f:
            ctx.known_finding(f["id"], "%s: %s (e.g. definition %s instance %s)" % (
                f["id"], f["summary"][:300], json.dumps(v["document"]["definitions"][v["definition"]])[:300],
                json.dumps(v["instance"])[:120]))
        else:
            unlisted.append(v)
    if unlisted:
        unlisted.sort(key=lambda v: len(json.dumps(v["document"])))
        v = unlisted[0]
        v["broken_obligations"] = [o[0] for o in ctx.broken()]
        ctx.violation(v)
    elif ctx.broken():
        ctx.violation({"broken_obligations": [(o[0], o[2][:1500]) for o in ctx.broken()],
                       "note": "a theorem, the validator on a real IR, or a correspondence no longer checks; the direct "
                               "evaluation found no valid instance that is rejected"}, no_input=True)
    if ctx.tier == "thorough" and coq_ok:
        rc, out, err = vlib.sh("timeout 1500 coqchk -silent -o -Q theories Typify Typify.Props.C02", cwd=vlib.COQ,
                               timeout=1600)
        ctx.oblige("coqchk re-checks Props.C02 and dependencies", rc == 0, (out + err)[-1500:])
