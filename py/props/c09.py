"""C09 — allOf means intersection, independent of subschema order.

Deciding method (DESIGN 4 C09):
  * Spec side: `C09_spec_intersection`, `C09_spec_perm` (Props/C09.v) — validity of an
    allOf is the conjunction and is invariant under permutation (proved, all instances).
  * `Algo/Merge.v`: executable model of typify's merge (merge.rs) on the object / type /
    enum / array-items / $ref fragment with the theorems `C09_merge_sound` (the merged
    schema is no narrower than the conjunction), `C09_merge_never`, `C09_merge_comm_sem`
    (Proofs/MergeProofs.v), tied on every run to the REAL `verif::merge_all` (K1) on every
    permutation of every generated composition.
  * `Check/Uninhabited.v` + `uninhabited_sound`: evaluated on the real dumped IR whenever
    the real merge reported never.
  * Direct evaluation on compiled generated code (py/world.py) with the python
    jsonschema oracle: for every composition and EVERY permutation (<= 4 subschemas: all),
    oracle-valid => accepted; accept vectors and round-trip outputs equal across
    permutations; never-type only when no candidate is valid.
"""
import collections
import glob
import itertools
import json
import os
import random
import re

import oracle
import schemagen
import tocoq
import vlib
import world

PROPS = os.path.join(vlib.COQ, "theories", "Props", "C09.v")
CORPUS = os.path.join(vlib.ROOT, "corpus", "C09")

# ---------------------------------------------------------------------------------
# generator of allOf compositions (the quantifier's space)
# ---------------------------------------------------------------------------------
PNAMES = ["alpha", "beta", "gamma", "delta", "kind", "ident", "count", "tags"]
STR_VALUES = ["red", "green", "blue", "x", "y"]


class CompGen:
    """One composition = definitions D* (object / array schemas that `$ref` members point
    to) + the list of subschemas of the allOf.  Tags record the constructs used."""

    def __init__(self, seed):
        self.rnd = random.Random(seed)
        self.tags = set()

    def pick(self, xs):
        return xs[self.rnd.randrange(len(xs))]

    def leaf(self, depth=0):
        r = self.rnd.random()
        if r < 0.22:
            return {"type": "string"}
        if r < 0.40:
            return {"type": "integer"}
        if r < 0.48:
            return {"type": "boolean"}
        if r < 0.60:
            self.tags.add("prop-enum")
            vals = self.rnd.sample(STR_VALUES, self.rnd.randrange(1, 4))
            return {"type": "string", "enum": vals}
        if r < 0.66:
            self.tags.add("prop-untyped-enum")
            return {"enum": self.rnd.sample(STR_VALUES, self.rnd.randrange(1, 4))}
        if r < 0.72:
            self.tags.add("prop-type-list")
            return {"type": ["string", "null"]}
        if r < 0.82:
            self.tags.add("prop-array")
            return {"type": "array", "items": self.pick([{"type": "string"}, {"type": "integer"},
                                                          {"type": "string", "enum": ["red", "green"]}])}
        if r < 0.90 and depth < 1:
            self.tags.add("prop-object")
            return self.obj(depth + 1, nprops=self.rnd.randrange(1, 3), typed=True)
        if r < 0.95:
            self.tags.add("prop-any")
            return {}
        return {"type": "string"}

    def variant_of(self, s):
        """A schema for the same property in another branch: same, narrower, wider or conflicting."""
        r = self.rnd.random()
        t = s.get("type") if isinstance(s, dict) else None
        if r < 0.35:
            self.tags.add("shared-same")
            return json.loads(json.dumps(s))
        if r < 0.86:
            self.tags.add("shared-compatible")
            if t == "string" and "enum" not in s:
                return self.pick([{"type": "string", "enum": self.rnd.sample(STR_VALUES, 2)},
                                  {"type": ["string", "null"]}, {}, {"enum": self.rnd.sample(STR_VALUES, 2)}])
            if "enum" in s:
                keep = [v for v in s["enum"] if self.rnd.random() < 0.7] or s["enum"][:1]
                extra = [v for v in STR_VALUES if v not in s["enum"] and self.rnd.random() < 0.3]
                return self.pick([{"type": "string"}, {"enum": keep + extra}, {"type": "string", "enum": keep + extra}])
            if t == ["string", "null"]:
                return self.pick([{"type": "string"}, {"type": ["null", "string"]}, {"type": ["string", "integer"]}])
            if t == "array":
                return self.pick([{"type": "array"}, {"type": "array", "items": s.get("items", {})}, {}])
            if t == "object":
                o = json.loads(json.dumps(s))
                o.pop("additionalProperties", None)
                if o.get("properties") and self.rnd.random() < 0.5:
                    o["required"] = sorted(o["properties"])[:1]
                return o
            return self.pick([{}, json.loads(json.dumps(s))])
        self.tags.add("shared-conflict")
        if t == "string":
            return self.pick([{"type": "integer"}, {"type": "boolean"}, {"type": "string", "enum": ["zzz"]} if "enum" in s
                              else {"type": "array", "items": {"type": "string"}}])
        if "enum" in s:
            # (an untyped enum against a disjoint TYPE leaves `enum: []` instead of never: finding C09-F9, curated)
            return self.pick([{"enum": ["zzz"]}, {"type": "integer"} if "type" in s else {"enum": ["zzz", "www"]}])
        return self.pick([{"type": "string"}, {"type": "null"}])

    def obj(self, depth=0, nprops=None, names=None, typed=None):
        n = nprops if nprops is not None else self.rnd.randrange(0, 4)
        names = names if names is not None else self.rnd.sample(PNAMES, n)
        o = {}
        if typed is None:
            typed = self.rnd.random() < 0.85
        if typed:
            o["type"] = "object"
        else:
            self.tags.add("untyped-object")
        if names:
            o["properties"] = {p: self.leaf(depth) for p in names}
        req = [p for p in names if self.rnd.random() < 0.3]
        if req:
            o["required"] = sorted(req)
        r = self.rnd.random()
        if depth == 0:
            if r < 0.15:
                o["additionalProperties"] = False
                self.tags.add("ap-false")
            elif r < 0.32:
                o["additionalProperties"] = True
                self.tags.add("ap-true")
            elif r < 0.44 and not getattr(self, "no_ap_schema", False):
                o["additionalProperties"] = self.pick([{"type": "string"}, {"type": "integer"}])
                self.tags.add("ap-schema")
        return o

    def oneof_branch(self):
        """nested oneOf with disjoint branches.  Two forms that the random stream keeps (the third —
        branches told apart by a REQUIRED discriminator they all declare — is finding C09-F3 and lives
        in the curated corpus only):
          closed: every branch is closed (additionalProperties false) and requires a property of its own;
          typed:  one object branch next to branches of other JSON types."""
        self.tags.add("nested-oneof")
        if self.rnd.random() < 0.7:
            self.tags.add("oneof-closed-branches")
            k = self.rnd.randrange(2, 4)
            own = self.rnd.sample(PNAMES, k)
            subs = []
            for p in own:
                b = {"type": "object", "properties": {p: self.pick([{"type": "string"}, {"type": "integer"}])},
                     "required": [p], "additionalProperties": False}
                subs.append(b)
            return {"oneOf": subs}
        self.tags.add("oneof-typed-branches")
        o = self.obj(depth=1, nprops=self.rnd.randrange(1, 3), typed=True)
        return {"oneOf": [o] + self.rnd.sample([{"type": "null"}, {"type": "string"}, {"type": "integer"}], self.rnd.randrange(1, 3))}

    def composition(self):
        rnd = self.rnd
        n = self.pick([2, 2, 2, 3, 3, 3, 3, 4])
        # additionalProperties SCHEMAS only in two-member compositions: with three members the deferred
        # allOf[additional, property] wrapper makes the result order dependent (finding C09-F6, curated witness)
        self.no_ap_schema = n >= 3
        defs = {}
        branches = []
        kind = rnd.random()
        if kind < 0.28:
            return self.scalar_composition(n)
        if kind < 0.40:
            return self.untyped_ref_composition()
        if kind < 0.52:
            return self.oneof_not_composition()
        # object compositions
        used = {}   # property name -> a schema seen for it
        oneof_done = False
        for b in range(n):
            r = rnd.random()
            if r < 0.12 and not oneof_done and b > 0:
                s = self.oneof_branch()
                oneof_done = True
                branches.append(s)
                continue
            # an object schema without `type` is read by typify as an object (C02's subject, not allOf's): the first
            # member is always typed, so a non-object instance is never valid for the conjunction
            o = self.obj(typed=True if b == 0 else None)
            # overlap with earlier branches (an accidental name collision also goes through variant_of, so that the
            # random stream never meets two different `items` schemas at one position: finding C09-F5)
            for p in list(o.get("properties", {})):
                if p in used:
                    o["properties"][p] = self.variant_of(used[p])
                    self.tags.add("overlap")
            for p, s in list(used.items()):
                if rnd.random() < 0.35:
                    o.setdefault("properties", {})[p] = self.variant_of(s)
                    self.tags.add("overlap")
            for p, s in o.get("properties", {}).items():
                used.setdefault(p, s)
            if "properties" in o:
                o["required"] = sorted(set(o.get("required", [])) & set(o["properties"]) |
                                       ({rnd.choice(sorted(used))} if used and rnd.random() < 0.15 else set()))
                if not o["required"]:
                    del o["required"]
            if rnd.random() < 0.3:
                nm = "D%d" % len(defs)
                defs[nm] = o
                branches.append({"$ref": "#/definitions/" + nm})
                self.tags.add("ref-member")
            else:
                branches.append(o)
        # object size bounds on the members: meeting exactly, overlapping, disjoint (unsatisfiable)
        if rnd.random() < 0.35:
            objs = [b for b in [resolve(defs, b) for b in branches] if isinstance(b, dict) and "oneOf" not in b]
            if objs:
                k = rnd.randrange(1, 4)
                mode = self.pick(["meet-split", "meet-one", "overlap", "overlap", "disjoint", "min-only", "max-only"])
                self.tags.add("size-bounds-" + mode)
                x, y = rnd.choice(objs), rnd.choice(objs)
                if mode == "meet-split":
                    x["minProperties"] = k
                    y["maxProperties"] = k
                elif mode == "meet-one":
                    x["minProperties"] = x["maxProperties"] = k
                elif mode == "overlap":
                    x["minProperties"] = k
                    y["maxProperties"] = k + rnd.randrange(1, 3)
                elif mode == "disjoint":
                    x["minProperties"] = k + 1
                    y["maxProperties"] = k
                elif mode == "min-only":
                    x["minProperties"] = k
                else:
                    y["maxProperties"] = k
        if any(isinstance(b, dict) and "oneOf" in b for b in branches):
            for b in [resolve(defs, b) for b in branches]:
                if isinstance(b, dict) and "oneOf" not in b:
                    b["type"] = "object"            # C09-F10: an untyped object member next to scalar oneOf branches
                    if n >= 3:
                        b.pop("required", None)     # C09-F8 through a closed oneOf branch
        if n >= 3:
            # a name required by one member but not declared by a CLOSED member makes the conjunction unsatisfiable;
            # with three members typify notices it only for some orders (finding C09-F8, curated witness): the
            # random stream keeps that construct to two-member compositions
            full = [resolve(defs, b) for b in branches]
            closed = [b for b in full if isinstance(b, dict) and b.get("additionalProperties") is False]
            for b in full:
                if isinstance(b, dict) and b.get("required"):
                    keep = [k for k in b["required"] if all(k in c.get("properties", {}) for c in closed)]
                    if keep:
                        b["required"] = keep
                    else:
                        del b["required"]
        if len({json.dumps(b, sort_keys=True) for b in branches}) < len(branches):
            self.tags.add("duplicate-branch")
        return {"defs": defs, "branches": branches, "tags": sorted(self.tags)}

    # tuple-style `items`: position i draws from a chain of mutually compatible schemas (position 0 always
    # explicit and compatible: a first-position conflict is finding C09-F5's class, curated only)
    TUPLE_POS = [
        [{"type": "integer"}, {}, {"type": ["integer", "string"]}, {"type": "integer"}],
        [{"type": "string"}, {"type": "string", "enum": ["red", "green"]}, {"enum": ["red", "green", "x"]}, {},
         {"type": ["string", "null"]}],
        [{"type": "boolean"}, {}, {"type": ["boolean", "null"]}],
    ]

    def tuple_member(self, b):
        rnd = self.rnd
        r = rnd.random()
        if b > 0 and r < 0.12:
            self.tags.add("tuple-with-untupled-member")
            return self.pick([{"type": "array"}, {"type": "array", "maxItems": rnd.randrange(1, 4)},
                              {"type": "array", "minItems": rnd.randrange(0, 3)}])
        if b > 0 and r < 0.22 and not self.tuple_closed:
            # a single `items` schema next to tuples whose additionalItems is absent/true (else: C09-F7)
            self.tags.add("tuple-with-single-items-member")
            self.tuple_single = True
            return {"type": "array", "items": self.pick([{}, {"type": ["integer", "string", "boolean", "null"]}])}
        L = rnd.randrange(1, 4)
        m = {"type": "array", "items": [json.loads(json.dumps(self.pick(self.TUPLE_POS[i]))) for i in range(L)]}
        self.tags.add("tuple-len-%d" % L)
        r = rnd.random()
        if r < 0.45:
            pass
        elif r < 0.55:
            m["additionalItems"] = True
            self.tags.add("tuple-additional-true")
        elif self.tuple_single:
            pass
        elif r < 0.8:
            m["additionalItems"] = False
            self.tuple_closed = True
            self.tags.add("tuple-additional-false")
        else:
            m["additionalItems"] = self.pick([{"type": "string"}, {"type": "integer"}, {"type": "boolean"}])
            self.tuple_closed = True
            self.tags.add("tuple-additional-schema")
        return m

    NUM_INTS = [0, 1, 2, -3, 10]
    NUM_FRACS = [1.5, 2.5, -0.5, 0.25]

    def numeric_enum_composition(self):
        """enum / const operands with mixed integer and fractional literals against ONE operand that restricts the
        type or the range (`type: number`, `[number, null]`, `[integer, string]`, bounds, multipleOf).  No two
        type operands (integer next to number is C09-F1), no integral float literal (1.0 vs 1: serde_json `==`),
        no two operands with number validation (`unimplemented!`)."""
        rnd = self.rnd
        self.tags.add("top-numenum")
        restr = self.pick([{"type": "number"}, {"type": "number"}, {"type": ["number", "null"]}, {"type": ["integer", "string"]},
                           {"minimum": 0, "maximum": 2}, {"multipleOf": 0.5}, {"type": "number", "minimum": 0},
                           {"type": "number", "multipleOf": 0.5}, {"type": ["null", "number", "string"]}])
        restr = json.loads(json.dumps(restr))
        self.tags.add("numenum-" + "+".join(sorted(k if k != "type" else "type:" + json.dumps(restr[k]) for k in restr)))
        extra = []
        ty = restr.get("type")
        tys = ty if isinstance(ty, list) else [ty]
        if "string" in tys:
            extra.append("red")
        if "null" in tys:
            extra.append(None)

        def enum_operand():
            ints = rnd.sample(self.NUM_INTS, rnd.randrange(1, 4))
            fracs = rnd.sample(self.NUM_FRACS, rnd.randrange(0, 3))
            vals = ints + fracs + [x for x in extra if rnd.random() < 0.7]
            rnd.shuffle(vals)
            if rnd.random() < 0.2:
                self.tags.add("numenum-const")
                return {"const": self.pick(ints + fracs)}
            return {"enum": vals}
        n = self.pick([2, 2, 3])
        ops = [restr, enum_operand()]
        if n == 3:
            o2 = enum_operand()
            if "enum" in o2 and "enum" in ops[1]:
                # make the two enums overlap
                o2["enum"] = list(dict.fromkeys([json.dumps(v) for v in o2["enum"] + ops[1]["enum"][:2]]))
                o2["enum"] = [json.loads(v) for v in o2["enum"]]
            ops.append(o2)
        rnd.shuffle(ops)
        return {"defs": {}, "branches": ops, "tags": sorted(self.tags)}

    def oneof_not_composition(self):
        """an object member + a nested `oneOf` whose branches are plain / a satisfiable allOf / an UNSATISFIABLE allOf
        (dead branch) / a `$ref`, and / or explicit `not` members (`not {allOf [..]}`, `not {enum}`, `not {type}`).
        Branches are closed objects with a required property of their own (distinct names: finding C09-F3 is keyed to
        branches that share a required property; open branches let a sibling's property through with a wrong value,
        which the `not`-subtraction turns into `false`); every member is typed (C09-F10)."""
        rnd = self.rnd
        self.tags.add("oneof-not")
        defs = {}
        base_props = rnd.sample(["alpha", "beta", "gamma"], rnd.randrange(1, 3))
        base = {"type": "object", "properties": {p: self.pick([{"type": "string"}, {"type": "integer"}]) for p in base_props}}
        if rnd.random() < 0.5:
            base["required"] = base_props[:1]
        members = [base]
        own = rnd.sample(["circle", "square", "tri", "hex"], 4)

        def closed(p, extra=None):
            props = {p: self.pick([{"type": "number"}, {"type": "string"}, {"type": "integer"}])}
            # the branch must admit the base member's properties, else the conjunction is empty
            for q, qs in base["properties"].items():
                props[q] = json.loads(json.dumps(qs))
            if extra:
                props.update(extra)
            return {"type": "object", "properties": props, "required": [p], "additionalProperties": False}

        def branch(i):
            r = rnd.random()
            p = own[i]
            if r < 0.35:
                self.tags.add("oneof-branch-plain")
                return closed(p)
            if r < 0.55:
                self.tags.add("oneof-branch-allof")
                return {"allOf": [closed(p), {"type": "object", "properties": {p: {}}}]}
            if r < 0.8:
                self.tags.add("oneof-branch-dead")
                if rnd.random() < 0.5:
                    defs["Legacy"] = {"type": "object", "properties": {"version": {"enum": [1, 2]}}}
                    return {"allOf": [{"$ref": "#/definitions/Legacy"},
                                      {"type": "object", "properties": {"version": {"enum": [3]}}, "required": ["version"]}]}
                return {"allOf": [{"type": "string"}, closed(p)]}
            self.tags.add("oneof-branch-ref")
            nm = "B%d" % len(defs)
            defs[nm] = closed(p)
            return {"$ref": "#/definitions/" + nm}
        mode = rnd.random()
        if mode < 0.65:
            k = rnd.randrange(2, 4)
            members.append({"oneOf": [branch(i) for i in range(k)]})
        if mode >= 0.45:
            self.tags.add("explicit-not")
            # `not` of a `required` is turned into a `false` property only when the accumulated schema already has
            # object keywords (finding C09-F13): with three or more members only the other `not` shapes are used
            two = (mode >= 0.65)
            members.append({"not": self.pick([{"allOf": [{"type": "string"}, {"type": "object"}]},
                                              {"enum": ["red", 5, None]}, {"type": "string"}, {"type": ["string", "null"]}]
                                             if not two else [
                {"allOf": [{"type": "string"}, {"type": "object"}]},
                {"allOf": [{"type": "object", "required": ["zz"]}, {"type": "object"}]},
                {"allOf": [{"type": "object", "required": ["zz"]}]},
                {"enum": ["red", 5, None]}, {"type": "string"}, {"type": ["string", "null"]},
                {"type": "object", "required": ["zz"]}])})
            if two:
                rnd.shuffle(members)
                return {"defs": defs, "branches": members, "tags": sorted(self.tags)}
        if rnd.random() < 0.4:
            members.append({"type": "object", "properties": {base_props[0]: {}}})
        if len(members) >= 3 and any("oneOf" in m for m in members):
            # a oneOf that is not merged last is distributed twice; with a `required` in another member the weak
            # `not`-subtraction kills the branches (finding C09-F14, curated witness): no `required` then
            for m in members:
                if "oneOf" not in m:
                    m.pop("required", None)
        rnd.shuffle(members)
        return {"defs": defs, "branches": members, "tags": sorted(self.tags)}

    UNTYPED_DEFS = [
        ("props", {"properties": {"alpha": {"type": "string"}}}),
        ("props-required", {"properties": {"alpha": {"type": "string"}, "beta": {"type": "integer"}}, "required": ["alpha"]}),
        ("required", {"required": ["alpha"]}),
        ("ap-schema", {"additionalProperties": {"type": "string"}}),
        ("ap-false", {"properties": {"alpha": {"type": "string"}}, "additionalProperties": False}),
        ("enum", {"enum": ["red", "green"]}),
        ("bounds", {"minProperties": 1}),
        ("bounds2", {"maxProperties": 2}),
    ]
    TYPED_DEFS = [("Str", {"type": "string"}), ("Arr", {"type": "array", "items": {"type": "string"}}),
                  ("Int", {"type": "integer"}), ("Obj", {"type": "object", "properties": {"alpha": {"type": "string"}}})]

    def untyped_ref_composition(self):
        """a `$ref` to a definition WITHOUT `type` (OpenAPI style) next to members that add or contradict a type:
        {type: object}, {type: string}, {type: [object, null]}, a `$ref` to a string / array / integer / object
        definition.  Three members mostly (the reference-preservation test `roughly` runs after the first pair)."""
        rnd = self.rnd
        self.tags.add("untyped-ref")
        kind, ud = self.pick(self.UNTYPED_DEFS)
        self.tags.add("untyped-ref-" + kind)
        defs = {"Base": json.loads(json.dumps(ud))}
        members = [{"$ref": "#/definitions/Base"}]
        pool = [{"type": "object"}, {"type": "string"}, {"type": "string"}, {"type": ["object", "null"]},
                {"type": ["string", "object"]}, "ref", "ref", "ref", {"type": "object", "properties": {"gamma": {"type": "boolean"}}}]
        n = self.pick([3, 3, 3, 4, 2])
        if kind == "enum":
            # an untyped enum of strings next to an OBJECT type leaves `type: object, enum: []` (finding C09-F9), which
            # typify then turns into a constrained newtype over a struct that does not compile (curated witness
            # f9-enum-emptied-top-level): the random stream pairs it with string types only
            pool = [{"type": "string"}, {"type": ["string", "null"]}, {"type": ["string", "integer"]}]
            while len(members) < n:
                members.append(json.loads(json.dumps(self.pick(pool))))
            rnd.shuffle(members)
            return {"defs": defs, "branches": members, "tags": sorted(self.tags)}
        if rnd.random() < 0.7:
            members.append({"type": "object"})
        while len(members) < n:
            m = self.pick(pool)
            if m == "ref":
                nm, td = self.pick(self.TYPED_DEFS)
                defs[nm] = json.loads(json.dumps(td))
                m = {"$ref": "#/definitions/" + nm}
                self.tags.add("untyped-ref-with-typed-ref")
            members.append(json.loads(json.dumps(m)))
        rnd.shuffle(members)
        return {"defs": defs, "branches": members, "tags": sorted(self.tags)}

    def string_format_composition(self):
        """formatted string members (the six asserted string formats of convert.rs): the same format, `ip` with its
        refinements `ipv4` / `ipv6` in every position, a format next to unformatted strings, and disjoint formats
        (unsatisfiable); inline, via `$ref`, and on a property shared by object members.  Kept out: integer-width
        formats and annotation-only formats next to another format (finding C09-F12: any two different formats are
        `unsatisfiable` for merge_so_format)."""
        rnd = self.rnd
        self.tags.add("top-strfmt")
        group = self.pick([["ip", "ipv4"], ["ip", "ipv6"], ["ip", "ipv6"], ["ip", None], ["ipv6", None], ["uuid", "uuid"],
                           ["date", None], ["date-time", "date-time"], ["ipv4", "ipv6"], ["uuid", "date"], ["date", "date-time"],
                           ["ip", "ipv4", "ipv6"]])
        self.tags.add("strfmt-" + "+".join(str(x) for x in group))
        n = self.pick([2, 2, 3, 3])
        fmts = [group[i % len(group)] if i < len(group) else self.pick(group) for i in range(n)]
        rnd.shuffle(fmts)
        def mk(f):
            m = {"type": "string"}
            if f:
                m["format"] = f
            return m
        members = [mk(f) for f in fmts]
        defs = {}
        mode = rnd.random()
        if mode < 0.3:
            self.tags.add("strfmt-on-property")
            out = []
            for i, m in enumerate(members):
                o = {"type": "object", "properties": {"addr": m}}
                if i == 0 or rnd.random() < 0.3:
                    o["required"] = ["addr"]
                out.append(o)
            members = out
        if rnd.random() < 0.4:
            defs["F0"] = members[0]
            members[0] = {"$ref": "#/definitions/F0"}
            self.tags.add("ref-member")
        return {"defs": defs, "branches": members, "tags": sorted(self.tags)}

    def scalar_composition(self, n):
        """type / enum restrictions and array item schemas at the top level."""
        rnd = self.rnd
        self.tags.add("non-object")
        self.tuple_single = False
        self.tuple_closed = False
        fam = self.pick(["types", "enum", "array", "tuple", "tuple", "numenum", "numenum", "strfmt", "strfmt"])
        if fam == "numenum":
            return self.numeric_enum_composition()
        if fam == "strfmt":
            return self.string_format_composition()
        self.tags.add("top-" + fam)
        out = []
        defs = {}
        for b in range(n):
            if fam == "types":
                out.append(self.pick([{"type": "string"}, {"type": ["string", "null"]}, {"type": ["null", "string", "integer"]},
                                      {"type": ["integer", "string"]}, {"type": "integer"}, {}]))
            elif fam == "enum":
                out.append(self.pick([{"enum": rnd.sample(STR_VALUES, 3)}, {"type": "string"},
                                      {"type": "string", "enum": rnd.sample(STR_VALUES, 2)},
                                      {"enum": rnd.sample(STR_VALUES, 4)}, {"type": ["string", "null"]}]))
            elif fam == "array":
                # item schemas of ONE family per composition (strings or objects): see C09-F5
                if b == 0:
                    self.arr_family = self.pick(["strings", "objects"])
                if self.arr_family == "strings":
                    s = self.pick([{"type": "array", "items": {"type": "string"}}, {"type": "array"},
                                   {"type": "array", "items": {"type": "string"}, "minItems": 2, "maxItems": 2},
                                   {"type": "array", "maxItems": 3},
                                   {"type": "array", "items": {"type": "string", "enum": rnd.sample(STR_VALUES, 3)}},
                                   {"type": "array", "items": {"enum": rnd.sample(STR_VALUES, 3)}},
                                   {"type": "array", "items": {"type": ["string", "null"]}}])
                else:
                    s = self.pick([{"type": "array", "items": {"type": "object", "properties": {"alpha": {"type": "string"}}}},
                                   {"type": "array", "items": {"type": "object", "properties": {"beta": {"type": "integer"}},
                                                               "required": ["beta"]}},
                                   {"type": "array", "items": {"type": "object"}}, {"type": "array"}])
                out.append(s)
            else:
                out.append(self.tuple_member(b))
        if fam == "tuple":
            # typify converts a tuple only when the MERGED schema has minItems == maxItems > 0 (else the schema is
            # rejected: "unhandled array validation"); most compositions therefore fix the length k on one member
            # (or split min / max over two members); the rest keep random or no bounds
            k = rnd.randrange(1, 4)
            r = rnd.random()
            # a `$ref` member is a definition of its own and must convert alone: it then carries the fixed length
            via_ref = rnd.random() < 0.35 and r < 0.7
            if r < 0.7:
                m = out[0] if via_ref else out[rnd.randrange(len(out))]
                m["minItems"] = m["maxItems"] = k
                self.tags.add("tuple-fixed-length")
            elif r < 0.82 and len(out) >= 2:
                i, j = rnd.sample(range(len(out)), 2)
                out[i]["minItems"] = k
                out[j]["maxItems"] = k
                self.tags.add("tuple-min-max-split")
            elif r < 0.92:
                m = out[rnd.randrange(len(out))]
                m[self.pick(["minItems", "maxItems"])] = k
                self.tags.add("tuple-one-bound")
            else:
                self.tags.add("tuple-unbounded")
            if via_ref:
                defs["D0"] = out[0]
                out[0] = {"$ref": "#/definitions/D0"}
                self.tags.add("ref-member")
        if fam == "array" and rnd.random() < 0.4:
            # a `$ref` member to an array definition (length keywords included since C09-F2 was fixed by 884aa7b)
            defs["D0"] = out[0]
            out[0] = {"$ref": "#/definitions/D0"}
            self.tags.add("ref-member")
        return {"defs": defs, "branches": out, "tags": sorted(self.tags)}


def perms_of(n, rnd, limit):
    allp = list(itertools.permutations(range(n)))
    if len(allp) <= limit:
        return allp
    rest = allp[1:]
    rnd.shuffle(rest)
    return [allp[0]] + rest[:limit - 1]


def doc_single(comp, perm):
    d = dict(comp["defs"])
    d["P"] = {"allOf": [comp["branches"][i] for i in perm]}
    return {"definitions": d}


def doc_multi(comp, perms, which):
    d = dict(comp["defs"])
    for k in which:
        d["P%d" % k] = {"allOf": [comp["branches"][i] for i in perms[k]]}
    return {"definitions": d}


# ---------------------------------------------------------------------------------
# fragment of the Coq model (K1)
# ---------------------------------------------------------------------------------
def canon_schema(s):
    """Canonical form of a schema JSON for comparing the real merge with the model:
    `type` as a sorted list, `required` sorted, empty containers dropped."""
    if isinstance(s, bool):
        return s
    if not isinstance(s, dict):
        return s
    out = {}
    for k, v in s.items():
        if k == "type":
            out[k] = sorted(v) if isinstance(v, list) else [v]
        elif k == "required":
            if v:
                out[k] = sorted(v)
        elif k == "properties":
            if v:
                out[k] = {p: canon_schema(x) for p, x in v.items()}
        elif k in ("allOf", "anyOf", "oneOf"):
            out[k] = [canon_schema(x) for x in v]
        elif k == "items":
            out[k] = [canon_schema(x) for x in v] if isinstance(v, list) else canon_schema(v)
        elif k in ("additionalProperties", "additionalItems", "not"):
            out[k] = canon_schema(v)
        elif k == "uniqueItems":
            if v:
                out[k] = True
        else:
            out[k] = v
    return out


MODEL_HEADER = (tocoq.COQ_HEADER +
                "From Typify Require Import Spec.Valid Algo.Merge.\nOpen Scope string_scope.\n")


def model_merge(tag, jobs):
    """jobs: list of (defs, [schemas]) -> list of ("ok", schema) | ("never",) | ("panic",) | ("unsupp",)"""
    exprs, where = [], []
    res = [("unsupp", "translator")] * len(jobs)
    for i, (defs, schemas) in enumerate(jobs):
        try:
            L = tocoq.clist(schemas, tocoq.cschema, "schema")
            e = ("(let L := %s in String.append (if forallb (obj_frag false false TNumber) L || forallb (obj_frag false false TInteger) L then \"E\" "
                 "else if forallb (obj_frag true false TNumber) L || forallb (obj_frag true false TInteger) L then \"A\" "
                 "else if forallb (obj_frag true true TNumber) L || forallb (obj_frag true true TInteger) L then \"T\" "
                 "else if forallb ofrag L then \"O\" else if forallb sfrag L then \"S\" else \"-\") "
                 "(show_mres (merge_all %s 40 L)))" % (L, tocoq.cdefs(defs)))
        except (tocoq.Unsupported, KeyError, TypeError) as ex:  # noqa
            continue
        exprs.append(e)
        where.append(i)
    outs = vlib.coq_eval_strings(tag, MODEL_HEADER, exprs, shard=60) if exprs else []
    frag = {}
    for i, o in zip(where, outs):
        o = re.sub(r'"%string$', "", o)
        frag[i], o = o[0], o[1:]
        if o.startswith("ok:"):
            res[i] = ("ok", tocoq.unshow_json(o[3:]))
        else:
            res[i] = (o,)
    model_merge.frag = frag
    return res


def real_canon(r):
    if r.get("r") == "panic":
        return ("panic",)
    if r.get("r") != "ok":
        return ("error", r)
    if r["schema"] is False:
        return ("never",)
    return ("ok", canon_schema(r["schema"]))


def strip_frac(v):
    """unshow_json gives Fractions for floats; the fragment has none, keep JSON-comparable."""
    return json.loads(json.dumps(v, default=lambda x: float(x)))


# ---------------------------------------------------------------------------------
# candidates
# ---------------------------------------------------------------------------------
GENERIC = [None, True, 0, 7, "red", "zzz", [], ["red"], ["red", "green"], ["red", 3], [1, 2], {},
           {"alpha": "red"}, {"kind": "red"}, {"__extra__": 1}]


def resolve(defs, s):
    while isinstance(s, dict) and "$ref" in s:
        s = defs[s["$ref"].split("/")[-1]]
    return s


def candidates(seed, comp):
    doc = {"definitions": comp["defs"]}
    I = schemagen.Inst(seed, doc)
    rnd = random.Random(seed ^ 0x5a5a)
    out = []
    seen = set()

    def add(v, kind):
        k = json.dumps(v, sort_keys=True)
        if k in seen or len(k) > 1500:
            return
        seen.add(k)
        out.append((v, kind))
    per_branch = []
    for b in comp["branches"]:
        vs = []
        for n in range(3):
            try:
                v = I.gen(b, minimal=(n == 0))
            except Exception:  # noqa
                continue
            vs.append(v)
            add(v, "branch")
        per_branch.append(vs)
    # unions of per-branch instances (objects: key union, later branches win / earlier win)
    for n in range(4):
        picks = [rnd.choice(vs) for vs in per_branch if vs]
        if picks and all(isinstance(p, dict) for p in picks):
            u = {}
            for p in (picks if n % 2 == 0 else reversed(picks)):
                u.update(p)
            add(u, "union")
            # union restricted to declared keys of closed branches
            closed = [resolve(comp["defs"], b) for b in comp["branches"]]
            closed = [b for b in closed if isinstance(b, dict) and b.get("additionalProperties") is False]
            if closed:
                keep = set.intersection(*[set(b.get("properties", {})) for b in closed])
                add({k: v for k, v in u.items() if k in keep}, "union-closed")
    try:
        add(I.gen({"allOf": comp["branches"]}), "union")
    except Exception:  # noqa
        pass
    base = [v for v, k in out]
    for v in base[:8]:
        for b in comp["branches"]:
            try:
                for kind, mv in schemagen.mutants(seed, doc, b, v)[:6]:
                    add(mv, "mutant:" + kind)
            except Exception:  # noqa
                pass
    # for every string-enum-valued member try the other values (narrowing by another branch)
    for v in base[:6]:
        if isinstance(v, dict):
            for k, x in list(v.items())[:4]:
                for alt in ("red", "zzz", 5, None):
                    if alt != x:
                        w = dict(v)
                        w[k] = alt
                        add(w, "mutant:member-swap")
                w = dict(v)
                del w[k]
                add(w, "mutant:member-drop")
        if isinstance(v, list):
            add(v + v, "mutant:array-double")
            for k in range(len(v) + 1):
                add(v[:k], "mutant:array-prefix")
            for x in (1, "red", None, True, "zzz"):
                add(v + [x], "mutant:array-extend")
                add(v + [x, x], "mutant:array-extend")
            for i in range(min(len(v), 3)):
                for x in (1, "red", "zzz", None, True):
                    if x != v[i]:
                        add(v[:i] + [x] + v[i + 1:], "mutant:array-position")
    # objects with exactly min-1, min, max, max+1 members for every minProperties / maxProperties of the operands:
    # trimmed (optional members first) or extended (keys admitted by additionalProperties) versions of the candidates
    bounds = set()
    for b in comp["branches"]:
        rb = resolve(comp["defs"], b)
        if isinstance(rb, dict):
            for k in ("minProperties", "maxProperties"):
                if isinstance(rb.get(k), int):
                    bounds.update({rb[k] - 1, rb[k], rb[k] + 1})
    if bounds:
        required = set()
        for b in comp["branches"]:
            rb = resolve(comp["defs"], b)
            if isinstance(rb, dict):
                required |= set(rb.get("required", []))
        dicts = [v for v, _ in out if isinstance(v, dict)][:6] + [{}]
        for v in dicts:
            for t in sorted(x for x in bounds if x >= 0):
                for fill in (1, "red", True):
                    w = dict(v)
                    drop = [k for k in sorted(w) if k not in required] + [k for k in sorted(w) if k in required]
                    while len(w) > t and drop:
                        w.pop(drop.pop(0))
                    i = 0
                    while len(w) < t:
                        w["zz%d" % i] = fill
                        i += 1
                    add(w, "size:%d" % t)
    # sample strings of every asserted string format (valid and invalid ones) when a `format` occurs
    if '"format"' in json.dumps([comp["branches"], comp["defs"]]):
        on_prop = set()
        for b in comp["branches"]:
            rb = resolve(comp["defs"], b)
            if isinstance(rb, dict):
                on_prop |= {k for k, ps in (rb.get("properties") or {}).items() if isinstance(ps, dict) and "format" in ps}
        for fmt, (good, bad) in sorted(schemagen.FORMAT_SAMPLES.items()):
            for sv in good + bad[:2]:
                add(sv, "format-sample")
                for k in sorted(on_prop):
                    add({k: sv}, "format-sample")
        for iv in (5, 300, -1, 2 ** 40):
            add(iv, "format-sample")
    # every enum / const literal that occurs in the operands (merged-set semantics: a literal valid against all
    # operands must be valid against the merge result)
    def literals(x, depth=0):
        if isinstance(x, dict) and depth < 6:
            for v in x.get("enum", []) if isinstance(x.get("enum"), list) else []:
                yield v
            if "const" in x:
                yield x["const"]
            for k, v in x.items():
                if isinstance(v, dict):
                    yield from literals(v, depth + 1)
                    if k == "properties":
                        for pv in v.values():
                            yield from literals(pv, depth + 1)
                elif isinstance(v, list) and k in ("oneOf", "anyOf", "allOf", "items"):
                    for y in v:
                        yield from literals(y, depth + 1)
    for b in comp["branches"]:
        for v in literals(resolve(comp["defs"], b)):
            add(v, "literal")
            if isinstance(v, (int, float)) and not isinstance(v, bool):
                add(v + 1, "mutant:literal-plus-one")
                add(v + 0.25, "mutant:literal-fraction")
    for g in GENERIC:
        add(g, "generic")
    return out


# ---------------------------------------------------------------------------------
def load_corpus():
    out = []
    for f in sorted(glob.glob(os.path.join(CORPUS, "*.json"))):
        c = json.load(open(f))
        c["file"] = os.path.basename(f)
        c.setdefault("tags", ["curated"])
        c.setdefault("defs", {})
        out.append(c)
    return out


def is_never_type(dump, name):
    tid = dump["ref_to_id"].get("#/" + name)
    e = dump["entries"].get(str(tid), {})
    # a definition may be an alias (newtype/reference) of the empty enum
    seen = set()
    while e.get("kind") in ("newtype", "box") and e.get("type_id", e.get("id")) is not None and len(seen) < 8:
        nxt = str(e.get("type_id", e.get("id")))
        if nxt in seen:
            break
        seen.add(nxt)
        e = dump["entries"].get(nxt, {})
    return e.get("kind") == "enum" and e.get("variants") == []


# ---------------------------------------------------------------------------------
# (a) the reduced validator validate.rs `schema_value_validate` / `check_instance`: exhaustive small table
# ---------------------------------------------------------------------------------
VT_TYPES = ["null", "boolean", "object", "array", "number", "string", "integer"]
VT_TYPE_LISTS = [["number", "null"], ["integer", "string"], ["null", "number", "string"], ["boolean", "array"]]
# JSON values as serde_json reads them: integer literals within u64/i64 are integers, everything else a double
VT_VALUES = [None, True, False, 0, 1, 2, -3, 1.0, -0.0, 1.5, 2.5, -0.5, 100.0, 1e-3, 2 ** 53, float(2 ** 53),
             2 ** 63 - 1, -2 ** 63, 2 ** 64 - 1, 2 ** 64, 1e300, "", "a", "1", [], [1], [1.5, "a"], {}, {"a": 1}]


def serde_is_float(v):
    return isinstance(v, float) or (isinstance(v, int) and not isinstance(v, bool) and not (-2 ** 63 <= v < 2 ** 64))


def validator_table(ctx, emul):
    schemas = [{"type": t} for t in VT_TYPES] + [{"type": l} for l in VT_TYPE_LISTS] + [
        {"enum": [1, 2.5, "a", None]}, {"const": 1}, {"const": 2.5}, {"type": "number", "enum": [1, 2.5]},
        {"type": ["integer", "string"], "enum": [1, 2.5, "a"]}, {"type": "integer", "const": 1}, {}]
    real = vlib.run_bin("c09", [{"op": "validate", "schema": sc, "values": VT_VALUES, "defs": {}} for sc in schemas])
    real = [r["valid"] for r in real]
    if emul == "validator-one-type":
        # the seeded regression: a JSON number is classified as exactly one of integer / number
        for sc, row in zip(schemas, real):
            tys = sc.get("type")
            tys = tys if isinstance(tys, list) else [tys]
            if "number" in tys and "integer" not in tys:
                for i, v in enumerate(VT_VALUES):
                    if isinstance(v, int) and not isinstance(v, bool) and not serde_is_float(v):
                        row[i] = False
    hdr = tocoq.COQ_HEADER + "From Typify Require Import Spec.Valid Algo.Merge.\nOpen Scope string_scope.\n"
    exprs = []
    for sc in schemas:
        ty = sc.get("type")
        cty = "None" if ty is None else "(Some %s)" % tocoq.clist(ty if isinstance(ty, list) else [ty],
                                                                   lambda t: tocoq.ITYPES[t], "itype")
        cen = tocoq.copt(sc.get("enum"), lambda l: tocoq.clist(l, tocoq.cjson, "json"))
        ccs = "(Some %s)" % tocoq.cjson(sc["const"]) if "const" in sc else "None"
        exprs.append('(String.concat "" (map (fun v => if value_validate %s %s %s v then "1" else "0") %s))' % (
            cty, cen, ccs, tocoq.clist(VT_VALUES, tocoq.cjson, "json")))
    model = vlib.coq_eval_strings("c09vt-" + ctx.tier, hdr, exprs, shard=40)
    model = [[ch == "1" for ch in re.sub(r'"%string$', "", m)] for m in model]
    bad = []
    for sc, rr, mm in zip(schemas, real, model):
        for v, a, b in zip(VT_VALUES, rr, mm):
            if a != b:
                bad.append({"schema": sc, "value": v, "real schema_value_validate": a, "model value_validate": b})
    ncell = len(schemas) * len(VT_VALUES)
    ctx.oblige("correspondence K1 (validate.rs): Algo/Merge.v value_validate / check_instance = verif::schema_value_validate "
               "on the exhaustive table of %d schemas (7 instance types, type lists, enum, const) x %d JSON values = %d cells"
               % (len(schemas), len(VT_VALUES), ncell), not bad, json.dumps(bad[:4], default=str)[:1800])
    # against draft-07 (python jsonschema), `type` rows only: the reduced validator is meant to agree except that an
    # integral-valued double (1.0, 1e2, 2^53 as a double, 2^64) is not an `integer` for serde_json
    trows = [i for i, sc in enumerate(schemas) if set(sc) == {"type"}]
    ver = oracle.classify([({}, [(schemas[i], v) for v in VT_VALUES]) for i in trows])
    diffs, known = [], []
    for i, pyrow in zip(trows, ver):
        tys = schemas[i]["type"] if isinstance(schemas[i]["type"], list) else [schemas[i]["type"]]
        for v, a, b in zip(VT_VALUES, real[i], pyrow):
            if b is None or a == b:
                continue
            integral_double = serde_is_float(v) and float(v) == int(float(v))
            if (not a) and b and "integer" in tys and "number" not in tys and integral_double:
                known.append((schemas[i], v))
            else:
                diffs.append({"schema": schemas[i], "value": v, "real": a, "draft-07 (python jsonschema)": b})
    ctx.coverage["validator_table"] = {"cells": ncell, "real_vs_model_mismatches": len(bad),
                                       "type_rows_compared_with_python": len(trows) * len(VT_VALUES),
                                       "integral_double_not_integer_cells": len(known),
                                       "other_differences_from_draft07": len(diffs)}
    ctx.oblige("validate.rs check_instance agrees with draft-07 `type` on %d (type, value) cells, except integral-valued "
               "doubles at `integer` (%d cells, finding C09-F11)" % (len(trows) * len(VT_VALUES), len(known)),
               not diffs, json.dumps(diffs[:4], default=str)[:1500])
    return bad, diffs, known


def theorem_names(path, prefix):
    if not os.path.exists(path):
        return []
    txt = vlib.strip_coq_comments(open(path).read())
    return re.findall(r"\bTheorem\s+(%s\w+)" % prefix, txt)


def finding_for(ctx, comp, what, kw_instance=None):
    """Known-finding classes (findings/C09.json): narrow syntactic predicates on the composition."""
    defs = comp["defs"]
    br = [resolve(defs, b) for b in comp["branches"]]
    types = []
    items_meet = []
    single_vs_closed = []

    def walk_types(a, b):
        """pairs of `type` keywords that meet at the same position of two branches"""
        if not (isinstance(a, dict) and isinstance(b, dict)):
            return
        a, b = resolve(defs, a), resolve(defs, b)
        if not (isinstance(a, dict) and isinstance(b, dict)):
            return
        ta, tb = a.get("type"), b.get("type")
        if ta is not None and tb is not None:
            types.append((ta if isinstance(ta, list) else [ta], tb if isinstance(tb, list) else [tb]))
        for p in set(a.get("properties", {})) & set(b.get("properties", {})):
            walk_types(a["properties"][p], b["properties"][p])
        ia, ib = a.get("items"), b.get("items")
        if isinstance(ia, dict) and isinstance(ib, dict):
            if ia != ib:
                items_meet.append(1)
            walk_types(ia, ib)
        elif ia is not None and ib is not None and (isinstance(ia, list) or isinstance(ib, list)):
            a0 = (ia[0] if ia else None) if isinstance(ia, list) else ia
            b0 = (ib[0] if ib else None) if isinstance(ib, list) else ib
            if a0 is not None and b0 is not None and a0 != b0:
                items_meet.append(1)
            # a single `items` schema next to a tuple that restricts its additionalItems (C09-F7)
            for x, y in ((a, b), (b, a)):
                if isinstance(x.get("items"), dict) and isinstance(y.get("items"), list) and \
                        (y.get("additionalItems") is False or isinstance(y.get("additionalItems"), dict)):
                    single_vs_closed.append(1)
    for x, y in itertools.combinations(br, 2):
        walk_types(x, y)
    for f in ctx.findings_for():
        cls = f.get("class")
        if cls == "integer-number-disjoint":
            if any(("integer" in ta and "number" in tb and "integer" not in tb) or
                   ("integer" in tb and "number" in ta and "integer" not in ta) for ta, tb in types):
                return f
        if cls == "roughly-ignores-array-keywords":
            has_ref_arr = any(isinstance(b, dict) and "$ref" in b and isinstance(resolve(defs, b), dict) and
                              resolve(defs, b).get("type") == "array" for b in comp["branches"])
            has_len = any(isinstance(b, dict) and "minItems" in b and b.get("minItems") == b.get("maxItems") for b in br)
            if has_ref_arr and has_len and len(comp["branches"]) >= 3 and what.startswith("permutation"):
                return f
        if cls == "conflicting-array-items-never":
            inst = kw_instance
            def has_empty(v):
                if isinstance(v, list):
                    return not v or any(has_empty(x) for x in v)
                if isinstance(v, dict):
                    return any(has_empty(x) for x in v.values())
                return False
            if inst is not None and has_empty(inst) and items_meet:
                return f
        if cls == "oneof-distributed-twice-with-common-required":
            has_oneof = any(isinstance(b, dict) and len(b.get("oneOf", [])) >= 2 for b in br)
            other_req = any(isinstance(b, dict) and "oneOf" not in b and b.get("required") for b in br)
            if has_oneof and other_req and len(comp["branches"]) >= 3 and \
                    (what.startswith("permutation") or what in ("valid-instance-rejected", "satisfiable-but-never")):
                return f
        if cls == "not-required-lost-before-object-keywords":
            def neg_required(x, depth=0):
                if not isinstance(x, dict) or depth > 4:
                    return False
                if x.get("required"):
                    return True
                return any(neg_required(y, depth + 1) for y in x.get("allOf", []))
            if len(comp["branches"]) >= 3 and what.startswith("permutation") and \
                    any(isinstance(b, dict) and "not" in b and neg_required(b["not"]) for b in br):
                return f
        if cls == "distinct-formats-never":
            ASSERTED = {"uuid", "date", "date-time", "ip", "ipv4", "ipv6"}
            fm = []

            def fmts(x, path=()):
                if isinstance(x, dict):
                    if isinstance(x.get("format"), str):
                        fm.append((path, x["format"]))
                    for k, pv in (x.get("properties") or {}).items():
                        fmts(pv, path + (k,))
            for b in br:
                fmts(b)
            hit = False
            for (p1, f1), (p2, f2) in itertools.combinations(fm, 2):
                if p1 == p2 and f1 != f2 and {f1, f2} not in ({"ip", "ipv4"}, {"ip", "ipv6"}) and \
                        not (f1 in ASSERTED and f2 in ASSERTED):
                    hit = True
            if hit and what in ("valid-instance-rejected", "satisfiable-but-never"):
                return f
        if cls == "integral-double-enum-literal-at-integer":
            def lits(x):
                if isinstance(x, dict):
                    yield from (x.get("enum") or [])
                    if "const" in x:
                        yield x["const"]
                    for pv in (x.get("properties") or {}).values():
                        yield from lits(pv)

            def tys(x):
                if isinstance(x, dict):
                    t = x.get("type")
                    if t is not None:
                        yield t if isinstance(t, list) else [t]
                    for pv in (x.get("properties") or {}).values():
                        yield from tys(pv)
            has_lit = any(isinstance(v, float) and v == int(v) for b in br for v in lits(b))
            has_int = any("integer" in t and "number" not in t for b in br for t in tys(b))
            if has_lit and has_int and what in ("valid-instance-rejected", "satisfiable-but-never"):
                return f
        if cls == "enum-emptied-by-type-filter":
            hit = False
            for x, y in itertools.permutations([b for b in br if isinstance(b, dict)], 2):
                for k, px in (x.get("properties") or {}).items():
                    py_ = (y.get("properties") or {}).get(k)
                    if isinstance(px, dict) and isinstance(py_, dict) and "enum" in px and "type" not in px and "type" in py_:
                        ty = py_["type"] if isinstance(py_["type"], list) else [py_["type"]]
                        if not any((isinstance(v, str) and "string" in ty) or (v is None and "null" in ty) for v in px["enum"]):
                            hit = True
            if hit and len(comp["branches"]) >= 3 and what.startswith("permutation"):
                return f
        if cls == "oneof-scalar-branches-with-untyped-object-member":
            has_scalar_oneof = any(isinstance(b, dict) and any(isinstance(x, dict) and x.get("type") not in (None, "object")
                                                               for x in b.get("oneOf", [])) for b in br)
            untyped = any(isinstance(b, dict) and "oneOf" not in b and "type" not in b and
                          ("properties" in b or "required" in b) for b in br)
            if has_scalar_oneof and untyped and len(comp["branches"]) >= 3:
                return f
        if cls == "required-name-dropped-by-closed-member":
            closed = [b for b in br if isinstance(b, dict) and b.get("additionalProperties") is False]
            for b in br:
                if isinstance(b, dict):
                    closed += [x for x in b.get("oneOf", []) if isinstance(x, dict) and x.get("additionalProperties") is False]
            reqs = set()
            for b in br:
                if isinstance(b, dict):
                    reqs |= set(b.get("required", []))
            if len(comp["branches"]) >= 3 and what.startswith("permutation") and \
                    any(k not in c.get("properties", {}) for c in closed for k in reqs):
                return f
        if cls == "single-items-vs-closed-tuple-never":
            if single_vs_closed and what in ("valid-instance-rejected", "satisfiable-but-never"):
                return f
        if cls == "deferred-additional-properties-conflict":
            if what.startswith("permutation") and len(comp["branches"]) >= 3 and \
                    any(isinstance(b, dict) and isinstance(b.get("additionalProperties"), dict) for b in br):
                return f
        if cls == "oneof-branches-share-required-property":
            for b in br:
                subs = b.get("oneOf") if isinstance(b, dict) else None
                if subs and len(subs) >= 2:
                    subs = [resolve(defs, x) for x in subs]
                    reqs = [set(x.get("required", [])) for x in subs if isinstance(x, dict)]
                    if len(reqs) >= 2 and any(reqs[i] & reqs[j] for i in range(len(reqs)) for j in range(i + 1, len(reqs))):
                        return f
    return None


def run(ctx):
    ctx.level = "proof"
    quick = ctx.tier == "quick"
    rnd = random.Random(ctx.seed * 7 + 9)
    ctx.checker_cmd = ("make theories/Props/C09.vo; coqc work/cases/c09k1-*/cases_*.v (model vs verif::merge_all); "
                       "coqc work/cases/c09un-*/ (uninhabited on dumped IR); compiled world queries")
    ctx.trusted = [
        "Coq 8.16.1 kernel + vm_compute",
        "Spec/Valid.v as draft-07 validity (tied to python jsonschema by K7; the verdicts used here are python's)",
        "IR/Serde.v `de` as the meaning of serde on generated types (K5) — only for `uninhabited_sound`",
        "py/tocoq.py translators, verif::merge_all / verif_dump hooks, py/world.py driver",
        "Algo/Merge.v is a hand model of merge.rs, tied by K1 on every permutation of every composition of the run",
    ]
    ctx.assumptions = [
        "merge theorems: ref-free schemas of the model's fragment (MUnsupp outside: not/anyOf/oneOf distribution, tuple items)",
        "a panic (`unimplemented!`) while adding a schema is a rejection (DESIGN 3.1/3.5)",
        "permutations of one composition are generated as sibling definitions P0..Pk of ONE document (same converter path), "
        "after each permutation was converted alone to learn its accept/reject/panic status",
    ]
    vlib.build_harness(bins=("vh", "c09"))

    # ---- compositions
    comps = load_corpus()
    if quick:
        # the witness whose generated module does not compile costs a second cargo round: thorough tier only
        comps = [c for c in comps if "compile-error" not in c.get("tags", [])]
    n_rand = 24 if quick else 220
    for k in range(n_rand):
        g = CompGen(ctx.seed * 1000003 + k)
        c = g.composition()
        c["file"] = "gen-%d" % k
        comps.append(c)
    limit = 24
    for c in comps:
        c["perms"] = perms_of(len(c["branches"]), rnd, limit if len(c["branches"]) <= 4 else 12)
    tagc = collections.Counter()
    for c in comps:
        tagc.update(c["tags"])
    ctx.coverage["compositions"] = len(comps)
    ctx.coverage["construct_tags"] = dict(tagc)
    ctx.coverage["branches_histogram"] = dict(collections.Counter(len(c["branches"]) for c in comps))
    ctx.coverage["rule"] = ("curated corpus + seeded compositions (2-4 subschemas: object schemas with overlapping/disjoint "
                            "properties, compatible/conflicting property schemas, required unions, additionalProperties "
                            "false/true/schema, $ref members, enum/type restrictions, array items, nested disjoint oneOf); "
                            "ALL permutations of each; candidates = per-branch instances, unions, mutants, generic values")

    # ---- (a) real merge on every permutation  +  each permutation converted alone
    mjobs, gjobs, idx = [], [], []
    for ci, c in enumerate(comps):
        for pi, p in enumerate(c["perms"]):
            sch = [c["branches"][i] for i in p]
            mjobs.append({"op": "merge", "schemas": sch, "defs": c["defs"]})
            gjobs.append({"settings": {}, "steps": [{"op": "root", "doc": doc_single(c, p)}], "code": False})
            idx.append((ci, pi))
    mres = vlib.run_bin("c09", mjobs)
    gres = vlib.run_vh("gen", gjobs)
    for (ci, pi), m, g in zip(idx, mres, gres):
        c = comps[ci]
        c.setdefault("merge", {})[pi] = real_canon(m)
        st = g["steps"][0]["r"] if g.get("steps") else g.get("r")
        ok = g.get("r") == "done" and g.get("all_ok") and g.get("render", {}).get("r") == "ok"
        c.setdefault("status", {})[pi] = "ok" if ok else ("panic" if st == "panic" else "rejected")
        c.setdefault("status_detail", {})[pi] = g["steps"][0] if g.get("steps") else g
        if ok:
            c.setdefault("never", {})[pi] = is_never_type(g["dump"], "P")
            c.setdefault("dump1", {})[pi] = g["dump"]
    ctx.coverage["permutations"] = len(idx)
    ctx.coverage["merge_outcomes"] = dict(collections.Counter(c["merge"][pi][0] for c in comps for pi in c["merge"]))
    ctx.coverage["conversion_status"] = dict(collections.Counter(s for c in comps for s in c["status"].values()))

    viol = []          # dict(kind, composition, ...)
    emul = os.environ.get("C09_EMULATE", "")

    def report(kind, c, **kw):
        v = {"kind": kind, "definitions": c["defs"], "allOf": c["branches"], "source": c["file"]}
        v.update(kw)
        viol.append((c, v))

    # order dependence at the level of accept / reject / panic and of never
    for c in comps:
        sts = set(c["status"].values())
        if len(sts) > 1:
            by = {s: [c["perms"][pi] for pi in c["status"] if c["status"][pi] == s][:2] for s in sts}
            report("order-dependent-outcome", c, outcomes=by,
                   details={str(c["perms"][pi]): c["status_detail"][pi] for pi in list(c["status"])[:6]})
    # (a difference never / ok at the MERGE level alone is not a violation: typify defers some conflicts, e.g. a
    #  property filtered through an additionalProperties schema, to the conversion of the wrapped allOf; what the
    #  property speaks about is the behaviour of the generated type, compared below)
    ctx.coverage["compositions_whose_merge_outcome_depends_on_order"] = len(
        [1 for c in comps if len(set(m[0] for m in c["merge"].values())) > 1])

    # ---- (a') K1: Coq model vs real merge
    have_model = os.path.exists(os.path.join(vlib.COQ, "theories", "Algo", "Merge.v"))
    k1_bad = []
    if have_model:
        ok, out = vlib.coq_make(["theories/Algo/Merge.vo"])
        ctx.oblige("coq-build: theories/Algo/Merge.vo", ok, out[-2000:])
        if ok:
            try:
                jobs = [(comps[ci]["defs"], [comps[ci]["branches"][i] for i in comps[ci]["perms"][pi]]) for ci, pi in idx]
                mod = model_merge("c09k1-" + ctx.tier, jobs)
                n_cmp = 0
                n_uns = 0
                mut = os.environ.get("C09_EMULATE", "")
                for (ci, pi), mm in zip(idx, mod):
                    real = comps[ci]["merge"][pi]
                    if mut == "k1-real-widens" and real[0] == "ok" and isinstance(real[1], dict) and "required" in real[1]:
                        real = ("ok", {k: v for k, v in real[1].items() if k != "required"})
                    if mm[0] == "unsupp":
                        n_uns += 1
                        continue
                    n_cmp += 1
                    a = real if real[0] != "ok" else ("ok", real[1])
                    b = mm if mm[0] != "ok" else ("ok", canon_schema(strip_frac(mm[1])))
                    if a != b:
                        k1_bad.append({"definitions": comps[ci]["defs"],
                                       "schemas": [comps[ci]["branches"][i] for i in comps[ci]["perms"][pi]],
                                       "real": a, "model": b})
                fr = collections.Counter(getattr(model_merge, "frag", {}).values())
                ctx.coverage["k1_lists_inside_theorem_fragments"] = {
                    "obj_frag without arrays (exactness, C09_merge_all_exact_obj / C09_merge_all_perm_equiv apply)": fr.get("E", 0),
                    "obj_frag with arrays, single items (same theorems, instances without empty arrays)": fr.get("A", 0),
                    "obj_frag with arrays, tuple items + additionalItems": fr.get("T", 0),
                    "ofrag only (C09_merge_all_obj_sound_partial applies)": fr.get("O", 0),
                    "sfrag only (C09_merge_all_sound_partial applies)": fr.get("S", 0), "outside": fr.get("-", 0)}
                ctx.coverage["k1_compared"] = n_cmp
                ctx.coverage["k1_outside_model_fragment"] = n_uns
                ctx.oblige("correspondence K1: Algo/Merge.v merge_all = verif::merge_all on %d permuted lists "
                           "(%d outside the model's fragment)" % (n_cmp, n_uns), not k1_bad and n_cmp > 0,
                           json.dumps(k1_bad[:2])[:2500])
            except Exception as e:  # noqa
                ctx.oblige("correspondence K1 evaluates", False, str(e)[-2500:])
    else:
        ctx.oblige("Algo/Merge.v present", False, "model file missing")

    # ---- (a5) the reference-preservation test `roughly` (merge.rs Roughly): merge_all on [$ref D, M] and [M, $ref D]
    #      for a table of definitions D (typed and UNTYPED) x members M; real vs model; the result is the bare
    #      reference exactly when the merged schema is `roughly` the referenced one
    if have_model:
        try:
            rdefs = {"UProps": {"properties": {"alpha": {"type": "string"}}},
                     "UReq": {"required": ["alpha"]},
                     "UAp": {"additionalProperties": {"type": "string"}},
                     "UEnum": {"enum": ["red", "green"]},
                     "UBounds": {"minProperties": 1},
                     "TObj": {"type": "object", "properties": {"alpha": {"type": "string"}}},
                     "TObjReq": {"type": "object", "properties": {"alpha": {"type": "string"}}, "required": ["alpha"]},
                     "TClosed": {"type": "object", "properties": {"alpha": {"type": "string"}}, "additionalProperties": False},
                     "TStr": {"type": "string"}, "TStrEnum": {"type": "string", "enum": ["red", "green"]},
                     "TNullable": {"type": ["object", "null"], "properties": {"alpha": {"type": "string"}}},
                     "TArr": {"type": "array", "items": {"type": "string"}},
                     "TArrFixed": {"type": "array", "items": {"type": "string"}, "minItems": 2, "maxItems": 2}}
            rmembers = [{}, True, {"type": "object"}, {"type": "string"}, {"type": ["object", "null"]}, {"type": ["null", "object"]},
                        {"type": "array"}, {"properties": {"alpha": {"type": "string"}}}, {"properties": {"alpha": {}}},
                        {"required": ["alpha"]}, {"type": "object", "required": ["alpha"]}, {"additionalProperties": True},
                        {"additionalProperties": {"type": "string"}}, {"minProperties": 1}, {"enum": ["red", "green"]},
                        {"enum": ["red", "green", "blue"]}, {"type": "array", "items": {"type": "string"}},
                        {"type": "array", "maxItems": 2}, {"type": "array", "uniqueItems": True}]
            rjobs = []
            for dn in sorted(rdefs):
                for mbr in rmembers:
                    rjobs.append((rdefs, [{"$ref": "#/definitions/" + dn}, mbr]))
                    rjobs.append((rdefs, [mbr, {"$ref": "#/definitions/" + dn}]))
            rreal = [real_canon(r) for r in vlib.run_bin("c09", [{"op": "merge", "schemas": sc, "defs": d} for d, sc in rjobs])]
            rmod = model_merge("c09rg-" + ctx.tier, rjobs)
            rbad, kept = [], 0
            for (d, sc), a, b in zip(rjobs, rreal, rmod):
                b2 = b if b[0] != "ok" else ("ok", canon_schema(strip_frac(b[1])))
                if emul == "roughly-keeps-untyped" and a[0] == "ok" and a[1].get("type") == ["object"] and \
                        any(isinstance(x, dict) and x.get("$ref", "").split("/")[-1].startswith("U") for x in sc) and \
                        {"type": "object"} in sc:
                    a = ("ok", {"$ref": [x for x in sc if isinstance(x, dict) and "$ref" in x][0]["$ref"]})
                if a[0] == "ok" and isinstance(a[1], dict) and set(a[1]) == {"$ref"}:
                    kept += 1
                if b[0] != "unsupp" and a != b2:
                    rbad.append({"schemas": sc, "real": a, "model": b2})
            ctx.coverage["roughly_table"] = {"pairs": len(rjobs), "bare_reference_kept": kept, "mismatches": len(rbad)}
            ctx.oblige("correspondence K1 (Roughly): merge_all on %d [$ref D, M] / [M, $ref D] pairs (13 typed and untyped "
                       "definitions x 19 members): real = model; the bare reference is kept in %d of them"
                       % (len(rjobs), kept), not rbad, json.dumps(rbad[:3], default=str)[:2000])
        except Exception as e:  # noqa
            ctx.oblige("roughly table evaluates", False, str(e)[-2000:])

    # ---- (a6) merge_so_format: ALL ordered pairs of {absent, every format convert.rs / merge.rs name, one unknown}
    if have_model:
        try:
            FT = [None, "ip", "ipv4", "ipv6", "uuid", "date", "date-time", "int8", "uint8", "int32", "int64", "uint64",
                  "float", "double", "email"]
            fjobs = [({}, [({"format": x} if x else {}), ({"format": y} if y else {})]) for x in FT for y in FT]
            freal = [real_canon(r) for r in vlib.run_bin("c09", [{"op": "merge", "schemas": sc, "defs": d} for d, sc in fjobs])]
            if emul == "format-drops-ipv6-ip":
                freal = [("never",) if sc == [{"format": "ipv6"}, {"format": "ip"}] else r for (d, sc), r in zip(fjobs, freal)]
            fmod = model_merge("c09ft-" + ctx.tier, fjobs)
            fbad = [{"formats": [sc[0].get("format"), sc[1].get("format")], "real": a, "model": b}
                    for (d, sc), a, b in zip(fjobs, freal, fmod)
                    if a != (b if b[0] != "ok" else ("ok", canon_schema(strip_frac(b[1]))))]
            table = {(sc[0].get("format"), sc[1].get("format")): a for (d, sc), a in zip(fjobs, freal)}
            asym = [{"formats": [x, y], "x,y": table[(x, y)], "y,x": table[(y, x)]}
                    for x in FT for y in FT if str(x) < str(y) and table[(x, y)] != table[(y, x)]]
            ctx.coverage["format_table"] = {"ordered_pairs": len(fjobs), "mismatches": len(fbad), "asymmetric_pairs": len(asym),
                                            "never": len([1 for a in freal if a[0] == "never"])}
            ctx.oblige("correspondence K1 (merge_so_format): Algo/Merge.v merge_fmt = verif::merge_all on all %d ordered pairs of "
                       "%d formats (absent, ip, ipv4, ipv6, uuid, date, date-time, integer widths, float, double, one unknown)"
                       % (len(fjobs), len(FT)), not fbad, json.dumps(fbad[:4])[:1500])
            ctx.oblige("merge_so_format is symmetric: (x, y) and (y, x) give the same outcome for all %d unordered pairs"
                       % (len(FT) * (len(FT) - 1) // 2), not asym, json.dumps(asym[:4])[:1500])
        except Exception as e:  # noqa
            ctx.oblige("format table evaluates", False, str(e)[-2000:])

    # ---- (a7) the hypotheses of C09_merge_fmt_exact about the format recognisers, on the sample strings
    try:
        SIX = ["ip", "ipv4", "ipv6", "uuid", "date", "date-time"]
        samples = sorted({x for g_, b_ in schemagen.FORMAT_SAMPLES.values() for x in g_ + b_} |
                         {"::ffff:1.2.3.4", "1.2.3.4", "0.0.0.0", "::", "2024-02-29T00:00:00+01:00", "00000000-0000-0000-0000-000000000000"})
        okm = oracle.classify([({}, [({"type": "string", "format": f_}, sv) for sv in samples]) for f_ in SIX])
        okm = {f_: dict(zip(samples, row)) for f_, row in zip(SIX, okm)}
        related = lambda x, y: x == y or {x, y} in ({"ip", "ipv4"}, {"ip", "ipv6"})
        hb = [("ipv4<=ip", sv) for sv in samples if okm["ipv4"][sv] and not okm["ip"][sv]] + \
             [("ipv6<=ip", sv) for sv in samples if okm["ipv6"][sv] and not okm["ip"][sv]] + \
             [("disjoint %s/%s" % (x, y), sv) for x in SIX for y in SIX if x < y and not related(x, y)
              for sv in samples if okm[x][sv] and okm[y][sv]]
        ctx.oblige("hypotheses of C09_merge_fmt_exact (ip >= ipv4, ipv6; unrelated formats disjoint) hold for the format "
                   "recognisers on %d sample strings x 6 formats" % len(samples), not hb, json.dumps(hb[:5])[:800])
    except Exception as e:  # noqa
        ctx.oblige("format hypotheses evaluate", False, str(e)[-1500:])

    # ---- (a3) the reduced validator: exhaustive table against the model and against draft-07
    vt_bad, vt_diffs, vt_known = [], [], []
    if have_model:
        try:
            vt_bad, vt_diffs, vt_known = validator_table(ctx, emul)
        except Exception as e:  # noqa
            ctx.oblige("validator table evaluates", False, str(e)[-2000:])

    if vt_known and any(f["id"] == "C09-F11" for f in ctx.findings_for()):
        ctx.known_finding("C09-F11", "C09-F11: check_instance(Integer) rejects integral-valued doubles (%d cells of the "
                                     "validator table, e.g. %s)" % (len(vt_known), json.dumps(vt_known[0], default=str)))

    # ---- (a'') merged-set semantics at the MERGE level, all compositions (no compilation needed):
    #      every candidate (incl. every enum/const literal of the operands) that the oracle finds valid against the
    #      allOf must be valid against the schema the real merge returned, for every permutation
    cands_all, verd_all = {}, {}
    batches = []
    for ci, c in enumerate(comps):
        cs = candidates(ctx.seed * 31 + ci, c)
        for v in c.get("instances", []):
            if json.dumps(v, sort_keys=True) not in {json.dumps(x, sort_keys=True) for x, _ in cs}:
                cs.append((v, "curated"))
        cands_all[ci] = cs
        doc = {"definitions": dict(c["defs"], P={"allOf": c["branches"]})}
        batches.append((doc, [({"$ref": "#/definitions/P"}, v) for v, _ in cs]))
    for ci, r in enumerate(oracle.classify(batches)):
        verd_all[ci] = r
    raw_merge = {}
    for (ci, pi), m in zip(idx, mres):
        raw_merge[(ci, pi)] = m
    mbatches, mmeta = [], []
    for ci, c in enumerate(comps):
        valid_vs = [v for (v, _), r in zip(cands_all[ci], verd_all[ci]) if r is True]
        seen_m = {}
        for pi in c["merge"]:
            kind = c["merge"][pi][0]
            if kind == "never" and valid_vs:
                report("satisfiable-but-never", c, permutation=c["perms"][pi], instance=valid_vs[0], level="merge")
            if kind != "ok" or not valid_vs:
                continue
            raw = raw_merge[(ci, pi)]["schema"]
            if emul == "merge-drops-integers" and isinstance(raw, dict) and isinstance(raw.get("enum"), list) and \
                    "number" in json.dumps(raw.get("type", "")):
                raw = dict(raw, enum=[x for x in raw["enum"] if not (isinstance(x, int) and not isinstance(x, bool))])
            key = json.dumps(raw, sort_keys=True)
            if key in seen_m:
                continue
            seen_m[key] = pi
            mbatches.append(({"definitions": c["defs"]}, [(raw, v) for v in valid_vs]))
            mmeta.append((ci, pi, valid_vs, raw))
    n_mpairs = 0
    for (ci, pi, vs, raw), res in zip(mmeta, oracle.classify(mbatches) if mbatches else []):
        for v, r in zip(vs, res):
            n_mpairs += 1
            if r is False:
                report("valid-instance-rejected", comps[ci], permutation=comps[ci]["perms"][pi], instance=v,
                       merged_schema=raw, level="merge: the instance is valid against every operand but not against "
                                                "the schema verif::merge_all returned")
    ctx.coverage["merge_level_valid_instance_x_merged_schema_pairs"] = n_mpairs

    # ---- (a4) order independence at the MERGE level (C09_merge_all_perm_equiv on real outputs): the schemas
    #      verif::merge_all returns for the permutations of one composition must have the same instance vector
    #      over ALL candidates (never = nothing valid); in particular an unsatisfiable allOf must not become a
    #      permissive schema for some orders
    pbatches, pmeta = [], []
    for ci, c in enumerate(comps):
        distinct = {}
        for pi in c["merge"]:
            kind = c["merge"][pi][0]
            if kind == "never":
                distinct.setdefault("never", pi)
            elif kind == "ok":
                raw = raw_merge[(ci, pi)]["schema"]
                if emul == "perm-keeps-ref" and pi == max(c["merge"]) and len(c["branches"]) >= 3:
                    raw = True
                distinct.setdefault(json.dumps(raw, sort_keys=True), pi)
        if len(distinct) < 2:
            continue
        for key, pi in distinct.items():
            if key != "never":
                pbatches.append(({"definitions": c["defs"]}, [(json.loads(key), v) for v, _ in cands_all[ci]]))
                pmeta.append((ci, pi))
    pres = oracle.classify(pbatches) if pbatches else []
    vecs = collections.defaultdict(dict)
    for (ci, pi), res in zip(pmeta, pres):
        vecs[ci][pi] = res
    n_pvec = 0
    for ci, c in enumerate(comps):
        by = dict(vecs.get(ci, {}))
        nevers = [pi for pi in c["merge"] if c["merge"][pi][0] == "never"]
        if nevers and by:
            by[nevers[0]] = [False] * len(cands_all[ci])
        if len(by) < 2:
            continue
        n_pvec += 1
        ref = min(by)
        for pi in sorted(by):
            if pi == ref:
                continue
            diff = [i for i, (x, y) in enumerate(zip(by[ref], by[pi])) if x is not None and y is not None and x != y]
            if diff:
                i = diff[0]
                report("permutation-changes-merged-instance-set", c, permutation_1=c["perms"][ref],
                       permutation_2=c["perms"][pi], instance=cands_all[ci][i][0],
                       merged_1=c["merge"][ref], merged_2=c["merge"][pi], valid_for_merged_1=by[ref][i],
                       valid_for_merged_2=by[pi][i], oracle_valid_for_allOf=verd_all[ci][i], level="merge-perm",
                       n_differing_candidates=len(diff))
                break
    ctx.coverage["merge_level_compositions_with_several_distinct_merged_schemas"] = n_pvec

    # ---- (b) world: one document per composition with the permutations that convert
    wcases, wmap = [], []
    for ci, c in enumerate(comps):
        which = [pi for pi in c["status"] if c["status"][pi] == "ok"]
        if not which:
            continue
        wcases.append({"settings": {}, "steps": [{"op": "root", "doc": doc_multi(c, c["perms"], which)}]})
        wmap.append((ci, which))
    w = world.World(ctx, "c09-" + ctx.tier, wcases)
    w.build()
    n_okw = len([s for s in w.status if s == "ok"])
    ctx.coverage["world_modules"] = len(wcases)
    ctx.coverage["world_status"] = dict(collections.Counter(w.status))

    # candidates + oracle (computed for every composition in `merge_level` above)
    cand = {wi: cands_all[ci] for wi, (ci, which) in enumerate(wmap)}
    verdicts = [verd_all[ci] for wi, (ci, which) in enumerate(wmap)]
    reqs, rmap = [], []
    for wi, (ci, which) in enumerate(wmap):
        if w.status[wi] != "ok":
            continue
        names = {}
        dump = w.gen[wi]["dump"]
        for pi in which:
            tid = dump["ref_to_id"].get("#/P%d" % pi)
            ent = dump["entries"].get(str(tid), {})
            names[pi] = ent.get("name")
        for pi in which:
            if names[pi] is None:
                continue
            for vi, (v, kind) in enumerate(cand[wi]):
                reqs.append({"m": wi, "t": names[pi], "op": "de", "input": json.dumps(v)})
                rmap.append((wi, pi, vi))
    outs = w.query(reqs) if reqs else []
    acc = collections.defaultdict(dict)     # (wi, pi) -> {vi: canonical answer}
    for (wi, pi, vi), o in zip(rmap, outs):
        if "ok" in o:
            acc[(wi, pi)][vi] = ("ok", json.dumps(tocoq.canon(o["ok"]), sort_keys=True, default=str))
        elif "err" in o:
            acc[(wi, pi)][vi] = ("rej",)
        else:
            acc[(wi, pi)][vi] = ("na", json.dumps(o)[:80])
    ctx.evaluations += len(reqs)

    n_valid = n_valid_acc = 0
    n_never_types = n_unsat = 0
    never_jobs = []
    kinds = collections.Counter()
    for wi, (ci, which) in enumerate(wmap):
        c = comps[ci]
        if w.status[wi] != "ok":
            if not c.get("expect_compile_error"):
                report("generated-module-does-not-compile", c, errors=w.compile_errors.get(wi))
            continue
        vs = verdicts[wi]
        cs = cand[wi]
        for (v, kind), r in zip(cs, vs):
            kinds[(kind.split(":")[0], r)] += 1
        any_valid = any(r is True for r in vs)
        if not any_valid:
            n_unsat += 1
        usable = [pi for pi in which if (wi, pi) in acc]
        for pi in usable:
            a = acc[(wi, pi)]
            if emul == "reject-valid" and pi == usable[-1]:
                a = {vi: ("rej",) for vi in a}
            if emul == "perm-differs" and pi == usable[-1] and len(usable) > 1:
                a = {vi: (("rej",) if x[0] == "ok" else x) for vi, x in a.items()}
            acc[(wi, pi)] = a
            for vi, r in enumerate(vs):
                if r is True:
                    n_valid += 1
                    ctx.nontrivial.add(json.dumps([c["branches"], c["perms"][pi], cs[vi][0]], sort_keys=True))
                    if a.get(vi, ("na",))[0] == "ok":
                        n_valid_acc += 1
                    else:
                        report("valid-instance-rejected", c, permutation=c["perms"][pi], instance=cs[vi][0],
                               compiled_answer=a.get(vi), merged=c["merge"][pi])
        # accept vectors / round trips across permutations
        if len(usable) > 1:
            ref = usable[0]
            for pi in usable[1:]:
                diff = [vi for vi in range(len(cs)) if acc[(wi, ref)].get(vi) != acc[(wi, pi)].get(vi)]
                if diff:
                    vi = diff[0]
                    report("permutation-changes-behaviour", c, permutation_1=c["perms"][ref], permutation_2=c["perms"][pi],
                           instance=cs[vi][0], oracle_valid=vs[vi], answer_1=acc[(wi, ref)].get(vi),
                           answer_2=acc[(wi, pi)].get(vi), n_differing_candidates=len(diff))
                    break
        # never
        dump = w.gen[wi]["dump"]
        for pi in which:
            nev = is_never_type(dump, "P%d" % pi)
            if emul == "never-permissive" and c["merge"][pi][0] == "never":
                nev = False
            if c["merge"][pi][0] == "never":
                n_never_types += 1
                if any_valid:
                    vi = [i for i, r in enumerate(vs) if r is True][0]
                    report("satisfiable-but-never", c, permutation=c["perms"][pi], instance=cs[vi][0])
                else:
                    if not nev:
                        report("merge-never-but-type-not-empty-enum", c, permutation=c["perms"][pi],
                               entry=dump["entries"].get(str(dump["ref_to_id"].get("#/P%d" % pi))))
                    a = acc.get((wi, pi), {})
                    if any(x[0] == "ok" for x in a.values()):
                        vi = [i for i, x in a.items() if x[0] == "ok"][0]
                        report("never-type-accepts", c, permutation=c["perms"][pi], instance=cs[vi][0])
                    never_jobs.append((wi, pi))
            elif nev and any_valid:
                vi = [i for i, r in enumerate(vs) if r is True][0]
                report("satisfiable-but-never", c, permutation=c["perms"][pi], instance=cs[vi][0])
    ctx.coverage["candidates_by_kind_and_verdict"] = {"%s:%s" % k: n for k, n in sorted(kinds.items(), key=str)}
    ctx.coverage["valid_instance_x_permutation_pairs"] = n_valid
    ctx.coverage["compositions_without_valid_candidate"] = n_unsat
    ctx.coverage["never_reported_permutations"] = n_never_types
    ctx.samples = [{"definitions": comps[ci]["defs"], "allOf": comps[ci]["branches"], "permutations": len(which),
                    "merge_first_perm": comps[ci]["merge"][which[0]][0],
                    "candidates": len(cand[wi]), "valid": len([r for r in verdicts[wi] if r is True])}
                   for wi, (ci, which) in list(enumerate(wmap))[:: max(1, len(wmap) // 10)]]

    # ---- Coq obligations
    thms = theorem_names(PROPS, "C09_")
    coq_ok = False
    if thms:
        coq_ok = vlib.standard_coq_obligations(ctx, "Props.C09", thms, vlib.STD_AXIOMS)
    else:
        ctx.oblige("Props/C09.v present", False, "property theorem file missing")

    # ---- uninhabited on the dumped IR of every never-reported permutation
    if os.path.exists(os.path.join(vlib.COQ, "theories", "Check", "Uninhabited.v")) and never_jobs:
        try:
            ok, out = vlib.coq_make(["theories/Check/Uninhabited.vo"])
            ctx.oblige("coq-build: theories/Check/Uninhabited.vo", ok, out[-2000:])
            if ok:
                hdr = tocoq.COQ_HEADER + "From Typify Require Import Check.Uninhabited.\nOpen Scope string_scope.\n"
                exprs = []
                for wi, pi in never_jobs:
                    dump = w.gen[wi]["dump"]
                    tid = dump["ref_to_id"]["#/P%d" % pi]
                    exprs.append('(if uninhabited %s 16 %d%%N then "T" else "F")' % (tocoq.cspace(dump), tid))
                res = vlib.coq_eval_strings("c09un-" + ctx.tier, hdr, exprs, shard=40)
                res = [re.sub(r'"%string$', "", r) for r in res]
                bad = [never_jobs[i] for i, r in enumerate(res) if r != "T"]
                ctx.coverage["uninhabited_evaluations"] = len(res)
                ctx.oblige("validator: uninhabited = true on the dumped IR of all %d permutations whose merge reported never"
                           % len(res), not bad,
                           json.dumps([{"allOf": comps[wmap[wi][0]]["branches"], "perm": pi} for wi, pi in bad[:3]])[:1500])
        except Exception as e:  # noqa
            ctx.oblige("uninhabited evaluates on the dumped IRs", False, str(e)[-1500:])

    # ---- (c) informational: covers(merged schema, generated type)
    try:
        from covers_selftest import covers_eval
        cdocs, cdumps, cmeta = [], [], []
        for wi, (ci, which) in enumerate(wmap):
            c = comps[ci]
            if w.status[wi] != "ok":
                continue
            pi = which[0]
            m = c["merge"][pi]
            if m[0] != "ok" or "allOf" in json.dumps(m[1]) or pi not in c.get("dump1", {}):
                continue
            # the single-permutation document: definitions D*, P ; P's schema replaced by the merged schema
            raw = [r for (cj, pj), r in zip(idx, mres) if cj == ci and pj == pi][0]["schema"]
            cdocs.append({"definitions": dict(c["defs"], P=raw)})
            cdumps.append(c["dump1"][pi])
            cmeta.append(ci)
            if len(cdocs) >= (25 if quick else 120):
                break
        if cdocs:
            res = covers_eval("c09cov-" + ctx.tier, cdocs, cdumps)
            good = len([1 for (i, n), r in res.items() if n == "P" and r])
            tot = len([1 for (i, n), r in res.items() if n == "P"])
            ctx.coverage["covers_on_merged_schema_rate"] = "%d/%d" % (good, tot)
    except Exception as e:  # noqa
        ctx.coverage["covers_on_merged_schema_error"] = str(e)[-400:]

    # ---- verdict
    n_pairs = n_valid
    direct_ok = True
    unlisted = []
    known_hit = collections.Counter()
    for c, v in viol:
        f = finding_for(ctx, c, v["kind"], v.get("instance"))
        if f is not None:
            ctx.known_finding(f["id"], "%s: %s [%s, allOf=%s]" % (f["id"], f["summary"][:160], v["kind"],
                                                                  json.dumps(c["branches"])[:200]))
            known_hit[f["id"]] += 1
        else:
            unlisted.append(v)
    ctx.coverage["known_finding_hits"] = dict(known_hit)
    if os.environ.get("C09_DUMP"):
        json.dump([v for _, v in viol], open(os.environ["C09_DUMP"], "w"), indent=1, default=str)
    # every listed finding must be represented by its witness in the corpus
    for f in ctx.findings_for():
        if f["id"] not in known_hit:
            ctx.oblige("known finding %s reproduced from its corpus witness" % f["id"], False,
                       "the witness no longer shows the recorded behaviour: move the entry to `fixed`")
    ctx.oblige("direct evaluation: oracle-valid => accepted for every permutation (%d/%d instance x permutation pairs)"
               % (n_valid_acc, n_pairs),
               not [v for v in unlisted if v["kind"] in ("valid-instance-rejected", "satisfiable-but-never")],
               json.dumps([v for v in unlisted if v["kind"] in ("valid-instance-rejected", "satisfiable-but-never")][:2])[:2000])
    ctx.oblige("merged-set semantics (merge level): every candidate / operand literal valid against all operands is valid "
               "against the schema verif::merge_all returned, every permutation (%d pairs)" % n_mpairs,
               not [v for v in unlisted if v.get("level") and v.get("level") != "merge-perm"],
               json.dumps([v for v in unlisted if v.get("level") and v.get("level") != "merge-perm"][:2], default=str)[:2000])
    ctx.oblige("order independence (merge level): the schemas verif::merge_all returns for the permutations of a composition "
               "have the same instance vector over all candidates (%d compositions with several distinct merged schemas)" % n_pvec,
               not [v for v in unlisted if v.get("level") == "merge-perm"],
               json.dumps([v for v in unlisted if v.get("level") == "merge-perm"][:2], default=str)[:2500])
    ctx.oblige("direct evaluation: accept vectors, round trips and accept/reject/panic outcome equal across all permutations "
               "(%d permutations of %d compositions)" % (len(idx), len(comps)),
               not [v for v in unlisted if v["kind"].startswith(("permutation", "order")) and v.get("level") != "merge-perm"],
               json.dumps([v for v in unlisted if v["kind"].startswith(("permutation", "order")) and v.get("level") != "merge-perm"][:2])[:2000])
    ctx.oblige("direct evaluation: merge reports never and no candidate valid => empty enum, every candidate rejected (%d)"
               % n_never_types,
               not [v for v in unlisted if v["kind"] in ("merge-never-but-type-not-empty-enum", "never-type-accepts")],
               json.dumps([v for v in unlisted if v["kind"].startswith(("merge-never", "never-type"))][:2])[:2000])
    ctx.oblige("world: generated modules compile (%d/%d)" % (n_okw, len(wcases)),
               not [v for v in unlisted if v["kind"] == "generated-module-does-not-compile"],
               json.dumps(dict(w.compile_errors))[:800])
    if unlisted:
        unlisted.sort(key=lambda v: len(json.dumps(v)))
        v = unlisted[0]
        v["broken_obligations"] = [o[0] for o in ctx.broken()]
        v["other_violations"] = len(unlisted) - 1
        ctx.violation(v)
    elif ctx.broken():
        if k1_bad:
            # a broken correspondence: look for a concrete input among the K1 disagreements
            ctx.violation({"broken_obligations": [(o[0], o[2][:1200]) for o in ctx.broken()],
                           "k1_disagreement": k1_bad[0],
                           "note": "the real merge no longer equals the verified model on this input; the direct "
                                   "evaluation on compiled code found no instance-level failure"}, no_input=True)
        else:
            ctx.violation({"broken_obligations": [(o[0], o[2][:1500]) for o in ctx.broken()]}, no_input=True)
    if ctx.tier == "thorough" and coq_ok:
        rc, out, err = vlib.sh("timeout 1500 coqchk -silent -o -Q theories Typify Typify.Props.C09", cwd=vlib.COQ,
                               timeout=1600)
        ctx.oblige("coqchk re-checks Props.C09 and dependencies", rc == 0, (out + err)[-1500:])
