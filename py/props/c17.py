"""C17 — the introspection API describes the code that is generated.

Deciding method: Coq theorems (Props/C17.v) over `Algo/HasImpl.v`, a model of
TypeEntry::has_impl, of the conditions under which output_enum / output_struct /
output_newtype emit FromStr / Display / Default impls, of what std provides for
the un-named kinds, and of the reported-vs-emitted projections.  Tie, on every
run, over a compiled world of schemas x settings:
  K1   model has_impl (evaluated on the REAL dumped IR)  =  Type::has_impl
  K4e  model emitted_impl                                =  `impl Trait for Name` found by syn
  K6m  model implements                                  vs rustc on `fn a<T: Trait>(){} a::<IDENT>()`
and the property itself evaluated directly on the implementation (no model):
  (b) names / idents / properties / variants / inner / builder() against the syn
      scan and against rustc (`type R = IDENT;` placed where type_mod says),
  (c) has_impl true  =>  the bound assertion compiles,
  (d) crate paths in the output tokens  =>  uses_* flag.
Which of the two modelled repairs (patches/C17-1, C17-2) the working tree has
is decided by observing the real code on the curated witnesses.
"""
import glob
import json
import os
import random
import re

import tocoq
import vlib
import world

THEOREMS = [
    "C17_has_impl_sound",
    "C17_has_impl_sound_repaired",
    "C17_has_impl_sound_repaired_facade",
    "C17_facade_repair_changes_only_known",
    "C17_has_impl_sound_refuted_display_constrained_current",
    "C17_has_impl_sound_refuted_display_constrained",
    "C17_has_impl_sound_refuted_nonzero_default",
    "C17_known_display_constrained_fails",
    "C17_known_nonzero_default_fails",
    "C17_has_impl_fuel_stable",
    "C17_has_impl_terminates",
    "C17_has_impl_can_diverge",
    "C17_props_are_fields",
    "C17_variants_are_variants",
    "C17_variants_are_variants_refuted_tuple1",
    "C17_inner_is_field",
    "C17_builder_some_iff_emitted",
    "C17_names_resolve",
    "C17_uses_flags_cover_sound",
]

EMU = os.environ.get("C17_EMULATE", "")

TRAITS = ["FromStr", "Display", "Default"]
TRAIT_PATH = {"FromStr": "::std::str::FromStr", "Display": "::std::fmt::Display",
              "Default": "::std::default::Default"}
SETTINGS = [{}, {"type_mod": "types"}, {"struct_builder": True}, {"struct_builder": True, "type_mod": "types"}]
CORPUS = os.path.join(vlib.ROOT, "corpus", "C17")
NONZERO = "::std::num::NonZero"


def nows(s):
    return re.sub(r"\s+", "", s or "")


# --------------------------------------------------------------------------
# cases
# --------------------------------------------------------------------------
KINDS_DOC = {
    "definitions": {
        "PlainStruct": {"type": "object", "required": ["a", "u"], "properties": {
            "a": {"type": "string"}, "b": {"type": "integer"}, "c": {"type": "array", "items": {"type": "string"}},
            "d": {"type": "integer", "default": 7}, "e": {"type": "boolean", "default": False},
            "u": {"type": "string", "format": "uuid"}, "when": {"type": "string", "format": "date-time"},
            "day": {"type": "string", "format": "date"}, "ip": {"type": "string", "format": "ipv4"},
            "any": {}, "f": {"type": "number"}, "g": {"type": "number", "format": "float"},
            "nothing": {"type": "null"}}},
        "AllDefaults": {"type": "object", "properties": {
            "x": {"type": "integer", "default": 3}, "y": {"type": "string"}, "z": {"type": "array", "items": {"type": "integer"}}}},
        "WithDefault": {"type": "object", "required": ["p"], "properties": {"p": {"type": "integer"}},
                        "default": {"p": 4}},
        "WithExtra": {"type": "object", "properties": {"k": {"type": "string"}},
                      "additionalProperties": {"type": "integer"}},
        "StrMap": {"type": "object", "additionalProperties": {"type": "string"}},
        "AnyMap": {"type": "object", "additionalProperties": True},
        "SimpleEnum": {"type": "string", "enum": ["red", "green", "blue-ish"]},
        "SimpleEnumDefault": {"type": "string", "enum": ["on", "off"], "default": "off"},
        "External": {"oneOf": [
            {"type": "object", "properties": {"alpha": {"type": "string"}}, "required": ["alpha"], "additionalProperties": False},
            {"type": "object", "properties": {"beta": {"type": "array", "items": [{"type": "string"}, {"type": "integer"}],
                                                         "minItems": 2, "maxItems": 2}}, "required": ["beta"], "additionalProperties": False},
            {"type": "object", "properties": {"gamma": {"type": "object", "properties": {"x": {"type": "integer"}, "y": {"type": "string"}},
                                                          "required": ["x"]}}, "required": ["gamma"], "additionalProperties": False},
            {"type": "string", "enum": ["delta"]}]},
        "Internal": {"oneOf": [
            {"type": "object", "properties": {"kind": {"type": "string", "enum": ["a"]}, "n": {"type": "integer"}}, "required": ["kind", "n"]},
            {"type": "object", "properties": {"kind": {"type": "string", "enum": ["b"]}}, "required": ["kind"]}]},
        "Adjacent": {"oneOf": [
            {"type": "object", "properties": {"t": {"type": "string", "enum": ["one"]}, "c": {"type": "integer"}}, "required": ["t", "c"]},
            {"type": "object", "properties": {"t": {"type": "string", "enum": ["two"]}, "c": {"type": "string"}}, "required": ["t", "c"]}]},
        "Ip4": {"type": "string", "format": "ipv4"},
        "Ip6": {"type": "string", "format": "ipv6"},
        "UntaggedStrs": {"oneOf": [{"$ref": "#/definitions/Ip4"}, {"$ref": "#/definitions/Ip6"}]},
        "UntaggedMixed": {"anyOf": [{"type": "integer"}, {"type": "string"}, {"$ref": "#/definitions/PlainStruct"}]},
        "IntNewtype": {"type": "integer", "format": "uint16"},
        "StrNewtype": {"type": "string"},
        "FloatNewtype": {"type": "number"},
        "BoolNewtype": {"type": "boolean"},
        "UuidNewtype": {"type": "string", "format": "uuid"},
        "IntEnum": {"type": "integer", "enum": [1, 2, 3]},
        "Deny": {"type": "string", "not": {"enum": ["bad", "worse"]}},
        "Alias": {"$ref": "#/definitions/IntNewtype"},
        "AliasOfEnum": {"$ref": "#/definitions/SimpleEnum"},
        "Fixed": {"type": "array", "items": {"type": "integer"}, "minItems": 3, "maxItems": 3},
        "Pair": {"type": "array", "items": [{"type": "integer"}, {"type": "string"}], "minItems": 2, "maxItems": 2},
        "SetOf": {"type": "array", "items": {"type": "string"}, "uniqueItems": True},
        "ListOfAny": {"type": "array"},
        "Node": {"type": "object", "properties": {"next": {"$ref": "#/definitions/Node"}, "v": {"type": "integer"}}},
        "Tree": {"type": "object", "required": ["kids"], "properties": {
            "kids": {"type": "array", "items": {"$ref": "#/definitions/Tree"}}}},
        "NewtypeDefault": {"type": "integer", "default": 5},
        "Holder": {"type": "object", "required": ["fixed", "pair", "alias"], "properties": {
            "fixed": {"$ref": "#/definitions/Fixed"}, "pair": {"$ref": "#/definitions/Pair"},
            "alias": {"$ref": "#/definitions/Alias"}, "opt_node": {"$ref": "#/definitions/Node"},
            "inline_pair": {"type": "array", "items": [{"type": "boolean"}, {"type": "number"}], "minItems": 2, "maxItems": 2},
            "inline_fixed": {"type": "array", "items": {"type": "string"}, "minItems": 2, "maxItems": 2},
            "a32": {"type": "array", "items": {"type": "integer"}, "minItems": 32, "maxItems": 32},
            "t12": {"type": "array", "items": [{"type": "integer"}] * 12, "minItems": 12, "maxItems": 12}}},
    }
}

# replacement / conversion with declared impls
REPLACE_CASE = {
    "settings": {"replace": {"Addr": {"type": "::std::net::Ipv4Addr", "impls": ["Display", "FromStr"]}},
                 "convert": [{"schema": {"type": "string", "format": "my-ip"}, "type": "::std::net::Ipv6Addr",
                              "impls": ["Display", "FromStr"]},
                             {"schema": {"type": "string", "format": "my-flag"}, "type": "bool",
                              "impls": ["Display", "FromStr", "Default"]}]},
    "doc": {"definitions": {
        "Addr": {"type": "string"},
        "UsesAddr": {"type": "object", "required": ["a", "b"], "properties": {
            "a": {"$ref": "#/definitions/Addr"}, "b": {"type": "string", "format": "my-ip"},
            "c": {"type": "string", "format": "my-flag"}}},
        "WrapAddr": {"$ref": "#/definitions/Addr"},
        "WrapConv": {"type": "string", "format": "my-ip"},
        "EitherAddr": {"oneOf": [{"$ref": "#/definitions/WrapAddr"}, {"$ref": "#/definitions/WrapConv"}]}}},
}


class G:
    """Random schemas from the region that is clean on the pinned tree: no
    String-constrained newtypes (F1), no NonZero integers (F2), no defaults on
    native-typed properties (F3), no one-component tuple variants (F4)."""

    LEAVES = [{"type": "string"}, {"type": "integer"}, {"type": "boolean"}, {"type": "number"},
              {"type": "string", "format": "uuid"}, {"type": "integer", "format": "uint8"},
              {"type": "string", "format": "date-time"}, {"type": "string", "format": "ipv6"},
              {"type": "integer", "format": "int32", "minimum": 0}, {}, {"type": "null"},
              {"type": "number", "format": "float"},
              # unrecognised formats with string constraints: a plain String on the unchanged tree
              {"type": "string", "format": "hostname", "pattern": "^h[a-z]*$"},
              {"type": "string", "format": "email", "maxLength": 40}]

    def __init__(self, rnd):
        self.rnd = rnd

    def leaf(self, refs):
        if refs and self.rnd.random() < 0.45:
            return {"$ref": "#/definitions/" + self.rnd.choice(refs)}
        return json.loads(json.dumps(self.rnd.choice(self.LEAVES)))

    def schema(self, depth, refs):
        r = self.rnd.random()
        if depth <= 0 or r < 0.3:
            return self.leaf(refs)
        if r < 0.42:
            s = {"type": "array", "items": self.schema(depth - 1, refs)}
            if self.rnd.random() < 0.25:
                s["uniqueItems"] = True
            if self.rnd.random() < 0.25:
                n = self.rnd.choice([1, 2, 3, 32])
                s["minItems"] = s["maxItems"] = n
            return s
        if r < 0.5:
            return {"type": "object", "additionalProperties": self.schema(depth - 1, refs)}
        if r < 0.6:
            n = self.rnd.choice([2, 2, 3, 12])
            return {"type": "array", "items": [self.schema(depth - 1, refs) for _ in range(n)],
                    "minItems": n, "maxItems": n}
        if r < 0.85:
            return self.obj(depth, refs)
        if r < 0.92:
            vals = self.rnd.sample(["a", "b", "c-d", "E", "f_g", "1x"], self.rnd.randint(1, 4))
            s = {"type": "string", "enum": vals}
            if self.rnd.random() < 0.3:
                s["default"] = vals[0]
            return s
        return self.oneof(depth, refs)

    def obj(self, depth, refs):
        names = self.rnd.sample(["a", "b", "c", "dd", "e_e", "type", "fooBar"], self.rnd.randint(0, 4))
        props = {}
        for n in names:
            p = self.schema(depth - 1, refs)
            if self.rnd.random() < 0.3 and p.get("type") in ("integer", "boolean", "number") and "format" not in p:
                p["default"] = {"integer": self.rnd.choice([0, 3]), "boolean": self.rnd.choice([True, False]),
                                "number": 1.5}[p["type"]]
            elif self.rnd.random() < 0.2 and p == {"type": "string"}:
                p["default"] = self.rnd.choice(["", "dflt"])
            props[n] = p
        req = [n for n in names if self.rnd.random() < 0.5]
        s = {"type": "object", "properties": props}
        if req:
            s["required"] = req
        r = self.rnd.random()
        if r < 0.15:
            s["additionalProperties"] = False
        elif r < 0.3:
            s["additionalProperties"] = self.schema(0, refs)
        return s

    def oneof(self, depth, refs):
        r = self.rnd.random()
        if r < 0.4:
            tags = self.rnd.sample(["p", "q", "r", "s"], self.rnd.randint(2, 3))
            alts = []
            for t in tags:
                k = self.rnd.random()
                if k < 0.4:
                    inner = self.obj(depth - 1, refs)
                elif k < 0.7:
                    inner = {"type": "array", "items": [self.leaf(refs), self.leaf(refs)], "minItems": 2, "maxItems": 2}
                else:
                    inner = self.leaf(refs)
                alts.append({"type": "object", "properties": {t: inner}, "required": [t], "additionalProperties": False})
            return {"oneOf": alts}
        if r < 0.7:
            alts = []
            for t in self.rnd.sample(["x", "y", "z"], 2):
                o = self.obj(depth - 1, refs)
                o["properties"]["kind"] = {"type": "string", "enum": [t]}
                o["required"] = sorted(set(o.get("required", []) + ["kind"]))
                o.pop("additionalProperties", None)
                alts.append(o)
            return {"oneOf": alts}
        return {"anyOf": [{"type": "integer"}, {"type": "string"}, {"type": "boolean"}][:self.rnd.randint(2, 3)]}

    def doc(self):
        names = self.rnd.sample(["Alpha", "Beta", "Gamma", "Delta", "Kappa", "Sigma", "Omega", "Rho"], self.rnd.randint(2, 6))
        # aliases (`{"$ref": ..}` definitions) only point at non-alias definitions: chains/cycles of
        # aliases produce modules that do not compile for reasons outside C17 (corpus 10 keeps one)
        aliases = [n for n in names[1:] if self.rnd.random() < 0.15]
        solid = [n for n in names if n not in aliases]
        defs = {}
        for n in names:
            r = self.rnd.random()
            if n in aliases:
                defs[n] = {"$ref": "#/definitions/" + self.rnd.choice(solid)}
            elif r < 0.5:
                defs[n] = self.obj(2, names)
                if self.rnd.random() < 0.15 and not defs[n].get("required"):
                    defs[n]["default"] = {}
            else:
                defs[n] = self.schema(2, names)
                if set(defs[n].keys()) == {"$ref"}:
                    defs[n] = self.obj(1, names)
        return {"definitions": defs}


# --------------------------------------------------------------------------
# single-source spaces: ONE construct per space that can pull in an external
# crate, so that the (sticky) uses_* flag cannot have been set by anything else
# --------------------------------------------------------------------------
PAT = "^a[a-z0-9]*$"
UNRECOGNISED_FORMATS = ["hostname", "uri", "email", "bogus"]
RECOGNISED_STRING_FORMATS = ["uuid", "date", "date-time", "ip", "ipv4", "ipv6"]


def crate_leaves():
    """(tag, crate the construct is about, schema)"""
    out = []
    S = lambda **kw: dict({"type": "string"}, **kw)
    # regress
    out.append(("pattern", "regress", S(pattern=PAT)))
    out.append(("pattern+len", "regress", S(pattern=PAT, minLength=1, maxLength=9)))
    for f in UNRECOGNISED_FORMATS:
        out.append(("pattern+format:" + f, "regress", S(format=f, pattern=PAT)))
        out.append(("len+format:" + f, "regress", S(format=f, minLength=1, maxLength=9)))
    for f in RECOGNISED_STRING_FORMATS:
        out.append(("pattern+format:" + f, "regress", S(format=f, pattern=PAT)))
    out.append(("propertyNames-pattern", "regress",
                {"type": "object", "propertyNames": {"pattern": PAT}, "additionalProperties": {"type": "integer"}}))
    out.append(("propertyNames-typed-pattern", "regress",
                {"type": "object", "propertyNames": {"type": "string", "pattern": PAT}, "additionalProperties": {"type": "boolean"}}))
    for f in ("hostname", "email", "uuid"):
        out.append(("propertyNames-pattern+format:" + f, "regress",
                    {"type": "object", "propertyNames": {"type": "string", "format": f, "pattern": PAT},
                     "additionalProperties": {"type": "integer"}}))
    out.append(("propertyNames-len", "regress",
                {"type": "object", "propertyNames": {"type": "string", "maxLength": 8}, "additionalProperties": {"type": "integer"}}))
    out.append(("patternProperties", "regress", {"type": "object", "patternProperties": {PAT: {"type": "integer"}}}))
    out.append(("patternProperties-closed", "regress",
                {"type": "object", "patternProperties": {PAT: {"type": "boolean"}}, "additionalProperties": False}))
    out.append(("pattern-enum", "regress", S(pattern=PAT, enum=["ab", "ac", "zz"])))
    # uuid / chrono
    out.append(("format:uuid", "uuid", S(format="uuid")))
    out.append(("propertyNames-format:uuid", "uuid",
                {"type": "object", "propertyNames": {"type": "string", "format": "uuid"}, "additionalProperties": {"type": "integer"}}))
    out.append(("format:date", "chrono", S(format="date")))
    out.append(("format:date-time", "chrono", S(format="date-time")))
    out.append(("propertyNames-format:date", "chrono",
                {"type": "object", "propertyNames": {"type": "string", "format": "date"}, "additionalProperties": {"type": "integer"}}))
    # serde_json
    out.append(("any:{}", "serde_json", {}))
    out.append(("any:true", "serde_json", True))
    out.append(("array-of-any", "serde_json", {"type": "array"}))
    out.append(("set-of-any", "serde_json", {"type": "array", "uniqueItems": True}))
    out.append(("object-of-any", "serde_json", {"type": "object"}))
    out.append(("map-of-any", "serde_json", {"type": "object", "additionalProperties": True}))
    out.append(("map-of-{}", "serde_json", {"type": "object", "additionalProperties": {}}))
    out.append(("struct+extra-any", "serde_json",
                {"type": "object", "properties": {"k": {"type": "integer"}}, "additionalProperties": True}))
    out.append(("any-with-default", "serde_json", {"default": {"a": [1, None]}}))
    out.append(("array-of-any-with-default", "serde_json", {"type": "array", "default": [1, "x"]}))
    out.append(("items-true", "serde_json", {"type": "array", "items": True}))
    out.append(("tuple-with-any", "serde_json", {"type": "array", "items": [{"type": "integer"}, {}], "minItems": 2, "maxItems": 2}))
    out.append(("not-typed-description-only", "serde_json", {"description": "anything goes"}))
    return out


def leaf_positions(leaf):
    """(position tag, document) — the leaf used in exactly one place"""
    I = {"type": "integer"}
    D = {"$ref": "#/definitions/X"}
    yield "definition", {"definitions": {"X": leaf}}
    yield "prop-required", {"definitions": {"H": {"type": "object", "required": ["p"], "properties": {"p": leaf}}}}
    yield "map-value", {"definitions": {"H": {"type": "object", "additionalProperties": leaf}}}
    yield "untagged-variant", {"definitions": {"H": {"anyOf": [leaf, I]}}}
    yield "prop-optional", {"definitions": {"H": {"type": "object", "properties": {"p": leaf, "q": I}}}}
    yield "items", {"definitions": {"H": {"type": "array", "items": leaf}}}
    yield "set-items", {"definitions": {"H": {"type": "array", "items": leaf, "uniqueItems": True}}}
    yield "tuple-item", {"definitions": {"H": {"type": "array", "items": [I, leaf], "minItems": 2, "maxItems": 2}}}
    yield "struct-extra", {"definitions": {"H": {"type": "object", "properties": {"k": I}, "additionalProperties": leaf}}}
    yield "external-variant", {"definitions": {"H": {"oneOf": [
        {"type": "object", "properties": {"a": leaf}, "required": ["a"], "additionalProperties": False},
        {"type": "object", "properties": {"b": I}, "required": ["b"], "additionalProperties": False}]}}}
    yield "struct-variant-field", {"definitions": {"H": {"oneOf": [
        {"type": "object", "properties": {"kind": {"type": "string", "enum": ["x"]}, "v": leaf}, "required": ["kind", "v"]},
        {"type": "object", "properties": {"kind": {"type": "string", "enum": ["y"]}}, "required": ["kind"]}]}}}
    yield "nullable-prop", {"definitions": {"H": {"type": "object", "properties": {"p": {"oneOf": [leaf, {"type": "null"}]}}}}}
    yield "alias", {"definitions": {"X": leaf, "Y": D}}
    yield "ref-prop", {"definitions": {"X": leaf, "H": {"type": "object", "required": ["p"], "properties": {"p": D}}}}
    yield "allOf-one", {"definitions": {"H": {"allOf": [leaf]}}}
    yield "fixed-array", {"definitions": {"H": {"type": "array", "items": leaf, "minItems": 2, "maxItems": 2}}}
    if isinstance(leaf, dict):
        yield "titled-root", dict(leaf, title="RootThing")


QUICK_POSITIONS = ("definition", "prop-required", "map-value", "untagged-variant")
# leaves that are put into EVERY position also in the quick tier
QUICK_FULL = ("pattern", "pattern+format:hostname", "propertyNames-pattern", "format:uuid", "format:date-time", "any:{}")


def single_source_cases(ctx):
    out = []
    k = 0
    for tag, crate, leaf in crate_leaves():
        for pos, doc in leaf_positions(leaf):
            if ctx.tier != "thorough" and pos not in QUICK_POSITIONS and tag not in QUICK_FULL:
                continue
            out.append({"name": "single:%s:%s@%s" % (crate, tag, pos), "origin": "single-source",
                        "settings": SETTINGS[k % len(SETTINGS)], "steps": [{"op": "root", "doc": doc}],
                        "single": {"crate": crate, "construct": tag, "position": pos}})
            k += 1
    return out


# --------------------------------------------------------------------------
# std's trait-impl limits: arrays around 32, tuples around 12
# --------------------------------------------------------------------------
def _arr(item, n):
    return {"type": "array", "items": item, "minItems": n, "maxItems": n}


def limit_cases(ctx):
    """Arrays [T; N] at N = 0, 1, 31, 32, 33, 48, 64 and tuples of 11..14 components, with item types that
    do / do not implement Default.  `add` steps without a name put the array / tuple into the type space as
    an UN-named entry that no emitted item mentions, so the module compiles for every N and the bound chunk
    `a::<[T; N]>()` is judged by rustc; in the property / definition positions the module does not compile for
    N > 32 (serde, Debug: C01), there the std-closed idents are judged by the standalone rustc run."""
    thorough = ctx.tier == "thorough"
    lengths = [0, 1, 31, 32, 33, 48, 64] if thorough else [0, 1, 32, 33, 48]
    defs = {
        "WithDefault": {"type": "object", "properties": {"a": {"type": "integer"}}, "default": {}},
        "Plain": {"type": "object", "required": ["a"], "properties": {"a": {"type": "integer"}}},
        "Color": {"type": "string", "enum": ["red", "green"], "default": "red"},
    }
    items = [("i64", {"type": "integer"}, None), ("string", {"type": "string"}, None),
             ("nonzero", {"type": "integer", "minimum": 1}, None),
             ("with-default", {"$ref": "#/definitions/WithDefault"}, ["WithDefault"]),
             ("plain", {"$ref": "#/definitions/Plain"}, ["Plain"])]
    if thorough:
        items += [("bool", {"type": "boolean"}, None), ("uuid", {"type": "string", "format": "uuid"}, None),
                  ("enum-default", {"$ref": "#/definitions/Color"}, ["Color"]),
                  ("nested", _arr({"type": "integer"}, 2), None), ("opt", {"type": ["integer", "null"]}, None)]
    out = []
    k = 0

    def add(name, steps, lim):
        nonlocal k
        out.append({"name": "limit:" + name, "origin": "std-limits", "settings": SETTINGS[k % len(SETTINGS)],
                    "steps": steps, "limit": lim})
        k += 1

    for n in lengths:
        for tag, item, needs in items:
            pre = [{"op": "refs", "defs": {d: defs[d] for d in needs}}] if needs else []
            a = _arr(item, n)
            lim = {"kind": "array", "n": n, "item": tag}
            add("array[%s;%d]@unnamed" % (tag, n), pre + [{"op": "add", "schema": a}], lim)
            add("array[%s;%d]@unnamed-tuple" % (tag, n),
                pre + [{"op": "add", "schema": {"type": "array", "items": [a, {"type": "integer"}], "minItems": 2, "maxItems": 2}}], lim)
            dd = {d: defs[d] for d in needs} if needs else {}
            add("array[%s;%d]@property" % (tag, n),
                [{"op": "root", "doc": {"definitions": dict(dd, H={"type": "object", "required": ["p"],
                                                                  "properties": {"p": a, "o": a}})}}], lim)
            add("array[%s;%d]@definition" % (tag, n), [{"op": "root", "doc": {"definitions": dict(dd, X=a)}}], lim)
            if thorough:
                add("array[%s;%d]@unnamed-array-of-array" % (tag, n), pre + [{"op": "add", "schema": _arr(a, 2)}], lim)
                add("array[%s;%d]@unnamed-vec" % (tag, n), pre + [{"op": "add", "schema": {"type": "array", "items": a}}], lim)
    # Box around an array (cycle breaking) at a small and at a large N
    for n in ([2, 33] if not thorough else [1, 2, 32, 33, 48]):
        add("array[box;%d]@cycle" % n, [{"op": "root", "doc": {"definitions": {"Node": {
            "type": "object", "properties": {"kids": _arr({"$ref": "#/definitions/Node"}, n), "v": {"type": "integer"}}}}}}],
            {"kind": "array", "n": n, "item": "box"})
    for m in ([11, 12, 13, 14] if thorough else [12, 13]):
        for tag, comp in (("i64", [{"type": "integer"}] * m), ("mixed", ([{"type": "string"}, {"type": "boolean"}] * 7)[:m]),
                          ("one-nonzero", [{"type": "integer"}] * (m - 1) + [{"type": "integer", "minimum": 1}])):
            t = {"type": "array", "items": comp, "minItems": m, "maxItems": m}
            lim = {"kind": "tuple", "n": m, "item": tag}
            add("tuple%d[%s]@unnamed" % (m, tag), [{"op": "add", "schema": t}], lim)
            add("tuple%d[%s]@unnamed-array" % (m, tag), [{"op": "add", "schema": _arr(t, 2)}], lim)
            add("tuple%d[%s]@property" % (m, tag),
                [{"op": "root", "doc": {"definitions": {"H": {"type": "object", "required": ["p"], "properties": {"p": t}}}}}], lim)
    return out


IDENT_OK = {"bool", "i8", "i16", "i32", "i64", "u8", "u16", "u32", "u64", "f32", "f64", "usize", "Vec"}


def std_closed(ident):
    """The ident mentions nothing but ::std paths and primitives (can be judged without the generated module)."""
    t = re.sub(r"::\s*std\s*(::\s*[A-Za-z_][A-Za-z0-9_]*\s*)+", " ", ident)
    t = re.sub(r"\b\d+usize\b", " ", t)
    return all(w in IDENT_OK for w in re.findall(r"[A-Za-z_][A-Za-z0-9_]*", t))


SA_MSGS = {}


def standalone_bounds(ctx, pairs):
    """pairs: list of (key, ident, trait).  One rustc run (1.80.1, no dependencies) over a file with one line per
    pair; returns {key: True(compiles) / False / None(rustc did not run)}."""
    if not pairs:
        return {}
    d = os.path.join(vlib.WORK, "cases", "c17-standalone")
    os.makedirs(d, exist_ok=True)
    with open(os.path.join(d, "rust-toolchain.toml"), "w") as f:
        f.write("[toolchain]\nchannel = \"1.80.1\"\n")
    lines = ["#![allow(warnings)]"]
    for k, (key, ident, tr) in enumerate(pairs):
        lines.append("mod p%d { fn a<T: %s>() {} pub fn b() { a::<%s>(); } }" % (k, TRAIT_PATH[tr], ident))
    with open(os.path.join(d, "lib.rs"), "w") as f:
        f.write("\n".join(lines) + "\n")
    rc, out, err = vlib.sh(["rustc", "--edition", "2021", "--crate-type", "lib", "--emit", "metadata", "--error-format", "json",
                            "-o", os.path.join(d, "lib.rmeta"), "lib.rs"], cwd=d, timeout=600)
    bad = set()
    nerr = 0
    SA_MSGS.clear()
    for line in err.splitlines():
        try:
            m = json.loads(line)
        except ValueError:
            continue
        if m.get("level") != "error":
            continue
        for sp in m.get("spans", []):
            if sp.get("is_primary"):
                bad.add(sp["line_start"] - 2)
                nerr += 1
                if 0 <= sp["line_start"] - 2 < len(pairs):
                    SA_MSGS[pairs[sp["line_start"] - 2][0]] = [(m.get("code") or {}).get("code"), m.get("message")]
    if rc != 0 and not bad:
        ctx.log("standalone rustc failed without attributable errors: " + err[-400:])
        return {key: None for key, _, _ in pairs}
    return {key: (k not in bad) for k, (key, _, _) in enumerate(pairs)}


def load_corpus():
    out = []
    for p in sorted(glob.glob(os.path.join(CORPUS, "*.json"))):
        c = json.load(open(p))
        c["file"] = os.path.basename(p)
        out.append(c)
    return out


def gen_cases(ctx):
    """list of {"name", "origin", "settings", "steps"}"""
    cases = []
    for c in load_corpus():
        cases.append({"name": "corpus:" + c["file"], "origin": "corpus", "settings": c.get("settings", {}),
                      "steps": c["steps"], "expect": c.get("expect", {})})
    fixtures = sorted(glob.glob(os.path.join(vlib.REPO, "typify", "tests", "schemas", "*.json")))
    fixtures.append(os.path.join(vlib.REPO, "example.json"))
    nset = len(SETTINGS) if ctx.tier == "thorough" else 2
    for k, p in enumerate(fixtures):
        try:
            doc = json.load(open(p))
        except Exception:  # noqa
            continue
        for j in range(nset):
            st = SETTINGS[(k + j * 3) % len(SETTINGS)] if ctx.tier != "thorough" else SETTINGS[j]
            cases.append({"name": "fixture:%s:%s" % (os.path.basename(p), json.dumps(st, sort_keys=True)),
                          "origin": "fixture", "settings": st, "steps": [{"op": "root", "doc": doc}]})
    for st in SETTINGS:
        cases.append({"name": "kinds:" + json.dumps(st, sort_keys=True), "origin": "kinds", "settings": st,
                      "steps": [{"op": "root", "doc": KINDS_DOC}]})
    for st in ({}, {"type_mod": "types", "struct_builder": True}):
        s2 = dict(REPLACE_CASE["settings"])
        s2.update(st)
        cases.append({"name": "replace:" + json.dumps(st, sort_keys=True), "origin": "replace", "settings": s2,
                      "steps": [{"op": "root", "doc": REPLACE_CASE["doc"]}]})
    cases.append({"name": "maptype", "origin": "kinds", "settings": {"map_type": "::std::collections::BTreeMap"},
                  "steps": [{"op": "root", "doc": KINDS_DOC}]})
    cases += single_source_cases(ctx)
    cases += limit_cases(ctx)
    rnd = random.Random(ctx.seed * 1000003 + 17)
    g = G(rnd)
    nrand = 40 if ctx.tier == "quick" else 320
    for k in range(nrand):
        cases.append({"name": "random:%d" % k, "origin": "random", "settings": SETTINGS[k % len(SETTINGS)],
                      "steps": [{"op": "root", "doc": g.doc()}]})
    return cases


# --------------------------------------------------------------------------
# emulated mutations of typify's answers (detection tests; see notes/C17.md)
# --------------------------------------------------------------------------
def emulate(g):
    """Transform a `vh gen` result the way a broken typify would answer."""
    if not EMU or "types" not in g or not isinstance(g["types"], list):
        return g
    g = json.loads(json.dumps(g))
    for t in g["types"]:
        k = t["details"]["k"]
        if EMU == "struct_display" and k == "struct":
            t["has_impl"]["Display"] = True            # has_impl lies about plain structs
        if EMU == "option_fromstr" and k == "option":
            t["has_impl"]["FromStr"] = True
        if EMU == "required_flip" and k == "struct":
            for p in t["details"]["props"]:
                p["required"] = not p["required"]
        if EMU == "drop_variant" and k == "enum" and len(t["details"]["variants"]) > 1:
            t["details"]["variants"].pop()
        if EMU == "builder_always" and k in ("enum", "newtype"):
            t["builder"] = "builder :: " + t["name"]
        if EMU == "ident_typo" and k == "newtype":
            t["ident"] = t["ident"] + "X"
        if EMU == "inner_wrong" and k == "newtype":
            t["details"]["inner"] = t["id"]
    if EMU == "uses_uuid_off":
        g["uses"]["uuid"] = False
    if EMU == "uses_regress_off":
        g["uses"]["regress"] = False
    return g


# --------------------------------------------------------------------------
# driver chunks
# --------------------------------------------------------------------------
def scope_prelude(type_mod):
    """Where the API's idents are meant to be used: the parent of the module
    `type_mod` when it is set, the module itself otherwise."""
    if type_mod:
        return "pub mod %s { pub use super::super::super::*; }" % type_mod
    return "#[allow(unused_imports)] use super::super::*;"


def unique_idents(g):
    seen = {}
    for t in g["types"]:
        seen.setdefault(t["ident"], t)
    return seen


def chunks_fn(i, g):
    g = emulate(g)
    if not isinstance(g.get("types"), list):
        return []
    tm = g["dump"]["settings"]["type_mod"]
    pre = scope_prelude(tm)
    out = []
    for ident, t in unique_idents(g).items():
        out.append(("r-%d" % t["id"], "mod c17_r_%d { %s pub type R = %s; }" % (t["id"], pre, ident), []))
        for tr in TRAITS:
            out.append(("b-%d-%s" % (t["id"], tr),
                        "mod c17_b_%d_%s { %s fn a<T: %s>() {} pub fn b() { a::<%s>(); } }" % (
                            t["id"], tr, pre, TRAIT_PATH[tr], ident), []))
    for t in g["types"]:
        if t.get("builder"):
            out.append(("rb-%d" % t["id"], "mod c17_rb_%d { %s pub type B = %s; }" % (t["id"], pre, t["builder"]), []))
    return out


# --------------------------------------------------------------------------
# python-side classification of the known classes (independent of Coq)
# --------------------------------------------------------------------------
def ent(dump, i):
    return dump["entries"].get(str(i))


def is_cstring(e):
    return bool(e) and e["kind"] == "newtype" and e["constraints"]["k"] == "string"


def reaches_nonzero(dump, i, depth=0):
    e = ent(dump, i)
    if not e or depth > 64:
        return False
    k = e["kind"]
    if k == "integer":
        return e["name"].startswith(NONZERO)
    if k == "box":
        return reaches_nonzero(dump, e["id"], depth + 1)
    if k == "tuple":
        return any(reaches_nonzero(dump, j, depth + 1) for j in e["ids"])
    if k == "array":
        return e["len"] != 0 and reaches_nonzero(dump, e["id"], depth + 1)
    return False


def strip_docs(tokens):
    return re.sub(r'# \[doc = "(?:[^"\\]|\\.)*"\]', "", tokens)


def crates_in_tokens(tokens):
    t = strip_docs(tokens)
    res = {}
    for c in ("chrono", "uuid", "serde_json", "regress"):
        res[c] = bool(re.search(r"(?<![A-Za-z0-9_])%s\s*::" % c, t))
    return res


# --------------------------------------------------------------------------
# the check
# --------------------------------------------------------------------------
def observe_cfg(ctx, cases, gens):
    """Which of the modelled repairs does the working tree have?
    (display impl emitted for String-constrained newtypes [C17-1], has_impl(NonZero, Default)
    false [C17-2 = 2273521], facade answers false for (String-constrained newtype, Display) [C17-3])"""
    fix_display = fix_nonzero = fix_facade = None
    for c, g in zip(cases, gens):
        ex = c.get("expect", {})
        if not isinstance(g.get("types"), list):
            continue
        if ex.get("probe") == "F1":
            it = world.impl_table(g["render"]["scan"])
            for t in g["types"]:
                e = ent(g["dump"], t["id"])
                if is_cstring(e):
                    fix_display = any(nows(x) == "::std::fmt::Display" for x in it.get(e["name"], ()))
                    fix_facade = (t["has_impl"]["Display"] is False) and not fix_display
        if ex.get("probe") == "F2":
            for t in g["types"]:
                e = ent(g["dump"], t["id"])
                if e["kind"] == "integer" and e["name"].startswith(NONZERO):
                    fix_nonzero = (t["has_impl"]["Default"] is False)
    return fix_display, fix_nonzero, fix_facade


def check_facts(ctx, c, g):
    """(b): reported facts vs the syn scan.  Returns list of mismatch dicts."""
    out = []
    dump = g["dump"]
    tm = dump["settings"]["type_mod"]
    scan = g["render"]["scan"]
    root = {}
    for it in scan["items"]:
        if it["mod"] == "" and it["kind"] in ("struct", "enum"):
            root.setdefault(it["name"], []).append(it)
    builders = {it["name"] for it in scan["items"] if it["mod"] == "builder" and it["kind"] == "struct"}
    by_id = {t["id"]: t for t in g["types"]}

    def bare(ident):
        """the API's ident with the type_mod prefix removed (emission renders with None)"""
        s = ident
        if tm:
            s = re.sub(r"(?<![A-Za-z0-9_:])%s\s*::\s*" % re.escape(tm), "", s)
        return nows(s)

    def ty_of(i):
        return bare(by_id[i]["ident"]) if i in by_id else "<missing id %s>" % i

    def bad(what, t, **kw):
        d = {"kind": what, "case": c["name"], "type": t["name"], "id": t["id"]}
        d.update(kw)
        out.append(d)

    for t in g["types"]:
        k = t["details"]["k"]
        e = ent(dump, t["id"])
        builder_expected = None
        if k in ("enum", "struct", "newtype"):
            nm = e["name"]
            if t["name"] != nm:
                bad("name-not-item-name", t, reported=t["name"], item=nm)
            want_ident = nows("%s::%s" % (tm, nm) if tm else nm)
            if nows(t["ident"]) != want_ident:
                bad("ident-not-module-path", t, reported=t["ident"], expected=want_ident)
            items = root.get(nm, [])
            if len(items) != 1 or items[0]["vis"] != "pub":
                bad("name-does-not-resolve-to-one-pub-item", t, found=len(items))
                continue
            it = items[0]
            if k == "struct":
                if it["kind"] != "struct" or it["fields"]["k"] not in ("named", "unit"):
                    bad("struct-not-a-named-struct", t, item=it["kind"])
                    continue
                fields = it["fields"].get("fields", [])
                rep = [(p["name"], p["required"], ty_of(p["type_id"])) for p in t["details"]["props"]]
                emi = [(f["name"], not any(s[0] == "default" for s in f["serde"]), nows(f["ty"])) for f in fields]
                if rep != emi:
                    bad("properties-differ-from-fields", t, reported=rep, emitted=emi)
                builder_expected = dump["settings"]["struct_builder"]
            elif k == "enum":
                if it["kind"] != "enum":
                    bad("enum-not-an-enum", t, item=it["kind"])
                    continue
                rep = []
                for v in t["details"]["variants"]:
                    d = v["details"]
                    if d["k"] == "simple":
                        rep.append((v["name"], "unit", []))
                    elif d["k"] == "tuple":
                        rep.append((v["name"], "tuple", [ty_of(j) for j in d["ids"]]))
                    else:
                        rep.append((v["name"], "named", [(n, ty_of(j)) for n, j in d["props"]]))
                emi = []
                for v in it["variants"]:
                    f = v["fields"]
                    if f["k"] == "unit":
                        emi.append((v["name"], "unit", []))
                    elif f["k"] == "tuple":
                        emi.append((v["name"], "tuple", [nows(x["ty"]) for x in f["fields"]]))
                    else:
                        emi.append((v["name"], "named", [(x["name"], nows(x["ty"])) for x in f["fields"]]))
                if rep != emi:
                    diff = [(a, b) for a, b in zip(rep, emi) if a != b]
                    tuple1 = {v["ident"] for v in e["variants"] if v["details"]["k"] == "tuple" and len(v["details"]["ids"]) == 1}
                    only_t1 = len(rep) == len(emi) and all(a[0] == b[0] and a[0] in tuple1 for a, b in diff)
                    bad("variants-differ", t, reported=rep, emitted=emi, tuple1_only=only_t1)
            else:
                f = it.get("fields", {})
                if it["kind"] != "struct" or f.get("k") != "tuple" or len(f["fields"]) != 1:
                    bad("newtype-not-a-one-field-tuple-struct", t)
                    continue
                if ty_of(t["details"]["inner"]) != nows(f["fields"][0]["ty"]):
                    bad("inner-differs-from-field", t, reported=ty_of(t["details"]["inner"]), emitted=nows(f["fields"][0]["ty"]))
            # builder()
            if builder_expected:
                want = nows(("%s::builder::%s" % (tm, nm)) if tm else "builder::%s" % nm)
                if t["builder"] is None or nows(t["builder"]) != want:
                    bad("builder-none-or-wrong-path", t, reported=t["builder"], expected=want)
                if nm not in builders:
                    bad("builder-some-but-not-emitted", t)
            else:
                if t["builder"] is not None:
                    bad("builder-some-for-non-builder-type", t, reported=t["builder"])
                if k == "struct" and nm in builders:
                    bad("builder-emitted-but-none", t)
        else:
            if t["builder"] is not None:
                bad("builder-some-for-unnamed-type", t, reported=t["builder"])
            if bare(t["name"]) != bare(t["ident"]):
                bad("name-differs-from-ident", t, name=t["name"], ident=t["ident"])
    return out


def run(ctx):
    ctx.level = "proof"
    ctx.trusted = [
        "Coq 8.16.1 kernel + vm_compute",
        "hand-written model Algo/HasImpl.v (has_impl, emitted_r, std_impl, projections), tied by K1/K4e/K6m below",
        "py/tocoq.py cspace: verif_dump JSON -> Gallina space (trusted glue); hook TypeSpace::verif_dump",
        "syn scan of to_stream() (harness lib scan_code) and rustc 1.80.1 as the judges of what the output contains/implements",
        "std_impl for Native entries = the impl list stored with the entry (typify's own for uuid/chrono/std::net are "
        "compiled on every run; a caller's declaration for replace/convert is the caller's responsibility)",
        "std_impl(Map, Default) assumes the configured map type implements Default (BTreeMap/HashMap do)",
    ]
    ctx.assumptions = [
        "reading: 'has_impl(X) true implies the type implements X' is soundness only; has_impl false while implemented is allowed",
        "reading: 'required' coincides with the ABSENCE of a #[serde(default…)] attribute on the emitted field",
        "reading: identifiers resolve when used from the parent of module `type_mod` (or inside the module when unset)",
        "uses_* flag updates (convert.rs) are not modelled; the flags are evaluated on every real dump and on the tokens",
        "replacement/conversion types that themselves name chrono/uuid/serde_json/regress are outside the uses_* check",
    ]
    ctx.checker_cmd = "make -f Makefile.coq theories/Props/C17.vo && coqc Audit_C17.v (Print Assumptions)"

    vlib.build_harness(bins=("vh",))
    coq_ok = vlib.standard_coq_obligations(ctx, "Props.C17", THEOREMS, ())

    cases = gen_cases(ctx)
    ctx.log("cases:", len(cases))

    # ---- recursion probe in its own processes (a stack overflow kills the process)
    probes = {
        "A(Box<A>)": {"definitions": {"A": {"$ref": "#/definitions/A"}}},
        "A(B),B(Box<A>)": {"definitions": {"A": {"$ref": "#/definitions/B"}, "B": {"$ref": "#/definitions/A"}}},
        "A=allOf[A]": {"definitions": {"A": {"allOf": [{"$ref": "#/definitions/A"}]}}},
    }
    rec = {}
    for k, d in probes.items():
        try:
            r = vlib.run_vh("gen", [{"settings": {}, "steps": [{"op": "root", "doc": d}], "code": False}])[0]
            ans = sorted({json.dumps(t["has_impl"], sort_keys=True) for t in r.get("types", [])}) if isinstance(r.get("types"), list) else r.get("types")
            rec[k] = {"r": r["r"], "has_impl_answers": ans}
        except Exception as e:  # noqa
            rec[k] = {"r": "process-died", "msg": str(e)[:300]}
    ctx.coverage["newtype_cycle_probe"] = rec
    ctx.oblige("has_impl answers (no crash) on self-referential newtypes A(Box<A>)",
               all(v["r"] == "done" and isinstance(v["has_impl_answers"], list) and "panic" not in json.dumps(v["has_impl_answers"])
                   for v in rec.values()), json.dumps(rec))

    # ---- the world
    wcases = [{"settings": c["settings"], "steps": c["steps"]} for c in cases]
    w = world.World(ctx, "c17" + ("-" + EMU if EMU else ""), wcases, chunks_fn=chunks_fn)
    w.build()
    gens = [emulate(g) for g in w.gen]
    n_gen = sum(1 for s in w.status if s != "not-generated")
    ctx.coverage["world"] = {"cases": len(cases), "generated": n_gen,
                             "compiled": sum(1 for s in w.status if s == "ok"),
                             "compile_error": sum(1 for s in w.status if s == "compile-error"),
                             "by_origin": {o: sum(1 for c in cases if c["origin"] == o) for o in sorted({c["origin"] for c in cases})}}

    fix_display, fix_nonzero, fix_facade = observe_cfg(ctx, cases, gens)
    ctx.oblige("curated witnesses F1/F2 present in the corpus (the code variant can be observed)",
               fix_display is not None and fix_nonzero is not None, "corpus/C17 probes missing or not generated")
    flags = [bool(fix_display), bool(fix_nonzero), bool(fix_facade)]
    if EMU == "model_other_cfg":
        flags = [not flags[0], not flags[1], flags[2]]
    if EMU == "model_facade_flip":
        flags = [flags[0], flags[1], not flags[2]]
    cfg = "(mkCfg %s)" % " ".join(tocoq.cbool(b) for b in flags)
    ctx.coverage["observed_code_variant"] = {"display_emitted_for_constrained_string_newtype": fix_display,
                                             "has_impl_default_false_for_nonzero": fix_nonzero,
                                             "facade_has_impl_display_false_for_constrained_string_newtype": fix_facade}
    ctx.log("observed variant: fix_display=%s fix_nonzero=%s fix_facade=%s" % (fix_display, fix_nonzero, fix_facade))

    findings = {f["class"]: f for f in ctx.findings_for()}
    viol = []          # unlisted violations (dicts)
    known_hits = {}    # finding id -> example text

    def report(v, cls=None):
        f = findings.get(cls) if cls else None
        if f:
            known_hits.setdefault(f["id"], "%s: %s (e.g. %s)" % (f["id"], f["summary"], json.dumps(v)[:400]))
        else:
            viol.append(v)

    # ---- model evaluation on every real dump
    idx = [i for i, g in enumerate(gens) if isinstance(g.get("types"), list) and g.get("render", {}).get("r") == "ok"]
    model = {}
    model_ok = True
    try:
        exprs = []
        for i in idx:
            d = gens[i]["dump"]
            fuel = len(d["entries"]) + 2
            exprs.append("show_space %s %s %d" % (cfg, tocoq.cspace(d), fuel))
        hdr = tocoq.COQ_HEADER + "From Typify Require Import Algo.HasImpl.\nOpen Scope string_scope.\n"
        res = vlib.coq_eval_strings("c17", hdr, exprs, shard=max(1, (len(exprs) + vlib.NCPU - 1) // vlib.NCPU))
        for i, line in zip(idx, res):
            m = {"U": None, "W": None, "e": {}}
            for part in line.split(";"):
                if part.startswith("U:"):
                    m["U"] = part[2:]
                    continue
                if part.startswith("W:"):
                    m["W"] = part[2:]
                    continue
                f = part.split("|")
                m["e"][int(f[0])] = {x[0]: x[2:] for x in f[1:]}
            model[i] = m
    except Exception as e:  # noqa
        model_ok = False
        ctx.oblige("model HasImpl.v evaluates on the real dumps", False, str(e)[-3000:])

    # modules that do not compile (C01's business) cannot judge the bound chunks: judge the idents that mention
    # nothing but std by a dependency-free rustc run instead
    sa_pairs = []
    for i in idx:
        if w.status[i] == "compile-error":
            for ident, t in unique_idents(gens[i]).items():
                if std_closed(ident):
                    for tr in TRAITS:
                        sa_pairs.append(((i, t["id"], tr), ident, tr))
    sa_dedup = {}
    for key, ident, tr in sa_pairs:
        sa_dedup.setdefault((nows(ident), tr), (key, ident, tr))
    sa_res = standalone_bounds(ctx, list(sa_dedup.values()))
    standalone = {}
    sa_msg = {}
    for key, ident, tr in sa_pairs:
        standalone[key] = sa_res.get(sa_dedup[(nows(ident), tr)][0])
        sa_msg[key] = SA_MSGS.get(sa_dedup[(nows(ident), tr)][0])
    ctx.coverage["standalone_rustc_bound_pairs (std-closed idents of non-compiling modules)"] = {
        "pairs": len(sa_pairs), "distinct": len(sa_dedup), "judged": sum(1 for v in standalone.values() if v is not None)}
    limit_stats = {}
    k1_mis, k4_mis, k6_mis, kcls_mis, b_mis, n_mis, u_mis = [], [], [], [], [], [], []
    single_stats = {}
    n_token_checks = 0
    n_pairs = n_true = n_bound_ok = n_incomplete = 0
    n_types = 0
    facts_checked = 0
    unobservable = []
    kinds_seen = {}
    for i in idx:
        c, g = cases[i], gens[i]
        dump = g["dump"]
        scan = g["render"]["scan"]
        it = world.impl_table(scan)
        st = w.status[i]
        m = model.get(i)
        types = g["types"]
        n_types += len(types)
        # (b) reported facts vs scan
        for v in check_facts(ctx, c, g):
            facts_checked += 1
            if v["kind"] == "variants-differ" and v.get("tuple1_only"):
                report(v, "variant-tuple-of-one-reported-as-its-component")
            else:
                report(v)
        # (d) uses flags vs tokens
        seen_c = crates_in_tokens(g["render"].get("tokens", ""))
        n_token_checks += 1
        if c.get("single"):
            sg = c["single"]
            rec = single_stats.setdefault(sg["crate"], {"spaces": 0, "tokens_mention_crate": 0, "flag_true": 0, "constructs": {}})
            rec["spaces"] += 1
            rec["tokens_mention_crate"] += int(seen_c[sg["crate"]])
            rec["flag_true"] += int(bool(g["uses"][sg["crate"]]))
            cr = rec["constructs"].setdefault(sg["construct"], [0, 0, 0])
            cr[0] += 1
            cr[1] += int(seen_c[sg["crate"]])
            cr[2] += int(bool(g["uses"][sg["crate"]]))
        for cr, present in seen_c.items():
            if present and not g["uses"][cr]:
                toks = strip_docs(g["render"]["tokens"])
                rest = re.sub(r":: serde_json :: from_str :: <", "", toks)
                only_from_str = cr == "serde_json" and not re.search(r"(?<![A-Za-z0-9_])serde_json\s*::", rest)
                v = {"kind": "crate-path-in-output-but-uses-flag-false", "case": c["name"], "crate": cr,
                     "uses": g["uses"], "only_default_from_str": only_from_str}
                report(v, "serde-json-from-str-default-of-native" if only_from_str else None)
        if st == "compile-error":
            # the generated module itself does not compile (C01's business): bounds unobservable here
            unobservable.append({"case": c["name"], "errors": (w.compile_errors.get(i) or [])[:2]})
        uniq = unique_idents(g)
        for t in types:
            e = ent(dump, t["id"])
            kinds_seen[e["kind"]] = kinds_seen.get(e["kind"], 0) + 1
            me = m["e"].get(t["id"]) if m else None
            named = e["kind"] in ("enum", "struct", "newtype")
            rep_t = uniq[t["ident"]]
            # resolution by rustc
            if st == "ok" and rep_t is t and (i, "r-%d" % t["id"]) in w.chunk_failures:
                report({"kind": "ident-does-not-resolve", "case": c["name"], "type": t["name"], "ident": t["ident"],
                        "rustc": w.chunk_failures[(i, "r-%d" % t["id"])][:2]})
            if st == "ok" and t.get("builder") and (i, "rb-%d" % t["id"]) in w.chunk_failures:
                report({"kind": "builder-ident-does-not-resolve", "case": c["name"], "type": t["name"], "builder": t["builder"],
                        "rustc": w.chunk_failures[(i, "rb-%d" % t["id"])][:2]})
            for ti, tr in enumerate(TRAITS):
                n_pairs += 1
                api = t["has_impl"][tr]
                ctx.nontrivial.add("%s/%s/%s" % (e["kind"] + (":" + e["constraints"]["k"] if e["kind"] == "newtype" else ""), tr, api))
                # python-side class
                cls = None
                if tr == "Display" and is_cstring(e):
                    cls = "display-on-string-constrained-newtype"
                if tr == "Default" and reaches_nonzero(dump, t["id"]):
                    cls = "default-on-nonzero-integer"
                if me:
                    mh = me["H"][ti]
                    want = {True: "1", False: "0", "panic": "P"}.get(api, "?")
                    if mh != want:
                        k1_mis.append({"case": c["name"], "type": t["name"], "trait": tr, "api": api, "model": mh})
                    if named:
                        emitted = any(nows(x) == TRAIT_PATH[tr] for x in it.get(e["name"], ()))
                        if me["E"][ti] != ("1" if emitted else "0"):
                            k4_mis.append({"case": c["name"], "type": t["name"], "trait": tr, "scan": emitted, "model": me["E"][ti]})
                    kd, kn = me["K"][ti], me["K"][3 + ti]
                    if (kd == "1") != (cls == "display-on-string-constrained-newtype") or \
                            (kn == "1") != (cls == "default-on-nonzero-integer"):
                        kcls_mis.append({"case": c["name"], "type": t["name"], "trait": tr, "coq": kd + kn, "py": cls})
                if st == "ok":
                    compiled = (i, "b-%d-%s" % (rep_t["id"], tr)) not in w.chunk_failures
                else:
                    compiled = standalone.get((i, rep_t["id"], tr))
                    if compiled is None:
                        continue
                if c.get("limit") and e["kind"] in ("array", "tuple") and tr == "Default":
                    lk = "%s n=%d" % (e["kind"], e["len"] if e["kind"] == "array" else len(e["ids"]))
                    ls = limit_stats.setdefault(lk, {"judged": 0, "has_impl_true": 0, "rustc_accepts": 0})
                    ls["judged"] += 1
                    ls["has_impl_true"] += int(api is True)
                    ls["rustc_accepts"] += int(bool(compiled))
                if me and ((me["I"][ti] == "1") != compiled):
                    if me["I"][ti] == "1":
                        k6_mis.append({"case": c["name"], "type": t["name"], "trait": tr, "model_implements": True,
                                       "rustc": w.chunk_failures.get((i, "b-%d-%s" % (rep_t["id"], tr)), [])[:1]})
                    else:
                        n_incomplete += 1      # e.g. Uuid: Default, derives added by the user: allowed
                if api is True:
                    n_true += 1
                    ctx.evaluations += 1
                    if compiled:
                        n_bound_ok += 1
                    else:
                        report({"kind": "has_impl-true-but-bound-does-not-compile", "case": c["name"], "type": t["name"],
                                "ident": t["ident"], "trait": tr,
                                "rustc": (w.chunk_failures.get((i, "b-%d-%s" % (rep_t["id"], tr)), [])[:1]
                                          or [sa_msg.get((i, rep_t["id"], tr)), "standalone rustc (module itself does not compile)"])},
                               cls)
            if me:
                api_b = t.get("builder") is not None
                scan_b = named and e["kind"] == "struct" and any(
                    x["mod"] == "builder" and x["kind"] == "struct" and x["name"] == e["name"] for x in scan["items"])
                if me["B"] != ("1" if api_b else "0") + ("1" if scan_b else "0"):
                    b_mis.append({"case": c["name"], "type": t["name"], "model": me["B"], "api": api_b, "scan": scan_b})
                if me["N"] != "1":
                    n_mis.append({"case": c["name"], "type": t["name"]})
        if m and m["U"] != "1":
            u_mis.append({"case": c["name"], "uses": g["uses"]})
            report({"kind": "uses-flag-missing-for-an-entry-of-the-type-space", "case": c["name"], "uses": g["uses"]})

    ctx.coverage.update({
        "types": n_types, "type_trait_pairs": n_pairs, "has_impl_true_pairs": n_true,
        "has_impl_true_pairs_bound_compiles": n_bound_ok,
        "model_implements_false_but_compiles (allowed incompleteness)": n_incomplete,
        "entry_kinds": kinds_seen, "fact_mismatches": facts_checked,
        "unobservable_modules (generated code does not compile for reasons outside C17)": unobservable[:8],
        "rule": "every type of iter_types() of every generated case x {FromStr, Display, Default}; distinct = "
                "(entry kind[:constraint], trait, has_impl answer)",
        "distribution": {"cases_by_origin": ctx.coverage["world"]["by_origin"]},
    })
    ctx.samples = [{"case": cases[i]["name"], "types": len(gens[i]["types"]), "status": w.status[i]} for i in idx[:: max(1, len(idx) // 10)]]

    ctx.oblige("correspondence K1: model has_impl = Type::has_impl on %d (type, trait) pairs" % n_pairs,
               model_ok and not k1_mis, json.dumps(k1_mis[:5]))
    ctx.oblige("correspondence K4e: model emitted_impl = impl found by syn, every named type x 3 traits",
               model_ok and not k4_mis, json.dumps(k4_mis[:5]))
    ctx.oblige("correspondence K6m: model implements = true => rustc accepts the bound", model_ok and not k6_mis,
               json.dumps(k6_mis[:5]))
    ctx.oblige("known-class predicates (Coq) = python classification", model_ok and not kcls_mis, json.dumps(kcls_mis[:5]))
    ctx.oblige("model builder_some = builder().is_some(), emitted_builder = builder::Name in the scan",
               model_ok and not b_mis, json.dumps(b_mis[:5]))
    ctx.oblige("checker names_resolve = true on every real dump", model_ok and not n_mis, json.dumps(n_mis[:5]))
    ctx.oblige("checker uses_flags_cover = true on every real dump", model_ok and not u_mis, json.dumps(u_mis[:5]))
    w_bad = [cases[i]["name"] for i in idx if model.get(i) and model[i]["W"] != "1"]
    ctx.oblige("hypothesis newtype_inner_ok = true on every real dump", model_ok and not w_bad, json.dumps(w_bad[:5]))
    expected_ce = {c["name"] for c in cases if c.get("expect", {}).get("status") == "compile-error"}
    # emitted items that mention [T; N>32] or a tuple of > 12 components fail serde's / Debug's bounds (C01 finding);
    # their std-closed idents are judged by the standalone run, the rest by the @unnamed spaces
    expected_ce |= {c["name"] for c in cases if c.get("limit") and "@unnamed" not in c["name"]
                    and c["limit"]["n"] > (32 if c["limit"]["kind"] == "array" else 12)}
    unobservable = [u for u in unobservable if u["case"] not in expected_ce]
    n_unobs_fix = len([u for u in unobservable if not u["case"].startswith("random")])
    ctx.oblige("fixture / kinds / replace modules are observable (compile)", n_unobs_fix == 0,
               json.dumps(unobservable[:4]))
    ctx.coverage["std_limit_types (Default bound on the array / tuple type itself, by size)"] = limit_stats
    need = ["array n=32", "array n=33", "array n=48", "tuple n=12", "tuple n=13"]
    ctx.oblige("std-limit witnesses: arrays of 32, 33, 48 and tuples of 12, 13 components each have >= 3 types whose "
               "Default bound was judged by rustc, some accepted at 32 / 12 and none at 33 / 48 / 13",
               all(limit_stats.get(k, {}).get("judged", 0) >= 3 for k in need)
               and limit_stats.get("array n=32", {}).get("rustc_accepts", 0) > 0
               and limit_stats.get("tuple n=12", {}).get("rustc_accepts", 0) > 0
               and all(limit_stats.get(k, {}).get("rustc_accepts", 1) == 0 for k in ("array n=33", "array n=48", "tuple n=13")),
               json.dumps(limit_stats))
    ctx.coverage["token_level_uses_checks (spaces)"] = n_token_checks
    ctx.coverage["single_source_spaces (per crate: spaces / tokens mention the crate / flag true; per construct [n, tokens, flag])"] = single_stats
    n_single = len([c for c in cases if c.get("single")])
    n_single_gen = sum(v["spaces"] for v in single_stats.values())
    ctx.oblige("single-source spaces: token-level uses_* check ran on >= 90%% of %d one-construct spaces, and each of "
               "regress/uuid/chrono/serde_json is the ONLY external crate source in >= 5 spaces whose tokens mention it" % n_single,
               n_single_gen * 10 >= n_single * 9 and all(
                   single_stats.get(cr, {}).get("tokens_mention_crate", 0) >= 5 for cr in ("regress", "uuid", "chrono", "serde_json")),
               json.dumps({k: {x: v[x] for x in ("spaces", "tokens_mention_crate", "flag_true")} for k, v in single_stats.items()}))
    ctx.oblige("world is not degenerate (>= 60%% of the cases generate)", n_gen * 10 >= len(cases) * 6,
               "%d of %d" % (n_gen, len(cases)))

    # ---- curated expectations: a listed finding must be observed or be gone consistently
    for c, g, s in zip(cases, gens, w.status):
        ex = c.get("expect", {})
        if ex.get("status") and s != ex["status"] and not (ex.get("status_if_fixed") == s):
            ctx.log("note: corpus case %s has status %s (expected %s)" % (c["name"], s, ex["status"]))

    for fid, text in sorted(known_hits.items()):
        ctx.known_finding(fid, text)
    ctx.oblige("direct property evaluation: no unlisted violation", not viol, json.dumps(viol[:3]))
    if viol:
        by_name = {c["name"]: c for c in cases}

        def vsize(v):     # smallest failing INPUT first (the one-construct spaces are the minimal witnesses)
            c = by_name.get(v.get("case"))
            return (len(json.dumps(c["steps"])) if c else 10 ** 9, len(json.dumps(v)))
        viol.sort(key=vsize)
        v = dict(viol[0])
        ci = [k for k, c in enumerate(cases) if c["name"] == v.get("case")]
        if ci:
            v["input"] = {"settings": cases[ci[0]]["settings"], "steps": cases[ci[0]]["steps"]}
        v["other_violations"] = len(viol) - 1
        v["broken_obligations"] = [o[0] for o in ctx.broken()]
        ctx.violation(v)
    elif ctx.broken():
        ctx.violation({"broken_obligations": [(o[0], o[2][:1500]) for o in ctx.broken()],
                       "note": "a theorem or a model/implementation correspondence no longer checks; the direct "
                               "evaluation over the world found no failing input"}, no_input=True)

    if ctx.tier == "thorough" and coq_ok:
        rc, out, err = vlib.sh("timeout 1500 coqchk -silent -o -Q theories Typify Typify.Props.C17", cwd=vlib.COQ,
                               timeout=1600)
        ctx.oblige("coqchk re-checks Props.C17 and dependencies", rc == 0, (out + err)[-1500:])
