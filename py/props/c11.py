"""C11 — string conversions of generated types agree with their wire format.

Deciding method: Coq theorems (Props/C11.v) over `Algo/StrConv.v`, an executable
model of the FromStr / TryFrom / Display templates of output_enum/output_newtype,
of has_impl/finalize (which impls exist) and of what serde does with a JSON string
for the same types.  Tie, on every run: a compiled world of schemas yielding
string-convertible types; for each type and each probe string the compiled
`parse`, `try_from_*`, `de`, `display` (and the Debug form, to see which variant
an untagged enum chose) are compared with the model evaluated on `cspace(dump)`;
regex verdicts come from the real regress crate (`c11 regress`), native-type
verdicts (uuid/chrono/std::net FromStr, Deserialize, Display, Serialize) from a
driver chunk compiled next to the generated code.  The property itself is also
evaluated on the compiled code alone (no model involved).
"""
import json
import os
import random

import vlib
import tocoq
import world

THEOREMS = [
    "C11_parse_iff_de",
    "C11_parse_eq_de",
    "C11_try_from_eq_parse",
    "C11_try_from_inner_eq_de",
    "C11_display_is_ser",
    "C11_display_brace_literal",
    "C11_display_datetime_refuted",
    "C11_untagged_order",
    "C11_untagged_first_wins",
    "C11_simple_enum_first_match",
    "C11_constrained_display_not_emitted",
    "C11_api_has_impl_internal",
    "C11_fmt_render_literal",
]

MUT = os.environ.get("C11_MUTATE", "")

NATIVES = {
    "uuid": "::uuid::Uuid", "date": "::chrono::naive::NaiveDate",
    "date-time": "::chrono::DateTime<::chrono::offset::Utc>",
    "ip": "::std::net::IpAddr", "ipv4": "::std::net::Ipv4Addr", "ipv6": "::std::net::Ipv6Addr",
}

GENERIC = ["", " ", "a", "A", "b", "B", "ab", "abc", "abcd", "abcde", "aaa", "aaaa", "ba", "bc", "xbc",
           "é", "éé", "ééé", "éééé", "日本",
           "\U0001F600", "\U0001F600\U0001F600", "\U0001F600\U0001F600\U0001F600", "a\U0001F600",
           "a b", " a", "a ", "A ", "null", "0", "12", "123-4567", "true", "\"a\"", "Variant0", "É", "Àb",
           "bad", "Bad", "worse", "x", "y", "X", "only", "Only"]
NATIVE_PROBES = [
    "67e55044-10b1-426f-9247-bb680e5fe0c8", "67E55044-10B1-426F-9247-BB680E5FE0C8",
    "67e5504410b1426f9247bb680e5fe0c8", "{67e55044-10b1-426f-9247-bb680e5fe0c8}",
    "urn:uuid:67e55044-10b1-426f-9247-bb680e5fe0c8", "67e55044-10b1-426f-9247-bb680e5fe0c", " 67e55044-10b1-426f-9247-bb680e5fe0c8",
    "00000000-0000-0000-0000-000000000000",
    "2020-01-01", "2020-1-1", "2020-02-30", "2020-02-29", "0000-01-01", "+2020-01-01", "10000-01-01", "2020-01-01 ",
    "-0001-01-01", "2020-13-01",
    "2020-01-01T00:00:00Z", "2020-01-01 00:00:00Z", "2020-01-01T00:00:00+01:00", "2020-01-01T00:00:00",
    "2020-01-01t00:00:00z", "2020-01-01 00:00:00 UTC", "2020-01-01T00:00:00.123456789Z", "2020-01-01T23:59:60Z",
    "2020-01-01T00:00:00-00:00", "2020-01-01T24:00:00Z",
    "1.2.3.4", "01.2.3.4", "1.2.3", "255.255.255.255", "256.1.1.1", "1.2.3.4 ", "::1", "::0001", "1::", "::",
    "::ffff:1.2.3.4", "[::1]", "fe80::1%eth0", "0:0:0:0:0:0:0:1", "2001:DB8::1", "2001:db8::1",
]
# candidate texts from which samples of a native type that has no hand-written probes are found:
# whatever parses (FromStr) or deserialises is a sample; its Display and serialised forms are fed
# back as further probes
ISO_POOL = [
    "2024-02-29T12:34:56", "2024-02-29 12:34:56", "2024-02-29T12:34:56.789", "2024-02-29T12:34:56Z", "2024-02-29T12:34",
    "2024-02-29T12:34:56+01:00", "2024-W09-4", "2024-060", "12:34:56", "12:34:56.789", "12:34", "12:34:56Z",
    "12:34:56+01:00", "PT1S", "P1D", "P1Y2M3DT4H5M6S", "1s", "1.5", "42", "-7", "example.com", "user@example.com",
    "http://example.com/", "https://example.com/a?b=c#d", "urn:isbn:0", "/a/b", "1.2.3.0/24", "10.0.0.0/8", "::/0",
    "2001:db8::/32", "00:11:22:33:44:55", "aGVsbG8=", "^a+$", "UTC", "+01:00",
]
# string formats typify does NOT recognise today (they fall back to String); each gets a probe module so
# that a format arm added to convert_string is exercised the day it appears
PLAUSIBLE_FORMATS = [
    "partial-date-time", "time", "partial-time", "duration", "hostname", "idn-hostname", "email", "idn-email", "uri",
    "uri-reference", "iri", "url", "ipv4-network", "ipv6-network", "ip-network", "regex", "json-pointer", "byte",
    "binary", "password", "datetime", "date_time", "naive-date-time", "local-date-time", "mac", "decimal", "int64",
]
DT_UTC = "::chrono::DateTime<::chrono::offset::Utc>"    # the ONLY native finding C11-F2 is keyed to
NONSTRING_JSON = ["null", "0", "true", "[]", "{}", "[\"a\"]"]

PATTERNS = ["^a+$", "b", "^[0-9]{3}-[0-9]{4}$", "^\\p{Lu}", "^[\\u00e0-\\u00ff]+$", "é+", "^.{2}$", "^$", "bc$",
            "^(a|b)c?$", "\\s", "^\\S*$", "[A-Z]"]


def D(**defs):
    return {"settings": {}, "steps": [{"op": "refs", "defs": defs}]}


def S(**kw):
    d = {"type": "string"}
    d.update(kw)
    return d


def E(*vals, **kw):
    d = {"type": "string", "enum": list(vals)}
    d.update(kw)
    return d


def ref(n):
    return {"$ref": "#/definitions/" + n}


def curated_cases():
    """[(name, case, expect)]; expect: 'ok' (every curated module must generate and compile)."""
    out = []
    out.append(("enums", D(
        Plain=E("a", "b", "c"),
        Odd=E("Foo", "fooBar", "foo-bar", "FOO_BAZ", "1st", "a b", "@home", "+1", "$ref", "snake_case_x",
              "SCREAMING", "kebab-case-y", "Title Case"),
        Kw=E("type", "self", "match", "fn", "async", "crate", "super", "box", "dyn", "enum", "struct", "None",
             "Some", "Ok", "Err", "String", "Vec", "Option"),
        Quote=E("a\"b", "c\\d", "é", "日本", "line\nbreak", "tab\there", "it's", "\\n", "%s", "$1", "#"),
        Single=E("only"),
        EnumCons=E("aa", "bbbb", "é", "日本語", "", "abc", minLength=1, maxLength=3),
        EnumPat=E("abc", "xbc", "ab", "bcd", pattern="bc$"),
        Cased=E("abc", "Abc2", "ABC3", "aBc4"),
    ), "ok"))
    out.append(("nullable", D(
        NullPlus={"type": ["string", "null"], "enum": [None, "x", "y"]},
        Holder={"type": "object", "properties": {"p": {"enum": [None, "x", "y"]}, "q": E("only", "x")}},
    ), "ok"))
    nt = {"S": S(), "SMax3": S(maxLength=3), "SMin2": S(minLength=2), "SMinMax": S(minLength=2, maxLength=4),
          "SMax0": S(maxLength=0), "SMin0": S(minLength=0), "SExact1": S(minLength=1, maxLength=1),
          "SAll": S(minLength=2, maxLength=5, pattern="^a"), "SMin5": S(minLength=5)}
    for k, p in enumerate(PATTERNS):
        nt["SPat%d" % k] = S(pattern=p)
    out.append(("newtypes", D(**nt), "ok"))
    out.append(("deny", D(
        Deny={"type": "string", "not": {"enum": ["bad", "worse"]}},
        DenyU={"type": "string", "not": {"enum": ["é", "", "a b"]}},
        DenyC={"type": "string", "maxLength": 4, "not": {"enum": ["bad", "worse"]}},
    ), "ok"))
    out.append(("natives", D(
        U=S(format="uuid"), Dd=S(format="date"), Dt=S(format="date-time"), Ip=S(format="ip"), Ip4=S(format="ipv4"),
        Ip6=S(format="ipv6"), Unk=S(format="email"),
    ), "ok"))
    out.append(("wrappers", D(
        Plain=E("a", "b"), RefP=ref("Plain"), RefRefP=ref("RefP"),
        SMax=S(maxLength=3), RefS=ref("SMax"), RefRefS=ref("RefS"),
        U=S(format="uuid"), RefU=ref("U"),
        Str=S(), RefStr=ref("Str"),
        Deny={"type": "string", "not": {"enum": ["bad"]}}, RefDeny=ref("Deny"),
        Ip=S(format="ip"), RefIp=ref("Ip"),
    ), "ok"))
    out.append(("untagged", D(
        Un46={"oneOf": [S(format="ipv4"), S(format="ipv6")]},
        UnIp4={"oneOf": [S(format="ip"), S(format="ipv4")]},
        Un4Ip={"oneOf": [S(format="ipv4"), S(format="ip")]},
        UnStrUuid={"oneOf": [S(), S(format="uuid")]},
        UnUuidStr={"oneOf": [S(format="uuid"), S()]},
        UnStrMax={"oneOf": [S(), S(maxLength=3)]},
        UnMaxStr={"oneOf": [S(maxLength=3), S()]},
        UnPatPat={"oneOf": [S(pattern="^a+$"), S(pattern="b"), S(maxLength=1)]},
        UnDateIp={"oneOf": [S(format="date"), S(format="ip"), S(format="uuid")]},
        Plain=E("a", "b"), U=S(format="uuid"), Sx=S(), Mx=S(maxLength=2),
        UnRefEnumUuid={"oneOf": [ref("Plain"), ref("U")]},
        UnRefUuidEnum={"oneOf": [ref("U"), ref("Plain")]},
        UnRefEnumStr={"oneOf": [ref("Plain"), ref("Sx")]},
        UnRefStrEnum={"oneOf": [ref("Sx"), ref("Plain")]},
        UnRefMaxEnum={"oneOf": [ref("Mx"), ref("Plain")]},
        UnAny={"anyOf": [S(format="ipv4"), S(format="ipv6")]},
        UnInline={"oneOf": [E("a", "b"), S()]},
        UnNested={"oneOf": [{"oneOf": [S(format="ipv4"), S(format="ipv6")]}, S(format="uuid")]},
        UnMixed={"oneOf": [S(), {"type": "integer"}]},
    ), "ok"))
    out.append(("datetime", D(
        Dt=S(format="date-time"), RefDt=ref("Dt"), UnDt={"oneOf": [S(format="date-time"), S(format="date")]},
    ), "ok"))
    # regression cases of the FIXED finding C11-F1 (/repo a0ebad5): raw names with braces, formerly
    # used unescaped as format strings
    for k, v in enumerate(["{{", "}}", "a{{b}}c", "{{}}", "{", "}", "{}", "a{b}", "{f}", "{0}", "{:?}", "{self}",
                           "100%{", "a}b"]):
        out.append(("brace%d" % k, D(Brace=E(v, "ok")), "ok"))
    return out


def random_cases(ctx, n):
    """Seeded stream confined to the clean region: no date-time under Display
    (finding C11-F2); values whose identifiers collide make typify reject the
    schema (skipped).  Braces are in the stream since the fix a0ebad5."""
    rnd = random.Random(ctx.seed * 7919 + 11)
    words = ["a", "b", "c", "ab", "abc", "x", "y", "red", "green", "blue", "Red", "GREEN", "dark-red", "light_blue",
             "1", "2nd", "a b", "é", "日本", "type", "self", "résumé", "a.b", "A/B", "q?", "it's",
             "\"q\"", "back\\slash", "%", "#1", "ß", "İ", "ǅ", "{z", "}}w", "a{b}", "{0}", "100%{}"]
    fmts = ["uuid", "date", "ip", "ipv4", "ipv6"]
    out = []
    for k in range(n):
        defs = {}
        for j in range(rnd.randint(3, 5)):
            kind = rnd.choice(["enum", "enum", "cons", "cons", "pat", "native", "untagged", "untagged", "deny", "wrap"])
            name = "T%d" % j
            if kind == "enum":
                defs[name] = E(*rnd.sample(words, rnd.randint(1, 6)))
                if rnd.random() < 0.3:
                    defs[name]["maxLength"] = rnd.randint(1, 4)
            elif kind == "cons":
                lo = rnd.randint(0, 4)
                kw = {}
                if rnd.random() < 0.7:
                    kw["minLength"] = lo
                if rnd.random() < 0.7:
                    kw["maxLength"] = lo + rnd.randint(0, 3)
                if rnd.random() < 0.3:
                    kw["pattern"] = rnd.choice(PATTERNS)
                defs[name] = S(**kw)
            elif kind == "pat":
                defs[name] = S(pattern=rnd.choice(PATTERNS))
            elif kind == "native":
                defs[name] = S(format=rnd.choice(fmts))
            elif kind == "deny":
                defs[name] = {"type": "string", "not": {"enum": rnd.sample(words, rnd.randint(1, 3))}}
            elif kind == "wrap" and defs:
                defs[name] = ref(rnd.choice(sorted(defs)))
            else:
                alts = []
                for _ in range(rnd.randint(2, 3)):
                    r = rnd.random()
                    if r < 0.45:
                        alts.append(S(format=rnd.choice(fmts)))
                    elif r < 0.6:
                        alts.append(S())
                    elif r < 0.8:
                        alts.append(S(maxLength=rnd.randint(0, 3)))
                    else:
                        alts.append(S(pattern=rnd.choice(PATTERNS)))
                defs[name] = {"oneOf": alts}
        out.append(("rand%d" % k, D(**defs), "ok"))
    return out


def source_formats(ctx):
    """String formats recognised by the CURRENT convert.rs: the syn translator `vh tables` (the one that
    regenerates Gen/IntTable.v for C10, here writing into a scratch directory) plus a textual scan of the
    arms of convert_string; returns ({format: native path or None}, translator_ok, detail)."""
    import re
    fm = {}
    out_dir = os.path.join(vlib.WORK, "c11tables")
    os.makedirs(out_dir, exist_ok=True)
    ok, detail = True, ""
    try:
        rc, out, err = vlib.sh([vlib.VH, "tables", vlib.REPO, out_dir, "int"], timeout=300)
        if rc != 0:
            ok, detail = False, (out + err)[-2000:]
        else:
            txt = open(os.path.join(out_dir, "IntTable.v")).read()
            m = re.search(r"Definition string_formats[^:]*:[^=]*:=(.*?)\]\.", txt, re.S)
            if not m:
                ok, detail = False, "string_formats not found in translator output"
            else:
                for k, v in re.findall(r'\("([^"]*)",\s*"([^"]*)"\)', m.group(1)):
                    fm[k] = v
    except Exception as e:  # noqa
        ok, detail = False, repr(e)
    try:
        src = open(os.path.join(vlib.REPO, "typify-impl", "src", "convert.rs")).read()
        a = src.index("fn convert_string")
        b = src.find("\n    fn ", a + 10)
        b2 = src.find("\n    pub(crate) fn ", a + 10)
        ends = [x for x in (b, b2) if x > 0]
        body = src[a:min(ends) if ends else len(src)]
        for pat in re.findall(r"Some\(([^()]*)\)\s*(?:=>|if\b)", body):
            for lit in re.findall(r'"([^"]*)"', pat):
                fm.setdefault(lit, None)
    except Exception as e:  # noqa
        ok, detail = False, detail + " / source scan: " + repr(e)
    return fm, ok, detail


def format_cases(fmts):
    """one module per string format: a named newtype, a required property, an all-string untagged oneOf"""
    out = []
    for f in fmts:
        out.append(("fmt:" + f, D(
            Fm=S(format=f),
            FmHolder={"type": "object", "properties": {"p": S(format=f)}, "required": ["p"]},
            FmOr={"oneOf": [S(format=f), S(pattern="^never$")]},
            OrFm={"oneOf": [S(maxLength=0), S(format=f)]},
        ), "ok"))
        if MUT == "seed_partial_date_time" and f == "partial-date-time":
            # emulates a new convert_string arm `"partial-date-time" => new_native("::chrono::naive::NaiveDateTime",
            # [Display, FromStr])` through the public conversion setting (same IR: a native with that impl list)
            out[-1][1]["settings"] = {"convert": [{"schema": {"type": "string", "format": f},
                                                    "type": "::chrono::naive::NaiveDateTime",
                                                    "impls": ["Display", "FromStr"]}]}
    return out


def corpus_cases():
    out = []
    cdir = os.path.join(vlib.ROOT, "corpus", "C11")
    if os.path.isdir(cdir):
        for fn in sorted(os.listdir(cdir)):
            if fn.endswith(".json"):
                c = json.load(open(os.path.join(cdir, fn)))
                out.append(("corpus:" + fn[:-5], D(**c["defs"]), c.get("expect", "ok"), c.get("probes", [])))
    return out


# --------------------------------------------------------------------------
CHUNK_DBG = r'''
pub fn c11_dbg_parse<T: ::std::str::FromStr + ::std::fmt::Debug>(i: &::serde_json::Value) -> ::serde_json::Value {
    match i.as_str().unwrap_or("").parse::<T>() {
        Ok(x) => ::serde_json::json!({"ok": format!("{:?}", x)}),
        Err(_) => ::serde_json::json!({"err": true}),
    }
}
pub fn c11_dbg_de<T: ::serde::de::DeserializeOwned + ::std::fmt::Debug>(i: &::serde_json::Value) -> ::serde_json::Value {
    match ::serde_json::from_value::<T>(::serde_json::Value::String(i.as_str().unwrap_or("").to_string())) {
        Ok(x) => ::serde_json::json!({"ok": format!("{:?}", x)}),
        Err(_) => ::serde_json::json!({"err": true}),
    }
}
'''
CHUNK_NAT = r'''
pub fn c11_nat<T>(input: &::serde_json::Value) -> ::serde_json::Value
where T: ::std::str::FromStr + ::std::fmt::Display + ::serde::Serialize + ::serde::de::DeserializeOwned {
    let s = input.as_str().unwrap_or("");
    let p = s.parse::<T>().ok();
    let d = ::serde_json::from_value::<T>(::serde_json::Value::String(s.to_string())).ok();
    let same = match (&p, &d) {
        (Some(a), Some(b)) => ::serde_json::json!(
            ::serde_json::to_value(a).ok() == ::serde_json::to_value(b).ok() && a.to_string() == b.to_string()),
        _ => ::serde_json::Value::Null,
    };
    ::serde_json::json!({"parse": p.is_some(), "de": d.is_some(), "same": same,
        "display": p.as_ref().map(|x| x.to_string()),
        "ser": p.as_ref().map(|x| ::serde_json::to_value(x).unwrap_or(::serde_json::Value::Null))})
}
'''
# same without a Display bound / without FromStr (natives whose impl list lacks them)
CHUNK_NAT_ND = CHUNK_NAT.replace("c11_nat<T>", "c11_nat_nd<T>").replace(" + ::std::fmt::Display", "") \
    .replace("&& a.to_string() == b.to_string()", "").replace("p.as_ref().map(|x| x.to_string())", "None::<String>")
CHUNK_NAT_NF = r'''
pub fn c11_nat_nf<T>(input: &::serde_json::Value) -> ::serde_json::Value
where T: ::serde::Serialize + ::serde::de::DeserializeOwned {
    let s = input.as_str().unwrap_or("");
    let d = ::serde_json::from_value::<T>(::serde_json::Value::String(s.to_string())).ok();
    ::serde_json::json!({"parse": false, "de": d.is_some(), "same": ::serde_json::Value::Null, "nofromstr": true,
        "display": None::<String>,
        "ser": d.as_ref().map(|x| ::serde_json::to_value(x).unwrap_or(::serde_json::Value::Null))})
}
'''


def chunks_fn(i, gen):
    scan = gen["render"]["scan"]
    arms = world.std_arms(scan)
    chunks = []
    dbg = []
    for (n, op, _e) in arms:
        if op == "parse":
            dbg.append((n, "dbg_parse", "c11_dbg_parse::<super::%s>(input)" % n))
        if op == "de":
            dbg.append((n, "dbg_de", "c11_dbg_de::<super::%s>(input)" % n))
    chunks.append(("c11dbg", CHUNK_DBG, dbg))
    # native oracle: the three generic functions once, then one arm-only chunk per native type that
    # occurs in THIS dump, whatever it is (an arm whose bounds fail is dropped and reported)
    nats = {}
    for e in gen["dump"]["entries"].values():
        if e["kind"] == "native" and not e.get("params"):
            nats[e["type_name"]] = e.get("impls", [])
    if nats:
        chunks.append(("c11natfns", CHUNK_NAT + CHUNK_NAT_ND + CHUNK_NAT_NF, []))
    for k, (t, impls) in enumerate(sorted(nats.items())):
        fn = "c11_nat_nf" if "FromStr" not in impls else ("c11_nat_nd" if "Display" not in impls else "c11_nat")
        chunks.append(("c11nat%d" % k, "", [(t, "c11nat", "%s::<%s>(input)" % (fn, t))]))
    return chunks


# --------------------------------------------------------------------------
def has_brace(s):
    return "{" in s or "}" in s


def variants_of_case(s):
    out = {s.upper(), s.lower(), s.swapcase(), s.capitalize(), s + " ", " " + s, s + s, s[:-1], s + "x"}
    return sorted(x for x in out if x != s)


def boundary_strings(n):
    out = []
    for m in (n - 1, n, n + 1):
        if m < 0:
            continue
        out += ["a" * m, "é" * m, "\U0001F600" * m]
        if m >= 1:
            out.append("a" * (m - 1) + "日")
    return out


def probes_for(dump, tid, extra=()):
    """type-specific probe strings, from the dumped IR (members, idents, case variants, boundary lengths)"""
    seen = set()
    out = []

    def walk(t, depth):
        if depth > 6 or t in seen:
            return
        seen.add(t)
        e = dump["entries"].get(str(t))
        if not e:
            return
        k = e["kind"]
        if k == "enum":
            for v in e["variants"]:
                if v["details"]["k"] == "simple":
                    out.append(v["raw"])
                    if v["ident"]:
                        out.append(v["ident"])
                    out.extend(variants_of_case(v["raw"])[:6])
                elif v["details"]["k"] == "item":
                    out.append(v["ident"] or "")
                    walk(v["details"]["id"], depth + 1)
        elif k == "newtype":
            c = e["constraints"]
            if c["k"] == "string":
                for b in (c["max"], c["min"]):
                    if b is not None and b <= 8:
                        out.extend(boundary_strings(b))
            elif c["k"] in ("enum", "deny"):
                for v in c["values"]:
                    if isinstance(v, str):
                        out.append(v)
                        out.extend(variants_of_case(v)[:4])
            walk(e["type_id"], depth + 1)
        elif k in ("box", "option"):
            walk(e["id"], depth + 1)

    walk(tid, 0)
    res = []
    for s in list(extra) + out:
        if s not in res:
            res.append(s)
    return res


def module_natives(dump):
    return sorted({e["type_name"] for e in dump["entries"].values() if e["kind"] == "native"})


def module_patterns(dump):
    return sorted({e["constraints"]["pattern"] for e in dump["entries"].values()
                   if e["kind"] == "newtype" and e["constraints"]["k"] == "string" and e["constraints"]["pattern"]})


def named_types(gen):
    """[(id, name)] of named entries that the module actually defines (pub struct/enum at root)"""
    items = {it["name"] for it in gen["render"]["scan"]["items"] if it["mod"] == "" and it["kind"] in ("struct", "enum")}
    out = []
    for k, e in sorted(gen["dump"]["entries"].items(), key=lambda kv: int(kv[0])):
        if e["kind"] in ("enum", "newtype", "struct") and e["name"] in items:
            out.append((int(k), e["name"]))
    names = [n for _, n in out]
    return [(i, n) for i, n in out if names.count(n) == 1]


def res_val(r):
    """driver answer -> ('ok', value) | ('err', None) | ('other', r)"""
    if r is None:
        return ("other", None)
    if "ok" in r:
        return ("ok", r["ok"])
    if "err" in r:
        return ("err", None)
    return ("other", r)


def dbg_head(r):
    """leading identifier of a Debug rendering: 'Variant0("..")' -> 'Variant0'"""
    if r is None or "ok" not in r:
        return None
    t = r["ok"]
    j = 0
    while j < len(t) and (t[j].isalnum() or t[j] == "_"):
        j += 1
    return t[:j]


def run(ctx):
    ctx.level = "proof"
    ctx.trusted = [
        "Coq 8.16.1 kernel + vm_compute (no native_compute); no axioms (Print Assumptions: closed under the global context)",
        "hand-written model Algo/StrConv.v of the FromStr/TryFrom/Display templates (type_entry.rs output_enum/"
        "output_newtype), has_impl, and of serde's Deserialize/Serialize for JSON strings; tied by the compiled-world "
        "correspondence below",
        "py/tocoq.py cspace (dump -> Gallina space), vh gen + verif_dump hook, py/world.py driver",
        "section variable re_match = regress::Regex::find (tabulated by `c11 regress` from the real crate for every "
        "(pattern, probe) pair evaluated)",
        "section variables native_parse/native_display/native_ser (tabulated from the compiled uuid/chrono/std::net "
        "implementations for EVERY native type that occurs in a dump of the run - the set is not fixed: the world has "
        "one module per string-format arm found in the current convert.rs plus plausible unrecognised formats, and "
        "samples of an unknown native are found by parsing a candidate pool); assumption A1: FromStr and "
        "Deserialize-from-string of a native type accept the same strings and yield equal values - obliged on every "
        "(native, probe) pair; section variable string_native = natives all of whose samples serialise to JSON strings",
        "rustc's format-string grammar as modelled by fmt_render ({{ and }} escapes; any other brace is not a literal), "
        "applied to the escaped literal (fmt_escape = the two str::replace calls of the fix a0ebad5)",
    ]
    ctx.assumptions = [
        "domain = string_wired (simple externally tagged enums, String newtypes with/without constraints or deny "
        "lists, newtypes over string-format natives or over string-wired types, untagged enums of string-wired "
        "alternatives, Box of those)",
        "theorem hypothesis wf_conv (bespoke impl lists sound w.r.t. present has_impl) is evaluated = true on every "
        "explored type",
        "C11_display_is_ser excludes natives whose Display differs from Serialize (chrono DateTime<Utc>, finding "
        "C11-F2, with a refutation witness); raw names containing braces are covered since fix a0ebad5 (C11-F1 fixed)",
    ]
    ctx.checker_cmd = ("make -f Makefile.coq theories/Props/C11.vo && coqc Audit_C11.v (Print Assumptions); "
                       "python py/props/c11.py correspondence + direct evaluation on compiled code")

    vlib.build_harness(bins=("vh", "c11"))
    coq_ok = vlib.standard_coq_obligations(ctx, "Props.C11", THEOREMS, ())

    # ---------------- world
    specs = [(n, c, e, []) for (n, c, e) in curated_cases()]
    fmt_table, tr_ok, tr_detail = source_formats(ctx)
    ctx.oblige("translator: string-format arms of convert_string read from the current source", tr_ok and bool(fmt_table),
               tr_detail)
    ctx.coverage["string_formats_in_source"] = fmt_table
    fmts = sorted(fmt_table) + [f for f in PLAUSIBLE_FORMATS if f not in fmt_table]
    specs += [(n, c, e, []) for (n, c, e) in format_cases(fmts)]
    specs += corpus_cases()
    if ctx.replay:
        c = json.load(open(ctx.replay))
        if "defs" in c:
            specs.append(("replay", D(**c["defs"]), c.get("expect", "ok"), c.get("probes", [])))
    nrand = 6 if ctx.tier == "quick" else 40
    specs += [(n, c, e, []) for (n, c, e) in random_cases(ctx, nrand)]
    cases = [s[1] for s in specs]
    w = world.World(ctx, "c11", cases, chunks_fn=chunks_fn)
    w.build()

    unexpected = []
    brace_compile = []
    for i, (name, case, expect, _x) in enumerate(specs):
        st = w.status[i]
        if st != "ok":
            if name.startswith("rand") and st == "not-generated":
                continue   # identifier collision / empty enum: schema rejected, nothing generated
            unexpected.append({"case": name, "status": st, "errors": w.compile_errors.get(i),
                               "steps": w.gen[i].get("steps")})
        if st == "compile-error" and any(has_brace(v["raw"]) for e in w.gen[i]["dump"]["entries"].values()
                                         if e["kind"] == "enum" for v in e["variants"]):
            brace_compile.append((i, name))
    if w.chunk_failures:
        unexpected.append({"chunk_failures": {str(k): v[:2] for k, v in w.chunk_failures.items()}})
    ctx.oblige("world: every curated module is generated and compiles", not unexpected,
               json.dumps(unexpected[:4])[:3000])

    # ---------------- native oracle, phase 1: samples for EVERY native type of any dump
    nat_host = {}     # native type name -> module index whose driver hosts its c11nat arm
    nat_schema = {}   # native type name -> a schema (defs) that yields it
    for i, sp in enumerate(specs):
        if w.status[i] == "not-generated":
            continue
        for ty in module_natives(w.gen[i]["dump"]):
            nat_schema.setdefault(ty, sp[1]["steps"][0]["defs"])
            if ty not in nat_host and w.status[i] == "ok" and w.has_arm(i, ty, "c11nat"):
                nat_host[ty] = i
    nat_tab = {}

    def nat_query(pairs):
        reqs = [{"m": nat_host[ty], "t": ty, "op": "c11nat", "input": s_} for ty, s_ in pairs
                if ty in nat_host and (ty, s_) not in nat_tab]
        seen_, uniq = set(), []
        for r_ in reqs:
            if (r_["t"], r_["input"]) not in seen_:
                seen_.add((r_["t"], r_["input"]))
                uniq.append(r_)
        for rq, a_ in zip(uniq, w.query(uniq)):
            nat_tab[(rq["t"], rq["input"])] = a_
        ctx.evaluations += len(uniq)

    pool = []
    for s_ in GENERIC + NATIVE_PROBES + ISO_POOL:
        if s_ not in pool:
            pool.append(s_)
    nat_query([(ty, s_) for ty in sorted(nat_schema) for s_ in pool])
    derived = {}      # native -> strings its own Display / Serialize produced (fed back as probes)
    for ty in sorted(nat_schema):
        ds = []
        for s_ in pool:
            a_ = nat_tab.get((ty, s_), {})
            for v_ in (a_.get("display"), a_.get("ser")):
                if isinstance(v_, str) and v_ not in ds and v_ not in pool:
                    ds.append(v_)
        derived[ty] = ds[:24]

    # ---------------- probes and tables
    mods = []   # (i, name, gen, [(tid, tname, probes)])
    for i, (name, case, expect, extra) in enumerate(specs):
        if w.status[i] == "not-generated":
            continue
        g = w.gen[i]
        dump = g["dump"]
        nats = module_natives(dump)
        tl = []
        for tid, tname in named_types(g):
            if name.startswith("fmt:") and not nats:
                ps = GENERIC[::4] + NATIVE_PROBES[::8] + ISO_POOL[::6]    # unrecognised format: a plain String
            elif name.startswith("fmt:"):
                ps = GENERIC[::3] + NATIVE_PROBES + ISO_POOL
            else:
                ps = list(GENERIC)
                ps += (NATIVE_PROBES + ISO_POOL) if nats else NATIVE_PROBES[::6]
            for ty in nats:
                ps = ps + [x for x in derived.get(ty, []) if x not in ps]
            for s in probes_for(dump, tid, extra):
                if s not in ps:
                    ps.append(s)
            tl.append((tid, tname, ps))
        mods.append((i, name, g, tl))

    # regress table from the real crate
    pat_strings = {}
    for i, name, g, tl in mods:
        pats = module_patterns(g["dump"])
        for p in pats:
            for _t, _n, ps in tl:
                pat_strings.setdefault(p, set()).update(ps)
    plist = sorted(pat_strings)
    rres = vlib.run_bin("c11", [{"pattern": p, "strings": sorted(pat_strings[p])} for p in plist], args=("regress",))
    re_tab = {}
    for p, r in zip(plist, rres):
        if r.get("r") != "ok":
            ctx.oblige("regress accepts pattern %r" % p, False, json.dumps(r))
            continue
        for s, b in zip(sorted(pat_strings[p]), r["find"]):
            re_tab[(p, s)] = b
    ctx.coverage["regress_table_entries"] = len(re_tab)

    # native oracle, phase 2: every (native, probe) pair the model will be asked about
    nat_query([(ty, s_) for i, name, g, tl in mods for ty in module_natives(g["dump"])
               for _t, _n, ps in tl for s_ in ps])
    all_nats = sorted(nat_schema)
    no_host = [ty for ty in all_nats if ty not in nat_host]
    ctx.oblige("native oracle: every native type of every dump is reachable in the compiled world (%d types)" % len(all_nats),
               not no_host, json.dumps([{"native": ty, "schema": nat_schema[ty]} for ty in no_host])[:2000])
    samples = {ty: [s_ for (t_, s_), a_ in sorted(nat_tab.items()) if t_ == ty and (a_.get("parse") or a_.get("de"))]
               for ty in all_nats}
    no_sample = [ty for ty in all_nats if ty in nat_host and not samples[ty]]
    ctx.oblige("native oracle: a sample value was found for every native type (candidate pool of %d texts)" % len(pool),
               not no_sample, json.dumps([{"native": ty, "schema": nat_schema[ty]} for ty in no_sample])[:2000])
    a1_bad = []
    for (ty, s_), a_ in sorted(nat_tab.items()):
        if a_.get("nofromstr"):
            continue
        if a_.get("parse") != a_.get("de") or (a_.get("parse") and a_.get("same") is not True):
            a1_bad.append({"native": ty, "s": s_, "answer": a_, "schema": nat_schema[ty]})
    ctx.oblige("assumption A1: native FromStr and Deserialize-from-string agree on %d (type, probe) pairs, %d native "
               "types" % (len(nat_tab), len(all_nats)), not a1_bad, json.dumps(a1_bad[:4])[:3000])
    native_fmt_bad = {}
    nonstring_ser = {}
    for (ty, s_), a_ in sorted(nat_tab.items()):
        if (a_.get("parse") or a_.get("de")) and not isinstance(a_.get("ser"), str):
            nonstring_ser.setdefault(ty, []).append((s_, a_.get("ser")))
        if a_.get("parse") and a_.get("display") is not None and a_.get("display") != a_.get("ser"):
            native_fmt_bad.setdefault(ty, []).append((s_, a_.get("display"), a_.get("ser")))
    ctx.coverage["natives"] = {ty: {"samples": len(samples[ty]), "display_eq_ser": ty not in native_fmt_bad,
                                    "string_wired": bool(samples[ty]) and ty not in nonstring_ser} for ty in all_nats}
    ctx.coverage["natives_display_differs_from_serialize"] = {k: v[:2] for k, v in native_fmt_bad.items()}
    # hypothesis Hnat of C11_display_is_ser, per native: only DateTime<Utc> (finding C11-F2) may fail it
    f2_listed = any(f.get("class") == "display-of-chrono-datetime-differs-from-rfc3339-serialization"
                    for f in ctx.findings_for())
    hnat_bad = [{"native": ty, "examples": v[:2], "schema": nat_schema[ty]} for ty, v in sorted(native_fmt_bad.items())
                if not (ty == DT_UTC and f2_listed)]
    ctx.oblige("hypothesis Hnat: Display = Serialize for every native type of the run except the listed "
               "chrono DateTime<Utc> (C11-F2)", not hnat_bad, json.dumps(hnat_bad[:3])[:3000])
    string_natives = [ty for ty in all_nats if samples[ty] and ty not in nonstring_ser]
    unknown_nat = [ty for ty in all_nats if ty not in NATIVES.values()]
    ctx.coverage["natives_not_in_the_pinned_set"] = unknown_nat

    # ---------------- implementation answers
    OPS = ["parse", "try_from_str", "try_from_string", "try_from_ref_string", "de", "display", "dbg_parse", "dbg_de"]
    reqs = []
    idx = {}
    for i, name, g, tl in mods:
        if w.status[i] != "ok":
            continue
        crash = any(v["raw"] == "{self}" for e in g["dump"]["entries"].values() if e["kind"] == "enum"
                    for v in e["variants"])
        for tid, tname, ps in tl:
            for s in ps:
                for op in OPS:
                    if not w.has_arm(i, tname, op):
                        continue
                    if crash and op == "display":
                        continue
                    inp = json.dumps(s) if op in ("de", "display") else s
                    idx[(i, tid, s, op)] = len(reqs)
                    reqs.append({"m": i, "t": tname, "op": op, "input": inp})
            for j in NONSTRING_JSON:
                idx[(i, tid, ("json", j), "de")] = len(reqs)
                reqs.append({"m": i, "t": tname, "op": "de", "input": j})
    ctx.log("implementation queries:", len(reqs))
    ans = w.query(reqs)
    ctx.evaluations += len(reqs)
    ctx.log("implementation answered")

    def A(i, tid, s, op):
        k = idx.get((i, tid, s, op))
        return None if k is None else ans[k]

    # ---------------- model answers
    model = {}
    static = {}
    model_ok = True
    try:
        ok_m, out_m = vlib.coq_make(["theories/Algo/StrConv.vo"])
        if not ok_m:
            raise RuntimeError(out_m[-2000:])
        base_hdr = tocoq.COQ_HEADER + "From Typify Require Import Algo.StrConv.\nOpen Scope string_scope.\n"
        nl = sorted(nat_tab.items())

        def module_job(mod):
            i, name, g, tl = mod
            pats = set(module_patterns(g["dump"]))
            nats = set(module_natives(g["dump"]))
            pset = set()
            for _t, _n, ps in tl:
                pset.update(ps)
            hdr = [base_hdr]
            used_re = [kv for kv in sorted(re_tab.items()) if kv[0][0] in pats and kv[0][1] in pset]
            hdr.append("Definition re_tab : list (ustring * ustring * bool) := %s.\n" % tocoq.clist(
                used_re, lambda kv: "(%s, %s, %s)" % (tocoq.ustr(kv[0][0]), tocoq.ustr(kv[0][1]), tocoq.cbool(kv[1])),
                "(ustring * ustring * bool)"))
            mine = [kv for kv in nl if kv[0][0] in nats and kv[0][1] in pset and kv[1].get("parse")]
            mine_d = [kv for kv in mine if isinstance(kv[1].get("display"), str)]
            hdr.append("Definition np_tab : list (ustring * ustring * bool) := %s.\n" % tocoq.clist(
                mine, lambda kv: "(%s, %s, true)" % (tocoq.ustr(kv[0][0]), tocoq.ustr(kv[0][1])),
                "(ustring * ustring * bool)"))
            hdr.append("Definition nd_tab : list (ustring * ustring * ustring) := %s.\n" % tocoq.clist(
                mine_d, lambda kv: "(%s, %s, %s)" % (tocoq.ustr(kv[0][0]), tocoq.ustr(kv[0][1]), tocoq.ustr(kv[1]["display"])),
                "(ustring * ustring * ustring)"))
            hdr.append("Definition ns_tab : list (ustring * ustring * ustring) := %s.\n" % tocoq.clist(
                [kv for kv in mine if isinstance(kv[1].get("ser"), str)],
                lambda kv: "(%s, %s, %s)" % (tocoq.ustr(kv[0][0]), tocoq.ustr(kv[0][1]), tocoq.ustr(kv[1]["ser"])),
                "(ustring * ustring * ustring)"))
            hdr.append("Definition sn_tab : list ustring := %s.\n" % tocoq.clist(string_natives, tocoq.ustr, "ustring"))
            hdr.append("Definition T_%d : space := %s.\n" % (i, tocoq.cspace(g["dump"])))
            ex, ks = [], []
            for tid, tname, ps in tl:
                ex.append("show_static sn_tab T_%d %d%%N" % (i, tid))
                ks.append(("static", i, tid, None))
                for s in ps:
                    ex.append("show_probe re_tab np_tab nd_tab ns_tab T_%d %d%%N %s" % (i, tid, tocoq.ustr(s)))
                    ks.append(("probe", i, tid, s))
            if not ex:
                return [], []
            return ks, coq_eval_each("c11_m%d" % i, "".join(hdr), ex, shard=400)

        from concurrent.futures import ThreadPoolExecutor
        keys, outs = [], []
        ctx.log("model evaluations:", sum(1 + len(ps) for _i, _n, _g, tl in mods for _t, _tn, ps in tl))
        with ThreadPoolExecutor(max_workers=4) as ex_:
            for ks, os_ in ex_.map(module_job, mods):
                keys += ks
                outs += os_
        exprs = keys
        for k, o in zip(keys, outs):
            v = json.loads(o)
            if k[0] == "static":
                static[(k[1], k[2])] = v
            else:
                model[(k[1], k[2], k[3])] = v
        ctx.evaluations += len(exprs)
        ctx.log("model evaluated")
    except Exception as e:  # noqa
        model_ok = False
        ctx.oblige("model StrConv.v evaluates on the dumped type spaces", False, repr(e)[:3000])

    # ---------------- correspondence model vs compiled code
    mism = []
    n_cmp = 0
    dist = {"wired_types": 0, "not_wired_types": 0, "parse_ok": 0, "parse_err": 0, "de_ok": 0, "de_err": 0,
            "display": 0, "untagged_choice_checked": 0, "finalize_agrees_false": 0}
    kinds = {}
    if model_ok:
        for i, name, g, tl in mods:
            api = {t["id"]: t for t in g["types"]} if isinstance(g.get("types"), list) else {}
            compiled = w.status[i] == "ok"
            for tid, tname, ps in tl:
                st = static[(i, tid)]
                wired, wf, fin, hF, hD, eF, eT, eI, eD, aF, aD = st
                if MUT == "emits_display_hasimpl":
                    eD = hD
                if MUT == "api_internal":     # model of the facade = internal has_impl (pre-0e25061 behaviour)
                    aF, aD = hF, hD
                e = g["dump"]["entries"][str(tid)]
                kinds[e["kind"] + ":" + (e.get("constraints", {}).get("k", "") or e.get("tag", {}).get("k", ""))] = \
                    kinds.get(e["kind"] + ":" + (e.get("constraints", {}).get("k", "") or e.get("tag", {}).get("k", "")), 0) + 1
                dist["wired_types" if wired else "not_wired_types"] += 1
                if not fin:
                    dist["finalize_agrees_false"] += 1
                a = api.get(tid)
                if a is not None:
                    n_cmp += 1
                    # public facade Type::has_impl vs model api_has_impl (the internal has_impl is tied through
                    # the emitted impls below: it decides emission)
                    if a["has_impl"]["FromStr"] != bool(aF) or a["has_impl"]["Display"] != bool(aD):
                        mism.append({"case": name, "type": tname, "what": "Type::has_impl", "api": a["has_impl"],
                                     "model_api": [aF, aD], "model_internal": [hF, hD]})
                if wired and not wf:
                    mism.append({"case": name, "type": tname, "what": "wf_conv false on a real type space"})
                if not compiled:
                    continue
                # emission: scan vs model
                scan_em = [w.has_arm(i, tname, "parse"), w.has_arm(i, tname, "try_from_str"),
                           w.has_arm(i, tname, "try_from_ref_string"), w.has_arm(i, tname, "try_from_string"),
                           w.has_arm(i, tname, "display")]
                mod_em = [bool(eF), bool(eT), bool(eT), bool(eT or eI), bool(eD)]
                n_cmp += 1
                if wired and scan_em != mod_em:
                    mism.append({"case": name, "type": tname, "what": "emitted impls", "scan": scan_em, "model": mod_em})
                if not wired:
                    continue
                for s in ps:
                    m = model[(i, tid, s)]
                    for op, mk in (("parse", "parse"), ("de", "de"), ("try_from_str", "try_from"),
                                   ("try_from_ref_string", "try_from"), ("try_from_string", "try_from")):
                        r = A(i, tid, s, op)
                        if r is None:
                            continue
                        if op == "try_from_string" and eI and not eT:
                            mk = "try_inner"
                        k, v = res_val(r)
                        n_cmp += 1
                        exp = m[mk]
                        if MUT == "model_case_insensitive" and op == "parse" and exp is None and e["kind"] == "enum":
                            exp = s.lower()
                        got = v if k == "ok" else None
                        if k == "other" or got != exp:
                            mism.append({"case": name, "type": tname, "s": s, "op": op, "impl": r, "model": exp})
                        if op == "parse":
                            dist["parse_ok" if k == "ok" else "parse_err"] += 1
                        if op == "de":
                            dist["de_ok" if k == "ok" else "de_err"] += 1
                    for op, mk in (("dbg_parse", "parse_v"), ("dbg_de", "de_v")):
                        r = A(i, tid, s, op)
                        if r is None or e["kind"] != "enum":
                            continue
                        n_cmp += 1
                        h = dbg_head(r)
                        if h != m[mk]:
                            mism.append({"case": name, "type": tname, "s": s, "op": op, "impl": r, "model": m[mk]})
                        elif h is not None and e["tag"]["k"] == "untagged":
                            dist["untagged_choice_checked"] += 1
                    r = A(i, tid, s, "display")
                    if r is not None and "ok" in r:
                        n_cmp += 1
                        dist["display"] += 1
                        if m["display"] != r["ok"] or m["de"] != r.get("ser"):
                            mism.append({"case": name, "type": tname, "s": s, "op": "display", "impl": r,
                                         "model": [m["display"], m["de"]]})
        # the model says every Display literal is valid: a module with brace raw names that rustc
        # rejects contradicts it
        for i, name in brace_compile:
            n_cmp += 1
            mism.append({"case": name, "what": "module with brace raw names does not compile; model: escaped literal "
                         "is a valid format string", "errors": w.compile_errors.get(i)})
    ctx.oblige("correspondence K5/K4: StrConv model = compiled generated code on %d comparisons" % n_cmp,
               model_ok and not mism, json.dumps(mism[:6], ensure_ascii=True)[:4000])
    ctx.coverage["correspondence_comparisons"] = n_cmp
    ctx.coverage["correspondence_mismatches"] = len(mism)
    ctx.coverage["distribution"] = dist
    ctx.coverage["type_kinds"] = kinds
    ctx.coverage["modules"] = {"total": len(specs), "compiled": sum(1 for s in w.status if s == "ok"),
                               "compile_error": sum(1 for s in w.status if s == "compile-error"),
                               "not_generated": sum(1 for s in w.status if s == "not-generated")}
    ctx.coverage["rule"] = ("curated world (simple enums incl. odd-cased/keyword/quote/unicode values, nullable enums, "
                            "String newtypes with length/pattern constraints, deny lists, six native formats, wrappers, "
                            "untagged enums in both orders, raw names with braces incl. {self}) + seeded random modules; probes = generic "
                            "+ native + per-type members/idents/case variants/boundary lengths (ascii, 2-byte, 4-byte)")

    # ---------------- the property itself on the compiled code (no model)
    found = []
    n_direct = 0
    for i, name, g, tl in mods:
        if w.status[i] != "ok":
            continue
        for tid, tname, ps in tl:
            st = static.get((i, tid))
            if st is None or not st[0]:
                continue
            e = g["dump"]["entries"][str(tid)]
            # the domain claim itself: only strings on the wire
            for j in NONSTRING_JSON:
                r = A(i, tid, ("json", j), "de")
                n_direct += 1
                if r is not None and "ok" in r:
                    found.append({"kind": "string-wired-type-accepts-non-string", "case": name, "type": tname,
                                  "json": j, "defs": specs[i][1]["steps"][0]["defs"]})
            for s in ps:
                de = A(i, tid, s, "de")
                dk, dv = res_val(de)
                ctx.nontrivial.add("%s/%s/%s" % (name, tname, s))
                if dk == "ok" and not isinstance(dv, str):
                    found.append({"kind": "serialises-to-non-string", "case": name, "type": tname, "s": s, "ser": dv})
                pa = A(i, tid, s, "parse")
                if MUT == "impl_parse_lowercases" and pa is not None and e["kind"] == "enum" and "err" in pa:
                    low = A(i, tid, s.lower(), "parse")
                    pa = low if low is not None else pa
                if pa is not None:
                    n_direct += 1
                    pk, pv = res_val(pa)
                    if (pk == "ok") != (dk == "ok") or (pk == "ok" and pv != dv):
                        found.append({"kind": "parse-vs-deserialize", "case": name, "type": tname, "s": s,
                                      "parse": pa, "de": de, "defs": specs[i][1]["steps"][0]["defs"]})
                    hp, hd = dbg_head(A(i, tid, s, "dbg_parse")), dbg_head(A(i, tid, s, "dbg_de"))
                    if pk == "ok" and dk == "ok" and A(i, tid, s, "dbg_parse") is not None and \
                            A(i, tid, s, "dbg_parse") != A(i, tid, s, "dbg_de"):
                        found.append({"kind": "parse-vs-deserialize-value", "case": name, "type": tname, "s": s,
                                      "parse": A(i, tid, s, "dbg_parse"), "de": A(i, tid, s, "dbg_de"),
                                      "defs": specs[i][1]["steps"][0]["defs"]})
                    for op in ("try_from_str", "try_from_ref_string", "try_from_string"):
                        r = A(i, tid, s, op)
                        if r is None:
                            continue
                        if MUT == "impl_tryfrom_err" and op == "try_from_str":
                            r = {"err": "mutated"}
                        n_direct += 1
                        if res_val(r) != (pk, pv):
                            found.append({"kind": "try_from-vs-parse", "case": name, "type": tname, "s": s, "op": op,
                                          "try_from": r, "parse": pa})
                else:
                    r = A(i, tid, s, "try_from_string")
                    if r is not None:
                        n_direct += 1
                        if res_val(r) != (dk, dv):
                            found.append({"kind": "try_from-vs-deserialize", "case": name, "type": tname, "s": s,
                                          "try_from": r, "de": de})
                di = A(i, tid, s, "display")
                if di is not None and "ok" in di:
                    n_direct += 1
                    shown = di["ok"]
                    if MUT == "impl_display_ident" and e["kind"] == "enum":
                        shown = dbg_head(A(i, tid, s, "dbg_de")) or shown
                    if MUT == "impl_display_unescape" and e["kind"] == "enum" and e["tag"]["k"] == "external" and isinstance(di.get("ser"), str):
                        rr = fmt_render_py(di["ser"])     # what the pre-a0ebad5 template printed
                        shown = rr if rr is not None else "<does not compile>"
                    if shown != di.get("ser"):
                        found.append({"kind": "display-vs-serialize", "case": name, "type": tname, "s": s,
                                      "to_string": shown, "ser": di.get("ser"),
                                      "defs": specs[i][1]["steps"][0]["defs"], "entry": e,
                                      "natives": reachable_natives(g["dump"], tid)})
    # compile failures of the Display template and the `{self}` capture
    for i, name in brace_compile:
        found.append({"kind": "display-template-does-not-compile", "case": name,
                      "defs": specs[i][1]["steps"][0]["defs"], "errors": w.compile_errors.get(i)})
    for i, name, g, tl in mods:
        if w.status[i] != "ok":
            continue
        for e in g["dump"]["entries"].values():
            if e["kind"] == "enum" and any(v["raw"] == "{self}" for v in e["variants"]):
                crashed = False
                try:   # isolated process: before a0ebad5 this recursed until the stack overflowed
                    r = w.query([{"m": i, "t": e["name"], "op": "display", "input": json.dumps("{self}")}], timeout=120)
                    crashed = not (r and "ok" in r[0] and r[0]["ok"] == "{self}" and r[0].get("ser") == "{self}")
                except Exception:  # noqa  (process died)
                    crashed = True
                n_direct += 1
                if crashed:
                    found.append({"kind": "display-template-captures-self", "case": name,
                                  "defs": specs[i][1]["steps"][0]["defs"]})
    ctx.coverage["direct_property_evaluations"] = n_direct
    ctx.evaluations += n_direct

    listed = {f["class"]: f for f in ctx.findings_for()}
    unlisted = []
    reproduced = set()
    for v in found:
        cls = classify(v, nat_tab)
        f = listed.get(cls)
        if f:
            reproduced.add(f["id"])
            ctx.known_finding(f["id"], "%s: %s (e.g. %s)" % (f["id"], f["summary"], json.dumps(v.get("defs", v.get("case")))[:300]))
        else:
            unlisted.append(v)
    ctx.oblige("direct property evaluation: no unlisted violation on %d evaluations" % n_direct, not unlisted,
               json.dumps(unlisted[:3], ensure_ascii=True)[:3000])
    ctx.coverage["violations_in_listed_classes"] = len(found) - len(unlisted)
    ctx.samples = []
    for i, name, g, tl in mods[:8]:
        if w.status[i] == "ok" and tl:
            tid, tname, ps = tl[0]
            s = ps[min(2, len(ps) - 1)]
            ctx.samples.append({"case": name, "type": tname, "s": s, "parse": A(i, tid, s, "parse"),
                                "de": A(i, tid, s, "de"), "model": model.get((i, tid, s))})

    if unlisted:
        unlisted.sort(key=lambda v: len(json.dumps(v)))
        v = dict(unlisted[0])
        v["broken_obligations"] = [o[0] for o in ctx.broken()]
        v["expected"] = "parse.is_ok == de.is_ok with equal values; try_from = parse; to_string == to_value().as_str()"
        ctx.violation(v)
    elif ctx.broken():
        ctx.violation({"broken_obligations": [(o[0], o[2][:1500]) for o in ctx.broken()],
                       "note": "a theorem or the model/implementation correspondence no longer checks; the direct "
                               "evaluation of the property on the compiled code found no failing input"}, no_input=True)

    if ctx.tier == "thorough" and coq_ok:
        rc, out, err = vlib.sh("timeout 1500 coqchk -silent -o -Q theories Typify Typify.Props.C11", cwd=vlib.COQ,
                               timeout=1600)
        ctx.oblige("coqchk re-checks Props.C11 and dependencies", rc == 0, (out + err)[-1500:])


def coq_eval_each(tag, header, exprs, shard=400, timeout=1500):
    """Like vlib.coq_eval_strings, but one `Eval vm_compute` per expression (no
    String.concat of the whole shard, whose non-tail-recursive append overflows
    the stack on ~50 kB of output)."""
    import re
    from concurrent.futures import ThreadPoolExecutor
    d = os.path.join(vlib.WORK, "cases", tag)
    os.makedirs(d, exist_ok=True)
    for f in os.listdir(d):
        os.unlink(os.path.join(d, f))
    shards = [exprs[i:i + shard] for i in range(0, len(exprs), shard)]
    paths = []
    for k, sh_ex in enumerate(shards):
        pth = os.path.join(d, "cases_%d.v" % k)
        with open(pth, "w") as f:
            f.write(header + "\nSet Printing Width 1000000.\nSet Printing Depth 1000000.\n")
            for e in sh_ex:
                f.write("Eval vm_compute in (%s).\n" % e)
        paths.append(pth)

    def one(pth):
        rc, out, err = vlib.coqc_file(pth, timeout)
        if rc != 0:
            raise RuntimeError("coqc failed on %s:\n%s" % (pth, (out + err)[-3000:]))
        return [m.replace('""', '"') for m in re.findall(r'= "(.*)"\s*\n\s*: string', out)]

    results = []
    with ThreadPoolExecutor(max_workers=4) as ex:
        for k, r in enumerate(ex.map(one, paths)):
            if len(r) != len(shards[k]):
                raise RuntimeError("%s shard %d: %d results for %d cases" % (tag, k, len(r), len(shards[k])))
            results.extend(r)
    return results


def fmt_render_py(s):
    """python twin of StrConv.fmt_render (used only to classify compile errors)"""
    out = []
    k = 0
    while k < len(s):
        c = s[k]
        if c in "{}":
            if k + 1 < len(s) and s[k + 1] == c:
                out.append(c)
                k += 2
                continue
            return None
        out.append(c)
        k += 1
    return "".join(out)


def reachable_natives(dump, tid):
    """native type names reachable from a type through newtypes, boxes and enum variants"""
    seen, out = set(), []

    def walk(t):
        if t in seen:
            return
        seen.add(t)
        e = dump["entries"].get(str(t))
        if not e:
            return
        k = e["kind"]
        if k == "native":
            out.append(e["type_name"])
        elif k == "newtype":
            walk(e["type_id"])
        elif k in ("box", "option"):
            walk(e["id"])
        elif k == "enum":
            for v in e["variants"]:
                if v["details"]["k"] == "item":
                    walk(v["details"]["id"])
    walk(tid)
    return sorted(set(out))


def classify(v, nat_tab):
    """class name of a direct-evaluation violation (narrow), or None.

    C11-F2 is keyed to EXACTLY chrono::DateTime<Utc>: the printed/serialised pair must be one that the
    native oracle recorded for that very type, and the type must reach that native.  The same disease in
    any other native type (e.g. a newly recognised format mapped to NaiveDateTime) is NOT in the class."""
    k = v["kind"]
    if k in ("display-template-does-not-compile", "display-template-captures-self"):
        return "simple-enum-raw-name-with-brace-used-as-format-string"
    if k == "display-vs-serialize":
        e = v.get("entry", {})
        if e.get("kind") == "enum" and e.get("tag", {}).get("k") == "external" and \
                any(has_brace(x["raw"]) for x in e.get("variants", [])) and has_brace(v.get("ser") or ""):
            return "simple-enum-raw-name-with-brace-used-as-format-string"
        if DT_UTC in v.get("natives", []) and any(
                ty == DT_UTC and a.get("parse") and a.get("display") == v.get("to_string") and a.get("ser") == v.get("ser")
                for (ty, _s), a in nat_tab.items()):
            return "display-of-chrono-datetime-differs-from-rfc3339-serialization"
    return None
