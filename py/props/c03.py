"""C03 — round trip keeps declared data, stays schema-valid and is idempotent.

Deciding method: theorems about the executable semantics of generated code
(IR/Serde.v `de`/`ser`) for the checker-defined class `rt_simple`
(Check/RoundTrip.v, Proofs/RoundTripProofs.v, Props/C03.v): serialisation of a
deserialised value never fails, the output is a fixed point, declared data is
contained in it.  Every run ties the model to the compiled generated code (K5:
model double round trip = compiled double round trip), evaluates `rt_simple` on
the real IR of every explored document and instantiates the theorems on it, and
evaluates the property text directly on compiled code with the independent
validity oracle (failing-input search):
  w = to_value(from_str(v)) is valid again, contains prune(v|declared), and
  to_value(from_str(w)) = w.
"""
import collections
import json
import os
import re
from fractions import Fraction

import faithful
import k5
import oracle
import tocoq
import vlib

PROPS = os.path.join(vlib.COQ, "theories", "Props", "C03.v")
CORPUS = os.path.join(vlib.ROOT, "corpus", "C03")
# emulated mutations (detection tests, see notes/C03.md): VERIF_C03_MUTATE=
#   drop-member   compiled answer loses its first object member
#   null-member   compiled answer gets an extra `"zz": null` member
#   int-to-str    compiled answer's first integer becomes a string
#   unstable      second round trip answer differs
#   anyof-untagged  emulates the seeded change of util.rs object_schemas_mutually_exclusive (`aa != bb`): every
#                 flattened-union struct of an object anyOf becomes an untagged enum in the dump and answers like
#                 one (the first branch that accepts reads the instance and drops what it does not declare)
MUT = os.environ.get("VERIF_C03_MUTATE", "")
NOANSWER = ("no answer",)


# ----------------------------------------------------------------- JSON helpers
def is_num(x):
    return isinstance(x, (int, float)) and not isinstance(x, bool)


def empty(x):
    return x is None or x == [] or x == {}


def prune(v):
    """drop object members whose (pruned) value is null / [] / {} — recursively"""
    if isinstance(v, dict):
        out = {}
        for k, x in v.items():
            p = prune(x)
            if not empty(p):
                out[k] = p
        return out
    if isinstance(v, list):
        return [prune(x) for x in v]
    return v


def contained(a, b):
    """objects member-wise, arrays element-wise (same length), numbers numerically, else equal"""
    if isinstance(a, bool) or isinstance(b, bool):
        return isinstance(a, bool) and isinstance(b, bool) and a == b
    if is_num(a) and is_num(b):
        return Fraction(a) == Fraction(b)
    if isinstance(a, dict):
        return isinstance(b, dict) and all(k in b and contained(x, b[k]) for k, x in a.items())
    if isinstance(a, list):
        return isinstance(b, list) and len(a) == len(b) and all(contained(x, y) for x, y in zip(a, b))
    return type(a) == type(b) and a == b


def exact_eq(a, b):
    """JSON equality as serde_json::Value compares: an integer never equals a float"""
    if type(a) != type(b):
        return False
    if isinstance(a, dict):
        return set(a) == set(b) and all(exact_eq(a[k], b[k]) for k in a)
    if isinstance(a, list):
        return len(a) == len(b) and all(exact_eq(x, y) for x, y in zip(a, b))
    return a == b


def resolve(doc, s, depth=0):
    while isinstance(s, dict) and "$ref" in s and depth < 50:
        s = doc["definitions"][s["$ref"].split("/")[-1]]
        depth += 1
    return s


def restrict(doc, s, v, depth=0):
    """v restricted to the members the schema declares (properties, schema-valued
    additionalProperties / patternProperties, through $ref / allOf / oneOf / anyOf:
    a member is declared when some branch declares it)."""
    s = resolve(doc, s)
    if depth > 60 or not isinstance(s, dict):
        return v
    subs = []
    for kw in ("allOf", "oneOf", "anyOf"):
        subs += s.get(kw, [])
    if isinstance(v, dict):
        props = s.get("properties", {})
        ap = s.get("additionalProperties")
        pp = s.get("patternProperties", {})
        out = {}
        subr = [restrict(doc, b, v, depth + 1) for b in subs if isinstance(resolve(doc, b), dict)]
        for k, x in v.items():
            if k in props:
                out[k] = restrict(doc, props[k], x, depth + 1)
            elif any(re.search(p, k) for p in pp):
                out[k] = x
            elif isinstance(ap, dict):
                out[k] = restrict(doc, ap, x, depth + 1)
            else:
                # declared by a branch: take the most restricted reading (a declared-only instance is unchanged
                # under every branch that declares the member)
                cands = [r[k] for r in subr if isinstance(r, dict) and k in r]
                if cands:
                    out[k] = min(cands, key=lambda c: len(json.dumps(c)))
        return out
    if isinstance(v, list):
        it = s.get("items")
        if isinstance(it, dict):
            return [restrict(doc, it, x, depth + 1) for x in v]
        if isinstance(it, list):
            ai = s.get("additionalItems")
            return [restrict(doc, it[n], x, depth + 1) if n < len(it) else
                    (restrict(doc, ai, x, depth + 1) if isinstance(ai, dict) else x) for n, x in enumerate(v)]
        for b in subs:
            rb = resolve(doc, b)
            if isinstance(rb, dict) and ("items" in rb):
                return restrict(doc, rb, v, depth + 1)
        return v
    return v


def mutate_answer(o, second=False):
    """emulated breaking changes of the generated code (detection tests)"""
    if not MUT or "ok" not in o:
        return o
    o = json.loads(json.dumps(o))
    w = o["ok"]
    if MUT == "drop-member" and isinstance(w, dict) and w:
        del w[sorted(w)[0]]
    elif MUT == "null-member" and isinstance(w, dict):
        w["zz"] = None
    elif MUT == "int-to-str" and isinstance(w, dict):
        for k in sorted(w):
            if isinstance(w[k], int) and not isinstance(w[k], bool):
                w[k] = str(w[k])
                break
    elif MUT == "unstable" and second and isinstance(w, dict):
        w["zz2"] = 1
    o.pop("text", None)
    return o


# ----------------------------------------------------------------- findings
def boxed_option_members(dump):
    """(type name, wire name) of members with state Optional whose type is Box<Option<_>> in the dumped IR"""
    res = set()
    ents = dump["entries"]

    def props_of(e):
        if e.get("kind") == "struct":
            yield from e["props"]
        if e.get("kind") == "enum":
            for v in e["variants"]:
                if v["details"]["k"] == "struct":
                    yield from v["details"]["props"]
    for e in ents.values():
        for p in props_of(e):
            t = ents.get(str(p["type_id"]))
            if p["state"]["k"] == "optional" and t and t["kind"] == "box":
                inner = ents.get(str(t["id"]))
                if inner and inner["kind"] == "option":
                    res.add((e.get("name"), p["rename"]["s"] if p["rename"]["k"] == "rename" else p["name"]))
    return res


def null_payload_branches(doc):
    """the construct of finding F3, read from the schema wherever it occurs: branches of a oneOf/anyOf that are
    a one-property object whose payload schema is {type: null}  -> external names {K};
    a two-property object {t: single-valued string enum, c: {type: null}}  -> adjacent triples (t, c, V)"""
    ext, adj = set(), set()

    def is_null(ps):
        ps = resolve(doc, ps)
        return isinstance(ps, dict) and ps.get("type") == "null"

    def const_str(ps):
        ps = resolve(doc, ps)
        if isinstance(ps, dict) and isinstance(ps.get("enum"), list) and len(ps["enum"]) == 1 and \
                isinstance(ps["enum"][0], str):
            return ps["enum"][0]
        if isinstance(ps, dict) and isinstance(ps.get("const"), str):
            return ps["const"]
        return None

    def walk(s, depth=0):
        if depth > 40:
            return
        if isinstance(s, list):
            for x in s:
                walk(x, depth + 1)
            return
        if not isinstance(s, dict):
            return
        for kw in ("oneOf", "anyOf"):
            for b in s.get(kw, []) if isinstance(s.get(kw), list) else []:
                rb = resolve(doc, b)
                props = rb.get("properties", {}) if isinstance(rb, dict) else {}
                if len(props) == 1:
                    (k, ps), = props.items()
                    if is_null(ps):
                        ext.add(k)
                elif len(props) == 2:
                    (k1, p1), (k2, p2) = props.items()
                    for (tk, tp), (ck, cp) in (((k1, p1), (k2, p2)), ((k2, p2), (k1, p1))):
                        if const_str(tp) is not None and is_null(cp):
                            adj.add((tk, ck, const_str(tp)))
        for x in s.values():
            if isinstance(x, (dict, list)):
                walk(x, depth + 1)
    walk(doc)
    return ext, adj


def unit_variants(doc, dump):
    """unit variants of externally / adjacently tagged enums IN THE DUMP whose schema branch is the null-payload
    construct: external -> set of names; adjacent -> [(tag, content, names)]"""
    sext, sadj = null_payload_branches(doc)
    ext, adj = set(), []
    for e in dump["entries"].values():
        if e.get("kind") != "enum":
            continue
        units = {v["raw"] for v in e["variants"] if v["details"]["k"] == "simple"}
        if e["tag"]["k"] == "external":
            ext |= units & sext
        elif e["tag"]["k"] == "adjacent":
            names = {v for (t, c, v) in sadj if t == e["tag"]["tag"] and c == e["tag"]["content"]} & units
            if names:
                adj.append((e["tag"]["tag"], e["tag"]["content"], names))
    return ext, adj


def unit_forms_to_null_payload(w, ext, adj):
    """"V" -> {"V": null} (external), {tag: "V"} -> {tag: "V", content: null} (adjacent)"""
    if isinstance(w, str) and w in ext:
        return {w: None}
    if isinstance(w, dict):
        for tg, ct, units in adj:
            if set(w) == {tg} and isinstance(w[tg], str) and w[tg] in units:
                return {tg: w[tg], ct: None}
        return {k: unit_forms_to_null_payload(x, ext, adj) for k, x in w.items()}
    if isinstance(w, list):
        return [unit_forms_to_null_payload(x, ext, adj) for x in w]
    return w


def added_defaults(doc, s, v, w, path=()):
    """members of w that v does not have and whose property schema carries exactly that value as `default`:
    [(path, property schema)]"""
    out = []
    s = resolve(doc, s)
    if not isinstance(s, dict):
        return out
    subs = [b for kw in ("allOf", "oneOf", "anyOf") for b in s.get(kw, [])]
    if isinstance(w, dict):
        vv = v if isinstance(v, dict) else {}
        for k, ps in s.get("properties", {}).items():
            if k in w and k not in vv and isinstance(ps, dict) and "default" in resolve(doc, ps) and \
                    exact_eq(resolve(doc, ps)["default"], w[k]):
                out.append((path + (k,), ps))
            elif k in w and k in vv:
                out += added_defaults(doc, ps, vv[k], w[k], path + (k,))
        for b in subs:
            out += added_defaults(doc, b, v, w, path)
    elif isinstance(w, list) and isinstance(v, list) and len(v) == len(w) and isinstance(s.get("items"), dict):
        for n, (x, y) in enumerate(zip(v, w)):
            out += added_defaults(doc, s["items"], x, y, path + (n,))
    return out


def invalid_schema_default(doc, ref, v, w):
    """True when the output is invalid only because a schema `default` that is itself invalid under its own property
    schema was filled in (the schema is outside the faithful fragment; accepting such a default is C06's subject)"""
    ads = added_defaults(doc, ref, v, w)
    if not ads:
        return False
    r = oracle.classify([(doc, [(ps, resolve(doc, ps)["default"]) for _, ps in ads])])[0]
    bad = [p for (p, _), ok in zip(ads, r) if ok is not True]
    if not bad:
        return False
    rep = json.loads(json.dumps(w))
    for p in bad:
        cur = rep
        try:
            for k in p[:-1]:
                cur = cur[k]
            del cur[p[-1]]
        except (KeyError, IndexError, TypeError):
            pass
    return oracle.classify([(doc, [(ref, rep)])])[0][0] is True


def classify_violation(ctx, ex, it, kinds, w):
    """-> finding dict or None.  Classes are decided by re-evaluation, not by name:
    (F1 — null at Optional Box<Option<_>> members — is fixed by b9da3ef: its corpus witnesses are regression cases);
    F2: the definition is a oneOf rendered as an untagged enum and the output satisfies two or more branches;
    F3: rewriting the unit-variant forms of externally / adjacently tagged enums whose schema branch is the
        null-payload construct (read from the schema, wherever it occurs) back to their null-payload form ({"V": null}, {tag: "V", content: null}) repairs the output."""
    doc = ex.docs[it["m"]]
    ref = {"$ref": "#/definitions/" + it["name"]}
    for f in ctx.findings_for():
        cl = f.get("class")
        if cl == "null-payload-becomes-unit-variant" and \
                set(kinds) <= {"invalid-output", "declared-data-lost"}:
            # F3: rewriting the unit-variant strings of mixed externally tagged enums back to {"V": null} repairs
            # both validity and containment
            ext, adj = unit_variants(doc, ex.dumps[it["m"]])
            rep = unit_forms_to_null_payload(w, ext, adj)
            if not exact_eq(rep, w) and contained(prune(restrict(doc, ref, it["v"])), prune(rep)) and \
                    oracle.classify([(doc, [(ref, rep)])])[0][0] is True:
                return f
        if cl == "untagged-earlier-variant-accepts-later-variants-output" and \
                set(kinds) <= {"invalid-output", "not-a-fixed-point"}:
            sch = resolve(doc, ref)
            ent = ex.dumps[it["m"]]["entries"].get(str(it["tid"]), {})
            if isinstance(sch, dict) and "oneOf" in sch and ent.get("kind") == "enum" and ent["tag"]["k"] == "untagged":
                r = oracle.classify([(doc, [(b, w) for b in sch["oneOf"]] + [(b, it["v"]) for b in sch["oneOf"]])])[0]
                n = len(sch["oneOf"])
                if len([x for x in r[:n] if x is True]) >= 2 and len([x for x in r[n:] if x is True]) == 1:
                    return f
    return None


# ----------------------------------------------------------------- finding F4 (flattened-union structs)
def anyof_object_defs(doc, dump):
    """definitions that are an anyOf of object branches -> "flat" when typify rendered a flattened-union struct (all
    of >= 2 members `#[serde(flatten)] Option<subtype>`: what convert_any_of emits for branches it finds non-exclusive),
    "untagged" when it rendered an untagged enum (branches it found mutually exclusive)"""
    out = {}
    ents = dump["entries"]
    for name, sch in doc.get("definitions", {}).items():
        if not (isinstance(sch, dict) and isinstance(sch.get("anyOf"), list) and len(sch["anyOf"]) >= 2 and
                all(isinstance(resolve(doc, b), dict) and resolve(doc, b).get("type") == "object" for b in sch["anyOf"])):
            continue
        tid = dump["ref_to_id"].get("#/" + name)
        e = ents.get(str(tid)) if tid is not None else None
        if not e:
            continue
        if e.get("kind") == "struct" and len(e["props"]) >= 2 and \
                all(p["rename"]["k"] == "flatten" and ents.get(str(p["type_id"]), {}).get("kind") == "option"
                    for p in e["props"]):
            out[name] = "flat"
        elif e.get("kind") == "enum" and e["tag"]["k"] == "untagged":
            out[name] = "untagged"
    return out


def flat_union_defs(doc, dump):
    return {n for n, k in anyof_object_defs(doc, dump).items() if k == "flat"}


def exclusive_by_undeclared_required(a, b):
    """typify util.rs object_schemas_mutually_exclusive, first test: a branch requires a property the other does not
    declare (it ignores that the other branch is open)"""
    pa, pb = set(a.get("properties", {})), set(b.get("properties", {}))
    if not pa or not pb:
        return False
    return not set(a.get("required", [])) <= pb or not set(b.get("required", [])) <= pa


def flat_union_positions(doc, flat, s, v, w, path=()):
    """places where (v, w) sit at a $ref to a flattened-union definition: [(name, v_sub, w_sub, path)]"""
    out = []
    depth = 0
    while isinstance(s, dict) and "$ref" in s and depth < 30:
        name = s["$ref"].split("/")[-1]
        if name in flat and isinstance(v, dict) and isinstance(w, dict):
            return [(name, v, w, path)]
        s = doc["definitions"][name]
        depth += 1
    if not isinstance(s, dict):
        return out
    if isinstance(v, dict) and isinstance(w, dict):
        for k, ps in s.get("properties", {}).items():
            if k in v and k in w:
                out += flat_union_positions(doc, flat, ps, v[k], w[k], path + (k,))
        ap = s.get("additionalProperties")
        if isinstance(ap, dict):
            for k in v:
                if k in w and k not in s.get("properties", {}):
                    out += flat_union_positions(doc, flat, ap, v[k], w[k], path + (k,))
    elif isinstance(v, list) and isinstance(w, list) and len(v) == len(w) and isinstance(s.get("items"), dict):
        for n, (x, y) in enumerate(zip(v, w)):
            out += flat_union_positions(doc, flat, s["items"], x, y, path + (n,))
    return out


def flat_union_plan(doc, name, v):
    """serde's flatten consumption for `struct { #[serde(flatten)] subtype_i: Option<S_i> }` on the entries of v in
    text order: S_i takes every remaining entry whose key it declares, stops at the first value it rejects, and
    what it took stays taken whether or not it succeeds.  Returns the value-validity queries needed."""
    branches = [resolve(doc, b) for b in doc["definitions"][name]["anyOf"]]
    qs = []
    for i, b in enumerate(branches):
        for k, x in v.items():
            if k in b.get("properties", {}):
                qs.append(((i, k), b["properties"][k], x))
    return branches, qs


def flat_union_objects(branches, v, okval, consume):
    """-> per branch the object it gets to see (None when a taken value is rejected)"""
    pool = list(v.items())
    res = []
    for i, b in enumerate(branches):
        props = b.get("properties", {})
        taken, failed = [], False
        for k, x in pool:
            if k in props:
                taken.append(k)
                if not okval[(i, k)]:
                    failed = True
                    break
        res.append(None if failed else {k: x for k, x in pool if k in taken})
        if consume:
            pool = [(k, x) for k, x in pool if k not in taken]
    return res


def classify_f4(ex, pending):
    """pending: [(rec, it)] with kinds within {declared-data-lost, invalid-output} in documents that have anyOf-of-objects
    definitions (an output can also be INVALID: when every subtype fails the struct serialises as {}).
    At a flattened-union position a member counts as declared when a branch that ACCEPTS the instance declares it
    (a member only a rejecting branch declares is an additional property of the accepting ones: outside the
    quantifier).  A departure is in class F4 when re-adding, at every such position, the members that the
    consumption order explains (kept when every subtype sees all entries, lost when earlier subtypes consume theirs)
    restores containment.  Three oracle batches for all of them.  -> list of "f4" | "outside" | None"""
    plans = []
    q0 = collections.OrderedDict()
    q1 = collections.OrderedDict()
    for n, (rec, it) in enumerate(pending):
        doc = ex.docs[it["m"]]
        kinds_of = anyof_object_defs(doc, ex.dumps[it["m"]])
        ref = {"$ref": "#/definitions/" + it["name"]}
        pos = flat_union_positions(doc, set(kinds_of), ref, rec["instance_declared_part"], rec["output"])
        pl = []
        for name, vs, ws, path in pos:
            branches, qs = flat_union_plan(doc, name, vs)
            if kinds_of[name] != "flat":
                qs = []
            pl.append((name, vs, ws, path, branches, qs, kinds_of[name]))
            for i, b in enumerate(branches):
                q0.setdefault(it["m"], []).append((n, len(pl) - 1, i, b, vs))
            for key, sch, x in qs:
                q1.setdefault(it["m"], []).append((n, len(pl) - 1, key, sch, x))
        plans.append(pl)
    accepts, okval = {}, {}
    if q0:
        r = oracle.classify([(ex.docs[m], [(b, x) for _, _, _, b, x in qs]) for m, qs in q0.items()])
        for (m, qs), rr in zip(q0.items(), r):
            for (n, pi, i, _, _), ok in zip(qs, rr):
                accepts[(n, pi, i)] = ok is True
    if q1:
        r = oracle.classify([(ex.docs[m], [(sch, x) for _, _, _, sch, x in qs]) for m, qs in q1.items()])
        for (m, qs), rr in zip(q1.items(), r):
            for (n, pi, key, _, _), ok in zip(qs, rr):
                okval[(n, pi, key)] = ok is True
    q2 = collections.OrderedDict()
    sims = {}
    for n, (rec, it) in enumerate(pending):
        for pi, (name, vs, ws, path, branches, qs, knd) in enumerate(plans[n]):
            if knd != "flat":
                continue
            ov = {key: okval[(n, pi, key)] for key, _, _ in qs}
            for mode in (True, False):
                objs = flat_union_objects(branches, vs, ov, mode)
                sims[(n, pi, mode)] = objs
                for i, o in enumerate(objs):
                    if o is not None:
                        q2.setdefault(it["m"], []).append((n, pi, mode, i, branches[i], o))
    okobj = {}
    if q2:
        r = oracle.classify([(ex.docs[m], [(b, o) for _, _, _, _, b, o in qs]) for m, qs in q2.items()])
        for (m, qs), rr in zip(q2.items(), r):
            for (n, pi, mode, i, _, _), ok in zip(qs, rr):
                okobj[(n, pi, mode, i)] = ok is True
    out = []
    q3 = []
    for n, (rec, it) in enumerate(pending):
        vd2 = json.loads(json.dumps(rec["instance_declared_part"]))
        w2 = json.loads(json.dumps(rec["output"]))
        explained = set()
        for pi, (name, vs, ws, path, branches, qs, knd) in enumerate(plans[n]):
            acc = [i for i in range(len(branches)) if accepts.get((n, pi, i))]
            declared = set()
            for i in acc:
                declared |= set(branches[i].get("properties", {}))
            cur = vd2
            for k in path:
                cur = cur[k]
            for k in list(cur):
                if k not in declared:
                    del cur[k]
            if knd == "flat":
                kept = {}
                for mode in (True, False):
                    ks = set()
                    for i, o in enumerate(sims[(n, pi, mode)]):
                        if o is not None and okobj.get((n, pi, mode, i)):
                            ks |= set(o)
                    kept[mode] = ks
                lost = ((kept[False] - kept[True]) - set(ws)) & declared
                tag = "f4"
            else:
                # untagged enum: the first accepting branch wins; a member only later accepting branches declare is
                # dropped as unknown; in class F5 only when typify's "requires a property the other does not declare"
                # test is what made the two branches exclusive
                lost = set()
                if len(acc) >= 2:
                    first = branches[acc[0]]
                    for k in cur:
                        if k in ws or k in first.get("properties", {}):
                            continue
                        if any(k in branches[j].get("properties", {}) and
                               exclusive_by_undeclared_required(first, branches[j]) for j in acc[1:]):
                            lost.add(k)
                tag = "f5"
            if lost:
                explained.add(tag)
                cur = w2
                for k in path:
                    cur = cur[k]
                for k in lost:
                    cur[k] = vs[k]
        if contained(prune(vd2), prune(rec["output"])) and "invalid-output" not in rec["kinds"]:
            out.append("outside")
        elif len(explained) == 1 and contained(prune(vd2), prune(w2)):
            out.append(explained.pop())
            if "invalid-output" in rec["kinds"]:      # the repaired output must be valid as well (F4 only)
                if out[-1] == "f4":
                    q3.append((n, it["m"], {"$ref": "#/definitions/" + it["name"]}, w2))
                else:
                    out[-1] = None
        else:
            out.append(None)
    if q3:
        r = oracle.classify([(ex.docs[m], [(ref, w2)]) for _, m, ref, w2 in q3])
        for (n, _, _, _), rr in zip(q3, r):
            if rr[0] is not True:
                out[n] = None
    return out


# ----------------------------------------------------------------- overlapping object anyOf families (random stream)
def overlap_docs(seed, n):
    """documents whose definitions are anyOf families of object branches that are NOT mutually exclusive: a shared
    property pinned to a constant (and required) in one branch only, plain in the others; both orders; 2-3 branches;
    plus a wrapper referencing the family.  Instances: every combination of shared value x own members, in two key
    orders (serde's flatten consumption is order sensitive); the oracle decides validity."""
    import random
    out = []
    TY = [({"type": "integer"}, [3, 0]), ({"type": "string"}, ["s", ""]), ({"type": "boolean"}, [True, False]),
          ({"type": "array", "items": {"type": "integer"}}, [[1, 2], []])]
    for d in range(n):
        rnd = random.Random(seed * 7907 + d)
        defs, inst = {}, {}
        for fam in range(rnd.choice([1, 2])):
            shared = rnd.choice(["kind", "mode", "type", "tag-x"])
            const = rnd.choice(["a", "parcel", "x-1"])
            owns = rnd.sample(["weight", "carrier", "fooBar", "n1", "zed"], 3)
            tys = [rnd.choice(TY) for _ in owns]
            pinned = {"type": "object", "properties": {shared: {"type": "string", "enum": [const]}, owns[0]: tys[0][0]},
                      "required": [shared] + ([owns[0]] if rnd.random() < 0.3 else [])}
            loose = {"type": "object", "properties": {shared: {"type": "string"}, owns[1]: tys[1][0]}}
            req = ([shared] if rnd.random() < 0.3 else []) + ([owns[1]] if rnd.random() < 0.3 else [])
            if req:
                loose["required"] = req
            branches = [pinned, loose]
            if rnd.random() < 0.5:
                third = {"type": "object", "properties": {owns[2]: tys[2][0]}}
                if rnd.random() < 0.5:
                    third["properties"][shared] = {"type": "string"}
                branches.append(third)
            rnd.shuffle(branches)
            name = "Fam%d" % fam
            defs[name] = {"anyOf": branches}
            vs = []
            for sv in (None, const, "other"):
                for mask in range(8):
                    v = {}
                    if sv is not None:
                        v[shared] = sv
                    for b in range(3):
                        if mask >> b & 1 and (b < 2 or len(branches) == 3):
                            v[owns[b]] = tys[b][1][rnd.randrange(2)]
                    vs.append(v)
                    if len(v) > 1 and rnd.random() < 0.5:
                        vs.append(dict(reversed(list(v.items()))))
            inst[name] = vs
            defs["Wrap%d" % fam] = {"type": "object", "properties": {"inner": {"$ref": "#/definitions/" + name},
                                                                      "n": {"type": "integer"}}, "required": ["inner"]}
            inst["Wrap%d" % fam] = [{"inner": v} for v in vs[::5]] + [{"n": 1, "inner": vs[-1]}]
        out.append(("gen-overlap-%d.json" % d,
                    {"$schema": "http://json-schema.org/draft-07/schema#", "definitions": defs},
                    ["anyof_overlap"], inst))
    return out



# ----------------------------------------------------------------- Coq parts
def theorem_names(path, prefix):
    if not os.path.exists(path):
        return []
    txt = vlib.strip_coq_comments(open(path).read())
    return re.findall(r"\bTheorem\s+(%s\w+)" % prefix, txt)


def rt_simple_eval(tag, ex, ids, timeout=900):
    """rt_simple on every named definition's type of the given documents -> {(i, name): bool}"""
    ok, out = vlib.coq_make(["theories/Check/RoundTrip.vo", "theories/IR/SerdeRun.vo"])
    if not ok:
        raise RuntimeError(out[-3000:])
    lines = [tocoq.COQ_HEADER, "From Typify Require Import IR.Serde IR.SerdeRun Check.RoundTrip.\nOpen Scope string_scope.\n"]
    exprs, meta = [], []
    for i in ids:
        d = ex.dumps[i]
        lines.append("Definition sp_%d : space := %s.\n" % (i, tocoq.cspace(d)))
        for nm in sorted(ex.docs[i]["definitions"]):
            key = "#/" + nm
            if key not in d["ref_to_id"]:
                continue
            exprs.append('(if rt_simple sp_%d %d%%N then "T" else "F")' % (i, d["ref_to_id"][key]))
            meta.append((i, nm))
    if not exprs:
        return {}
    lines.append("Definition vnl : string := String (Ascii.ascii_of_nat 10) EmptyString.\n")
    lines.append("Definition vcases : list string := [\n" + ";\n".join(exprs) + "\n]%list.\n")
    lines.append("Set Printing Width 1000000.\nSet Printing Depth 1000000.\nEval vm_compute in (String.concat vnl vcases).\n")
    p = os.path.join(vlib.WORK, "cases", tag)
    os.makedirs(p, exist_ok=True)
    f = os.path.join(p, "rt.v")
    open(f, "w").write("".join(lines))
    rc, out, err = vlib.coqc_file(f, timeout)
    if rc != 0:
        raise RuntimeError((out + err)[-3000:])
    mm = re.search(r'= "(.*)"\s*\n\s*: string', out, re.S)
    res = mm.group(1).split("\n")
    if len(res) != len(meta):
        raise RuntimeError("rt_simple: %d answers for %d types" % (len(res), len(meta)))
    return {k: r == "T" for k, r in zip(meta, res)}


def instantiate(tag, ex, pairs, timeout=900):
    """kernel-checked corollaries: for each (doc, definition) with rt_simple = true the
    three theorems instantiated on the real IR (for all instances, fuels, regex engines)."""
    lines = [tocoq.COQ_HEADER,
             "From Typify Require Import IR.Serde IR.SerdeRun Check.RoundTrip Props.C03.\n"]
    done = set()
    n = 0
    for i, nm in pairs:
        d = ex.dumps[i]
        if i not in done:
            lines.append("Definition sp_%d : space := %s.\n" % (i, tocoq.cspace(d)))
            done.add(i)
        t = d["ref_to_id"]["#/" + nm]
        lines.append(
            "Lemma simple_%d_%d : rt_simple sp_%d %d%%N = true.\nProof. vm_compute. reflexivity. Qed.\n"
            "Definition total_%d_%d := fun re nat => C03_ser_total re nat sp_%d %d%%N simple_%d_%d.\n"
            "Definition idem_%d_%d := fun re nat => C03_rt_idempotent re nat sp_%d %d%%N simple_%d_%d.\n"
            "Definition fixp_%d_%d := fun re nat => C03_rt_fixed_point re nat sp_%d %d%%N simple_%d_%d.\n"
            "Definition cont_%d_%d := fun re nat => C03_rt_contains re nat sp_%d %d%%N simple_%d_%d.\n"
            % (i, t, i, t, i, t, i, t, i, t, i, t, i, t, i, t, i, t, i, t, i, t, i, t, i, t, i, t))
        n += 1
    p = os.path.join(vlib.WORK, "cases", tag)
    os.makedirs(p, exist_ok=True)
    f = os.path.join(p, "inst.v")
    open(f, "w").write("".join(lines))
    rc, out, err = vlib.coqc_file(f, timeout)
    return rc == 0, (out + err)[-2500:], n


# ----------------------------------------------------------------- run
def run(ctx):
    ctx.level = "proof"
    quick = ctx.tier == "quick"
    T = "q" if quick else "t"
    ctx.checker_cmd = ("make theories/Props/C03.vo; coqc work/cases/c03inst%s/inst.v (rt_simple by vm_compute on the "
                       "real IR + instantiation of C03_ser_total / C03_rt_idempotent / C03_rt_fixed_point / C03_rt_contains)" % T)
    ctx.trusted = [
        "Coq 8.16.1 kernel + vm_compute",
        "IR/Serde.v as the meaning of serde on generated types (hand model; tied to compiled code by K5 on every run, "
        "here including the second round trip)",
        "py/tocoq.py translators (JSON / IR dump -> Gallina terms), verif_dump hook",
        "python jsonschema Draft7 (+ integer format ranges) as the validity oracle of the direct evaluation",
        "section variables of IR/Serde.v: regex engine re_match and native parsers native_ok (arbitrary in the theorems)",
    ]
    ctx.assumptions = [
        "instance domain: integer literals within i64/u64, no integral-valued float literal at integer positions (DESIGN 3.2)",
        "theorems are about the model of generated code for the class rt_simple (no untagged enum, no flattened member, "
        "String map keys, no Option<Option<_>>); outside it only the direct evaluation and K5 apply; validity of the "
        "output is decided by the oracle on compiled code, not by a theorem",
        "declared_only of the theorems is stated on the model (every object key is a declared wire name, structs are "
        "given as objects, unit variants in their canonical form); the direct evaluation restricts v by the schema",
    ]
    vlib.build_harness(bins=("vh",))
    faithful.CORPUS = CORPUS      # curated C03 corpus heads the same compiled world
    base_curated = faithful.curated_docs
    n_overlap = 6 if quick else 40
    faithful.curated_docs = lambda: base_curated() + overlap_docs(ctx.seed, n_overlap)   # + seeded overlapping anyOf families
    try:
        ex = faithful.build(ctx, n_sup=30 if quick else 160, n_full=40 if quick else 220, n_inst=3 if quick else 6,
                            world_name="c03" + T)
    finally:
        faithful.curated_docs = base_curated
    ctx.coverage["distribution"] = faithful.distribution(ex)
    w = ex.world
    ctx.coverage["rule"] = ("curated corpus corpus/C03 + documents from the seeded grammar (supported + full stream); per "
                            "definition: curated, minimal + random valid instances, boundary variants, mutants; the "
                            "property is evaluated on oracle-valid instances the compiled type accepts; distinct = "
                            "distinct (definition schema, instance) pairs")

    # ---- Coq obligations
    thms = theorem_names(PROPS, "C03_")
    coq_ok = False
    if thms:
        coq_ok = vlib.standard_coq_obligations(ctx, "Props.C03", thms, vlib.STD_AXIOMS)
    else:
        ctx.oblige("Props/C03.v present", False, "property theorem file missing")
    # the schema quantifier closed on the converter fragment (Props/C03F.v: every type the converter model
    # builds for a fragment document satisfies rt_set; model tied to the real converter by K3)
    import convert_check
    convert_check.convert_obligations(ctx, "C03")

    if MUT == "anyof-untagged":
        def simple_accepts(b, v):
            if not isinstance(v, dict) or not set(b.get("required", [])) <= set(v):
                return False
            for k, ps in b.get("properties", {}).items():
                if k in v:
                    if "enum" in ps and v[k] not in ps["enum"]:
                        return False
                    ty = {"string": str, "integer": int, "boolean": bool, "array": list}.get(ps.get("type"))
                    if ty and (not isinstance(v[k], ty) or (ty is int and isinstance(v[k], bool))):
                        return False
            return True
        for it in ex.items:
            doc = ex.docs[it["m"]]
            d = ex.dumps.get(it["m"])
            if d is None or anyof_object_defs(doc, d).get(it["name"]) != "flat" or "ok" not in it["out"]:
                continue
            for b in doc["definitions"][it["name"]]["anyOf"]:
                if simple_accepts(b, it["v"]):
                    it["out"] = {"ok": {k: x for k, x in it["v"].items() if k in b.get("properties", {})}}
                    break
        for m, d in ex.dumps.items():
            for name, knd in anyof_object_defs(ex.docs[m], d).items():
                if knd == "flat":
                    e = d["entries"][str(d["ref_to_id"]["#/" + name])]
                    e["kind"] = "enum"
                    e["tag"] = {"k": "untagged"}
                    e["variants"] = []
                    e["bespoke"] = []

    # ---- direct evaluation of the property text on compiled code
    cand = [it for it in ex.items if it["valid"] is True and it["accepted"]]
    for it in cand:
        it["out"] = mutate_answer(it["out"])
    reqs = [{"m": it["m"], "t": it["tname"], "op": "de", "input": json.dumps(it["out"]["ok"])} for it in cand]
    outs2 = w.query(reqs)
    batches = collections.OrderedDict()
    for it in cand:
        batches.setdefault(it["m"], []).append(({"$ref": "#/definitions/" + it["name"]}, it["out"]["ok"]))
    verd = [x for b in oracle.classify([(ex.docs[m], qs) for m, qs in batches.items()]) for x in b]
    # ex.items are grouped by document in ascending order, so the flattened oracle answers align with cand
    assert [it["m"] for it in cand] == sorted(it["m"] for it in cand) and len(verd) == len(cand)
    pos = {id(it): n for n, it in enumerate(cand)}
    viol, outside, offrag = [], [], []
    f4 = next((f for f in ctx.findings_for() if f.get("class") == "flattened-union-earlier-subtype-consumes-shared-member"), None)
    f5 = next((f for f in ctx.findings_for() if f.get("class") == "anyof-open-objects-deemed-exclusive-by-undeclared-required"), None)
    f4_pending = []
    not_fragment = set()
    for fn in os.listdir(CORPUS):
        if fn.endswith(".json") and json.load(open(os.path.join(CORPUS, fn))).get("fragment") is False:
            not_fragment.add("curated:" + fn)
    rec_skipped = 0
    for it, o2 in zip(cand, outs2):
        o2 = mutate_answer(o2, second=True)
        doc = ex.docs[it["m"]]
        ref = {"$ref": "#/definitions/" + it["name"]}
        wv = it["out"]["ok"]
        kinds = []
        if verd[pos[id(it)]] is not True:
            kinds.append("invalid-output")
        vd = restrict(doc, ref, it["v"])
        if not contained(prune(vd), prune(wv)):
            kinds.append("declared-data-lost")
        if "ok" not in o2:
            if "recursion limit" in json.dumps(o2):
                rec_skipped += 1
            else:
                kinds.append("output-rejected")
        elif not exact_eq(o2["ok"], wv):
            kinds.append("not-a-fixed-point")
        it["w"] = wv
        it["w2"] = o2["ok"] if "ok" in o2 else NOANSWER
        it["declared_only"] = exact_eq(vd, it["v"])
        ctx.evaluations += 1
        ctx.nontrivial.add(json.dumps([doc["definitions"][it["name"]], it["v"]], sort_keys=True))
        if kinds:
            rec = {"kinds": kinds, "document": doc, "definition": it["name"], "instance": it["v"],
                   "instance_declared_part": vd, "output": wv, "second_output": o2,
                   "output_valid": verd[pos[id(it)]], "stream": ex.stream[it["m"]], "declared_only": it["declared_only"]}
            f = classify_violation(ctx, ex, it, kinds, wv)
            if f is None and "declared-data-lost" in kinds and set(kinds) <= {"declared-data-lost", "invalid-output"} and \
                    (f4 is not None or f5 is not None) and \
                    anyof_object_defs(doc, ex.dumps[it["m"]]):
                f4_pending.append((rec, it))
                continue
            if f is not None:
                ctx.known_finding(f["id"], "%s: %s (definition %s of %s, instance %s -> %s)" % (
                    f["id"], f["summary"][:160], it["name"], ex.stream[it["m"]], json.dumps(it["v"])[:80],
                    json.dumps(wv)[:80]))
            elif kinds == ["invalid-output"] and invalid_schema_default(doc, ref, it["v"], wv):
                rec["note"] = "a schema default that violates its own property schema was filled in"
                offrag.append(rec)
            elif ex.stream[it["m"]] in not_fragment:
                offrag.append(rec)
            elif it["declared_only"]:
                viol.append(rec)
            else:
                outside.append(rec)
    # finding F4 is decided for all candidates at once (two oracle batches)
    n_f4 = n_f5 = 0
    if f4_pending:
        for (rec, it), yes in zip(f4_pending, classify_f4(ex, f4_pending)):
            if yes == "outside":
                outside.append(rec)
            elif (yes == "f4" and f4 is not None) or (yes == "f5" and f5 is not None):
                ff = f4 if yes == "f4" else f5
                n_f4 += yes == "f4"
                n_f5 += yes == "f5"
                ctx.known_finding(ff["id"], "%s: %s (definition %s of %s, instance %s -> %s)" % (
                    ff["id"], ff["summary"][:160], it["name"], ex.stream[it["m"]], json.dumps(it["v"])[:80],
                    json.dumps(rec["output"])[:80]))
            elif ex.stream[it["m"]] in not_fragment:
                offrag.append(rec)
            elif it["declared_only"]:
                viol.append(rec)
            else:
                outside.append(rec)
    ctx.coverage["finding_F4_instances"] = n_f4
    ctx.coverage["finding_F5_instances"] = n_f5
    ctx.coverage["direct_property_evaluations"] = len(cand)
    ctx.coverage["departures_by_stream_and_kind"] = dict(collections.Counter(
        "%s %s %s" % (r["stream"], r["definition"], "+".join(r["kinds"])) for r in viol + outside))
    os.makedirs(os.path.join(vlib.WORK, "replay"), exist_ok=True)
    json.dump(viol + outside, open(os.path.join(vlib.WORK, "replay", "C03-departures-%s.json" % T), "w"), indent=1, default=str)
    if viol or outside:
        ctx.log("departures:", json.dumps(ctx.coverage["departures_by_stream_and_kind"]))
    ctx.coverage["instances_with_undeclared_members"] = len([it for it in cand if not it["declared_only"]])
    ctx.coverage["outside_quantifier_departures"] = len(outside)
    ctx.coverage["departures_on_documents_outside_the_faithful_fragment"] = [
        {"stream": r["stream"], "kinds": r["kinds"], "instance": r["instance"], "output": r["output"]} for r in offrag]
    ctx.coverage["skipped_recursion_limit"] = rec_skipped
    ctx.coverage["outputs_differing_from_input"] = len([it for it in cand if not exact_eq(it["w"], it["v"])])
    ctx.samples = [{"definition": ex.docs[it["m"]]["definitions"][it["name"]], "instance": it["v"], "output": it["w"]}
                   for it in cand[:: max(1, len(cand) // 8)]]
    ctx.oblige("direct evaluation: w = to_value(from_str(v)) is valid again, contains prune(v|declared) and is a fixed "
               "point, for %d oracle-valid accepted instances (departures on instances with undeclared members are "
               "outside the quantifier: counted in coverage only)" % len(cand), not viol,
               json.dumps(viol[:2])[:1800])
    ctx.oblige("direct evaluation is not vacuous (>= 200 instances, >= 20 outputs differing from their input)",
               len(cand) >= 200 and ctx.coverage["outputs_differing_from_input"] >= 20, "")
    n_ok = len([s for s in w.status if s == "ok"])
    ctx.oblige("world: at least 90%% of the documents generated and compiled (%d/%d)" % (n_ok, len(ex.docs)),
               n_ok * 10 >= len(ex.docs) * 9, json.dumps(dict(w.compile_errors))[:800])
    cur_bad = [s for i, s in enumerate(ex.stream) if s.startswith("curated") and w.status[i] != "ok"]
    ctx.oblige("curated corpus documents all generate and compile", not cur_bad, json.dumps(cur_bad))

    # ---- the witness space of C03_boxed_option_output_invalid is the IR typify dumps now
    try:
        i_ab = ex.stream.index("curated:ab-boxed-option.json")
        d = ex.dumps[i_ab]
        ents = sorted(((int(k), v) for k, v in d["entries"].items()))
        txt = tocoq.clist(ents, lambda kv: "(%s, %s)" % (tocoq.cN(kv[0]), tocoq.centry(kv[1])), "(id * entry)")
        norm = lambda t: re.sub(r"\s+", "", t)
        ctx.oblige("regression witness of fixed finding C03-F1: Props/C03.v ab_space has exactly the entries typify dumps "
                   "for corpus/C03/ab-boxed-option.json (B.next : Optional, Box<Option<B>>)", norm(txt) in norm(open(PROPS).read()) and
                   ("B", "next") in boxed_option_members(d), txt[:600])
    except Exception as e:  # noqa
        ctx.oblige("regression witness space of fixed finding C03-F1 is reproduced", False, str(e)[-800:])

    # ---- K5: model double round trip vs compiled double round trip
    try:
        k5.FUEL = 150     # deep recursive instances of the curated corpus need more than the default 40
        cases = [(it["m"], it["tid"], it["v"]) for it in cand]
        sup = k5.eval_cases("c03sup" + T, ex.dumps, cases, fn="run_sup")
        mod = k5.eval_cases("c03rt2" + T, ex.dumps, cases, fn="run_rt2", shard=30)
        mism, n_sup = [], 0
        for it, s, m in zip(cand, sup, mod):
            it["sup"] = s == "sup"
            if s != "sup":
                continue
            n_sup += 1
            same = False
            if m.startswith("ok:") and "|" in m:
                # the printer never emits '|' outside strings; split at the top-level separator
                a, b = split_rt2(m[3:])
                try:
                    ma = tocoq.canon(tocoq.unshow_json(a))
                    same = k5.canon_eq(ma, tocoq.canon(it["w"]))
                    if b == "err":
                        same = same and it["w2"] is NOANSWER
                    else:
                        same = same and it["w2"] is not NOANSWER and k5.canon_eq(tocoq.canon(tocoq.unshow_json(b)),
                                                                             tocoq.canon(it["w2"]))
                except Exception:  # noqa
                    same = False
            if not same:
                mism.append({"doc": ex.docs[it["m"]], "definition": it["name"], "instance": it["v"],
                             "compiled": [it["w"], it["w2"]], "model": m[:600]})
        ctx.oblige("correspondence K5: model run_rt2 (de;ser;de;ser) = compiled double round trip on %d (type, instance) "
                   "pairs" % n_sup, not mism and n_sup >= 100,
                   json.dumps([{k: (x if k != "doc" else "...") for k, x in m.items()} for m in mism[:6]])[:2500])
        ctx.coverage["k5_pairs"] = n_sup
        ctx.coverage["k5_mismatches"] = len(mism)
        if mism:
            os.makedirs(os.path.join(vlib.WORK, "model-defects"), exist_ok=True)
            json.dump(mism[:20], open(os.path.join(vlib.WORK, "model-defects", "c03-k5.json"), "w"), default=str)
    except Exception as e:  # noqa
        ctx.oblige("correspondence K5 evaluates", False, str(e)[-1500:])

    # ---- rt_simple on the real IR, theorems instantiated
    if os.path.exists(os.path.join(vlib.COQ, "theories", "Check", "RoundTrip.v")):
        try:
            ids = sorted(ex.dumps)
            res = rt_simple_eval("c03simple" + T, ex, ids)
            sup_ids = {i for i, s in enumerate(ex.stream) if s == "supported"}
            yes = [k for k, r in res.items() if r]
            ctx.coverage["rt_simple_evaluations"] = len(res)
            ctx.coverage["rt_simple_true"] = len(yes)
            by_stream = collections.Counter((ex.stream[i].split(":")[0], r) for (i, _), r in res.items())
            ctx.coverage["rt_simple_by_stream"] = {"%s:%s" % k: v for k, v in sorted(by_stream.items(), key=str)}
            ctx.oblige("rt_simple holds for a substantial part of the explored definitions (%d/%d)" % (len(yes), len(res)),
                       len(yes) * 3 >= len(res), "")
            # cross-check: on rt_simple types the compiled code never departs (theorem + K5 predict it)
            # (the theorems predict the fixed point and containment, not validity of the output)
            bad = [r for r in viol if set(r["kinds"]) - {"invalid-output"} and res.get((ex.docs.index(r["document"]), r["definition"]))]
            ctx.oblige("no departure of compiled code on an rt_simple type", not bad, json.dumps(bad[:1])[:1500])
            # the model-level hypothesis decl_only of C03_rt_contains holds on the schema-level declared-only instances
            try:
                sel = [it for it in cand if it["declared_only"] and res.get((it["m"], it["name"]))]
                hdr = tocoq.COQ_HEADER
                tocoq.COQ_HEADER = hdr + "From Typify Require Import Check.RoundTrip.\n"
                try:
                    dres = k5.eval_cases("c03decl" + T, ex.dumps, [(it["m"], it["tid"], it["v"]) for it in sel],
                                         fn='(fun (_ _ : tbl) (T : space) (f : N) (i : id) (j : json) => if decl_only T (N.to_nat f) i j then "T"%string else "F"%string)',
                                         shard=100)
                finally:
                    tocoq.COQ_HEADER = hdr
                exc = [it for it, r in zip(sel, dres) if r != "T"]
                ctx.coverage["decl_only_evaluations"] = len(sel)
                ctx.coverage["decl_only_true"] = len(sel) - len(exc)
                ctx.coverage["decl_only_exceptions_sample"] = [
                    {"definition": ex.docs[it["m"]]["definitions"][it["name"]], "instance": it["v"]} for it in exc[:3]]
                ctx.oblige("hypothesis decl_only of C03_rt_contains holds for %d/%d declared-only valid instances of "
                           "rt_simple types (exceptions: null-payload unit variants, finding F3)" % (
                               len(sel) - len(exc), len(sel)),
                           len(sel) >= 50 and len(exc) * 10 <= len(sel), json.dumps(ctx.coverage["decl_only_exceptions_sample"])[:1200])
            except Exception as e:  # noqa
                ctx.oblige("decl_only evaluates on the explored instances", False, str(e)[-1200:])
            if coq_ok and {"C03_ser_total", "C03_rt_idempotent", "C03_rt_fixed_point", "C03_rt_contains"} <= set(thms):
                ok, detail, n = instantiate("c03inst" + T, ex, yes if not quick else yes[:150])
                ctx.oblige("kernel accepts the four theorems instantiated on the real IR of %d definitions" % n, ok, detail)
        except Exception as e:  # noqa
            ctx.oblige("rt_simple evaluates on the dumped IRs", False, str(e)[-1500:])
    else:
        ctx.oblige("Check/RoundTrip.v present", False, "checker file missing")

    # ---- verdict
    if viol:
        viol.sort(key=lambda v: len(json.dumps(v["document"])) + len(json.dumps(v["instance"])))
        v = viol[0]
        v["broken_obligations"] = [o[0] for o in ctx.broken()]
        ctx.violation(v)
    elif ctx.broken():
        ctx.violation({"broken_obligations": [(o[0], o[2][:1500]) for o in ctx.broken()],
                       "note": "a theorem, rt_simple on a real IR, or the K5 correspondence no longer checks; the direct "
                               "evaluation found no declared-only valid instance whose round trip departs"}, no_input=True)
    if ctx.tier == "thorough" and coq_ok:
        rc, out, err = vlib.sh("timeout 1500 coqchk -silent -o -Q theories Typify Typify.Props.C03", cwd=vlib.COQ,
                               timeout=1600)
        ctx.oblige("coqchk re-checks Props.C03 and dependencies", rc == 0, (out + err)[-1500:])


def split_rt2(s):
    """split "<json>|<json or err>" at the separator outside string literals"""
    instr = False
    i = 0
    while i < len(s):
        c = s[i]
        if instr:
            if c == "\\":
                i += 1
            elif c == '"':
                instr = False
        elif c == '"':
            instr = True
        elif c == "|":
            return s[:i], s[i + 1:]
        i += 1
    return s, ""
